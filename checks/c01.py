"""C01 - backend simulation matches the documented gate semantics (cirq exact / sampled, cirq translation, sympy)."""
import numpy as np
from hypothesis import strategies as st

from vlib.runner import part, Fail, Skip
from vlib import refsim as R, strategies as S
from vlib.stats import binomial_ok

PROPERTY = "C01"
RULE = ("Hypothesis-generated circuits over H,X,Y,Z,S,T,RX,RY,RZ,PHASE,CNOT,CX,CY,CZ,CH,CRX,CRY,CRZ,CPHASE,XX,SWAP,CSWAP "
        "(1-3 controls, arbitrary qubit placement, idle qubits, angles in [-4pi,4pi] / multiples of pi/4 / near 2pi k / up to 1e3) "
        "with optional user initial statevector; oracle = independent dense statevector simulator built from the gate "
        "definitions. Non-trivial = at least one parameterised or controlled gate AND final state has >=2 amplitudes >1e-6. "
        "Distinct = distinct canonical JSON of (part, circuit, initial state, mode).")
ASSUMPTIONS = ["numpy linear algebra", "reference gate table in vlib/refsim.py (self-tested against scipy expm)",
               "only cirq and sympy backends are installed; qulacs/qiskit/qdk/stim clauses are not exercised",
               "sampled mode is a statistical check (exact two-sided binomial tail < 1e-12 per outcome) with pinned numpy seed"]
SHARDS = {"quick": 8, "thorough": 16}


def selftest():
    R.selftest()
    from vlib import stats
    stats.selftest()


def nontrivial(case, psi):
    g_ok = any(g["p"] is not None or g["c"] for g in case["gates"])
    return g_ok and int(np.sum(np.abs(psi) > 1e-6)) >= 2


def labels(case):
    out = set()
    for g in case["gates"]:
        if g["c"] and len(g["c"]) > 1:
            out.add("multi-control")
        if g["c"] and g["p"] is not None:
            out.add("controlled-param")
        if g["p"] is not None and abs(g["p"]) > 2 * np.pi:
            out.add("angle>2pi")
        if g["n"] in ("XX", "CSWAP", "SWAP"):
            out.add("two-target")
        if g["n"] == "CNOT" and g["c"] and len(g["c"]) > 1:
            out.add("multi-control-CNOT")
    n = S.circuit_width(case)
    used = {q for g in case["gates"] for q in g["t"] + (g["c"] or [])}
    if len(used) < n:
        out.add("idle-qubit")
    if case.get("init") is not None:
        out.add("init-" + case["init"]["kind"])
    return out


def check_freqs_exact(freqs, p, n, what):
    for k, f in freqs.items():
        if len(k) != n or set(k) - {"0", "1"}:
            raise Fail(f"{what}: bad key {k!r}", sig=f"{what}:key")
        if abs(float(f) - p[int(k, 2)]) > 1e-7:
            raise Fail(f"{what}: frequency of {k} is {f}, reference {p[int(k, 2)]}", sig=f"{what}:freq")
    for i, pi_ in enumerate(p):
        if pi_ > 1e-7 and R.bitstr(i, n) not in freqs:
            raise Fail(f"{what}: outcome {R.bitstr(i, n)} with p={pi_} missing", sig=f"{what}:missing")


@st.composite
def exact_cases(draw, max_width, max_gates, names=None):
    c = draw(S.circuits(max_width=max_width, max_gates=max_gates, names=names))
    n = S.circuit_width(c)
    if n == 0:
        c["nq"] = n = 1
    c["init"] = draw(S.statevectors(n)) if draw(st.booleans()) else None
    return c


@part("cirq_exact", quick=500, thorough=400000)
def cirq_exact(ctx):
    from tangelo.linq import get_backend
    mw, mg = (5, 12) if ctx.tier == "quick" else (7, 30)

    def body(case):
        circ = S.build_circuit(case)
        n = S.circuit_width(case)
        if circ.width != n:
            raise Fail(f"Circuit.width={circ.width}, expected {n}", sig="width")
        init = S.build_statevector(case["init"], n)
        ref = R.run(case["gates"], n, init)
        p = R.probs(ref)
        be = get_backend("cirq")
        if be.backend_info()["statevector_order"] != "lsq_first":
            raise Fail("cirq advertises " + str(be.backend_info()), sig="cirq:order")
        freqs, sv = be.simulate(circ, return_statevector=True, initial_statevector=None if init is None else init.copy())
        sv = np.asarray(sv).reshape(-1)
        if sv.shape != ref.shape or np.max(np.abs(sv - ref)) > 1e-8:
            raise Fail(f"cirq statevector differs from reference by {np.max(np.abs(sv - ref)) if sv.shape == ref.shape else 'shape'}",
                       sig="cirq:statevector", got=[str(x) for x in sv[:8]], ref=[str(x) for x in ref[:8]])
        check_freqs_exact(freqs, p, n, "cirq:exact")
        return nontrivial(case, ref), labels(case)

    ctx.search("cirq_exact", exact_cases(mw, mg), body)


@part("cirq_unitary", quick=300, thorough=150000)
def cirq_unitary(ctx):
    import cirq
    from tangelo.linq import translate_circuit
    mw, mg = (4, 8) if ctx.tier == "quick" else (6, 16)

    def body(case):
        circ = S.build_circuit(case)
        n = S.circuit_width(case)
        if n == 0:
            raise Skip("empty")
        cc = translate_circuit(circ, "cirq")
        U = cirq.unitary(cc)
        if U.shape != (2 ** n, 2 ** n):
            # all qubits must be present (idle ones too)
            raise Fail(f"translated circuit acts on {int(np.log2(U.shape[0]))} qubits, circuit width {n}", sig="cirq:translate-width")
        ref = R.unitary(case["gates"], n)
        d = float(np.max(np.abs(U - ref)))
        if d > 1e-8:
            raise Fail(f"cirq.unitary(translate_circuit) differs from reference by {d}", sig="cirq:unitary")
        return any(g["p"] is not None or g["c"] for g in case["gates"]) and len(case["gates"]) >= 2, labels(case)

    ctx.search("cirq_unitary", S.circuits(max_width=mw, max_gates=mg), body)


@part("cirq_sampled", quick=120, thorough=40000)
def cirq_sampled(ctx):
    from tangelo.linq import get_backend
    mw, mg = (4, 10) if ctx.tier == "quick" else (6, 20)

    @st.composite
    def cases(draw):
        c = draw(exact_cases(mw, mg))
        c["shots"] = draw(st.sampled_from([1, 7, 100, 10000]))
        return c

    def body(case):
        circ = S.build_circuit(case)
        n = S.circuit_width(case)
        init = S.build_statevector(case["init"], n)
        ref = R.run(case["gates"], n, init)
        p = R.probs(ref)
        N = case["shots"]
        be = get_backend("cirq", n_shots=N)
        ctx.np_seed(case)
        freqs, _ = be.simulate(circ, initial_statevector=None if init is None else init.copy())
        tot = 0
        for k, f in freqs.items():
            if len(k) != n:
                raise Fail(f"sampled key {k!r} has wrong length", sig="cirq:sampled-key")
            cnt = f * N
            if abs(cnt - round(cnt)) > 1e-6:
                raise Fail(f"frequency {f} is not a multiple of 1/{N}", sig="cirq:sampled-granularity")
            tot += round(cnt)
            pk = p[int(k, 2)]
            if pk < 1e-9:
                raise Fail(f"sampled outcome {k} has reference probability {pk}", sig="cirq:sampled-support")
        if tot != N:
            raise Fail(f"sampled counts sum to {tot}, expected {N}", sig="cirq:sampled-total")
        for i, pk in enumerate(p):
            f = freqs.get(R.bitstr(i, n), 0.0)
            if not binomial_ok(f * N, N, pk):
                raise Fail(f"outcome {R.bitstr(i, n)}: frequency {f} vs p={pk} with N={N} (exact binomial tail < 1e-12)", sig="cirq:sampled-dist")
        return nontrivial(case, ref), labels(case) | {f"shots={N}"}

    ctx.search("cirq_sampled", cases(), body)


SYMPY_NAMES = [g for g in S.ALL_GATES if g not in S.SYMPY_UNSUPPORTED]


@part("sympy_exact", quick=36, thorough=8000)
def sympy_exact(ctx):
    from tangelo.linq import get_backend
    mw, mg = (3, 5) if ctx.tier == "quick" else (3, 7)

    @st.composite
    def cases(draw):
        c = draw(S.circuits(max_width=mw, max_gates=mg, names=SYMPY_NAMES, min_gates=1, max_controls=2,
                            angle=st.one_of(st.floats(-7, 7, allow_nan=False), st.integers(-8, 8).map(lambda k: k * np.pi / 4))))
        n = S.circuit_width(c)
        c["init"] = draw(S.statevectors(n)) if draw(st.integers(0, 2)) == 0 else None
        return c

    def body(case):
        circ = S.build_circuit(case)
        n = S.circuit_width(case)
        init = S.build_statevector(case["init"], n)
        ref = R.run(case["gates"], n, init)
        p = R.probs(ref)
        be = get_backend("sympy")
        order = be.backend_info()["statevector_order"]
        iv = None
        if init is not None:
            # user statevector handed over in the order the backend advertises, as the column array sympy wants
            v = init if order == "lsq_first" else R.reverse_order(init)
            iv = np.asarray(v).reshape(-1, 1)
        freqs, sv = be.simulate(circ, return_statevector=True, initial_statevector=iv)
        fl = {}
        for k, v in freqs.items():
            z = complex(v)   # symbolic probabilities may carry a rounding-size imaginary part
            if abs(z.imag) > 1e-9:
                raise Fail(f"sympy frequency of {k} is complex: {v}", sig="sympy:complex-frequency")
            fl[k] = z.real
        check_freqs_exact(fl, p, n, "sympy:exact")
        sv = np.array(sv.evalf().tolist(), dtype=complex).reshape(-1)
        got = sv if order == "lsq_first" else R.reverse_order(sv)
        if got.shape != ref.shape or np.max(np.abs(got - ref)) > 1e-7:
            raise Fail(f"sympy statevector (advertised order {order}) differs from reference", sig="sympy:statevector",
                       got=[str(x) for x in got[:8]], ref=[str(x) for x in ref[:8]])
        return nontrivial(case, ref), labels(case)

    ctx.search("sympy_exact", cases(), body)

    # outcomes whose exact probability lies between the comparison tolerance and 1e-4 (small rotation angles) must be
    # reported with that probability, not dropped: reached by construction (the generator above meets them only rarely)
    small = []
    for th in (0.01, 0.002, -0.0123, 0.015):
        for g in ("RX", "RY"):
            small.append({"nq": 2, "gates": [{"n": g, "t": [0], "c": None, "p": th}, {"n": "X", "t": [1], "c": None, "p": None}], "init": None})
        small.append({"nq": 2, "gates": [{"n": "H", "t": [0], "c": None, "p": None}, {"n": "CRX", "t": [1], "c": [0], "p": th}], "init": None})
    ctx.sweep("sympy_small_prob", small if ctx.tier != "quick" else small[:6], body)

    # gates sympy cannot express must be refused (documented: ValueError), never silently altered
    def body_refuse(case):
        from tangelo.linq import translate_circuit
        circ = S.build_circuit(case)
        try:
            translate_circuit(circ, "sympy")
        except ValueError:
            return True, ("refused",)
        raise Fail("sympy translation accepted a circuit with XX/CSWAP", sig="sympy:unsupported-accepted")

    ctx.search("sympy_refuse", S.circuits(max_width=3, max_gates=3, names=["XX", "CSWAP", "H", "RX"], min_gates=1)
               .filter(lambda c: any(g["n"] in ("XX", "CSWAP") for g in c["gates"])), body_refuse, n=max(4, ctx.share(0.2)))


# ------------------------------------------------------------------------------------------------------------------
# Exhaustive single-gate sweeps: every gate name x every placement (1..2 controls) on 3 qubits x a few angles, applied
# to a generic complex product state so that relative phases on control qubits are visible in the statevector.

PREFIX = [{"n": "RY", "t": [0], "c": None, "p": 0.7}, {"n": "RZ", "t": [0], "c": None, "p": 0.4},
          {"n": "RX", "t": [1], "c": None, "p": 1.1}, {"n": "RY", "t": [2], "c": None, "p": 2.3},
          {"n": "PHASE", "t": [2], "c": None, "p": -0.9}]
SWEEP_ANGLES = [0.37, -2.9, 3.141592653589793, 5.1, 9.0]


def gate_sweep_cases(names):
    import itertools
    out = []
    for nm in names:
        ntg = 2 if nm in ("SWAP", "XX", "CSWAP") else 1
        is_ctrl = nm in S.CTRL_NOPAR or nm in S.CTRL_PAR or nm == "CSWAP"
        ncs = [0] if not is_ctrl else [1, 2]
        for nc in ncs:
            if ntg + nc > 3:
                continue
            for qs in itertools.permutations(range(3), ntg + nc):
                for p in (SWEEP_ANGLES if nm in S.PARAM else [None]):
                    out.append({"gates": PREFIX + [{"n": nm, "t": list(qs[:ntg]), "c": list(qs[ntg:]) or None, "p": p}], "nq": 3})
    return out


@part("gate_sweep", quick=1, thorough=1)
def gate_sweep(ctx):
    from tangelo.linq import get_backend

    def make_body(backend):
        def body(case):
            circ = S.build_circuit(case)
            ref = R.run(case["gates"], 3)
            be = get_backend(backend)
            freqs, sv = be.simulate(circ, return_statevector=True)
            if backend == "sympy":
                sv = np.array(sv.evalf().tolist(), dtype=complex).reshape(-1)
                freqs = {k: complex(v).real for k, v in freqs.items()}
            sv = np.asarray(sv).reshape(-1)
            got = sv if be.backend_info()["statevector_order"] == "lsq_first" else R.reverse_order(sv)
            d = float(np.max(np.abs(got - ref)))
            if d > 1e-7:
                g = case["gates"][-1]
                raise Fail(f"{backend}: gate {g} on generic state: statevector differs from reference by {d}",
                           sig=f"{backend}:gate-sweep:{g['n']}:{len(g['c'] or [])}ctrl")
            check_freqs_exact(freqs, R.probs(ref), 3, f"{backend}:gate-sweep")
            return True, (case["gates"][-1]["n"],)
        return body

    ctx.sweep("cirq_gates", gate_sweep_cases(S.ALL_GATES), make_body("cirq"))
    # sympy is slow (0.1-0.5 s per simulation): quick tier sweeps every gate/placement at two angles, thorough at all
    sy = gate_sweep_cases(SYMPY_NAMES)
    if ctx.tier == "quick":
        sy = [c for c in sy if c["gates"][-1]["p"] in (None, -2.9, 3.141592653589793)]
    ctx.sweep("sympy_gates", sy, make_body("sympy"))


# ------------------------------------------------------------------------------------------------------------------
# Shot sampling is drawn in chunks of 10**7: shot numbers at and around the chunk boundary (the code imposes it).

@part("shot_chunks", quick=1, thorough=1)
def shot_chunks(ctx):
    from tangelo.linq import get_backend
    shots = [10**7 - 1, 10**7, 10**7 + 1] if ctx.tier == "quick" else [10**7 - 1, 10**7, 10**7 + 1, 2 * 10**7, 3 * 10**7 + 5]
    cases = [{"gates": [{"n": "RY", "t": [0], "c": None, "p": 1.0}], "nq": 1, "shots": s} for s in shots]

    def body(case):
        N = case["shots"]
        circ = S.build_circuit(case)
        p = R.probs(R.run(case["gates"], 1))
        be = get_backend("cirq", n_shots=N)
        ctx.np_seed(case)
        freqs, _ = be.simulate(circ)
        tot = sum(round(f * N) for f in freqs.values())
        if tot != N:
            raise Fail(f"n_shots={N}: returned counts sum to {tot}", sig="cirq:sampled-total:chunk-boundary")
        for i in range(2):
            f = freqs.get(str(i), 0.0)
            if not binomial_ok(f * N, N, p[i]):
                raise Fail(f"n_shots={N}: frequency {f} vs p={p[i]}", sig="cirq:sampled-dist:chunk-boundary")
        return True, (f"shots={N}",)

    ctx.sweep("shot_chunks", cases, body)


# ------------------------------------------------------------------------------------------------------------------
# Both backends in one process, on the same register widths, in both orders: bitstring conventions must not leak from
# one backend object/class to another (cirq is lsq_first, sympy msq_first). The sympy backend reaches the shared
# statevector-to-frequencies helper only for an empty circuit with a user-supplied initial statevector.

@part("cross_backend", quick=1, thorough=1)
def cross_backend(ctx):
    from tangelo.linq import get_backend, Circuit

    def freqs_of(backend, n, vec):
        be = get_backend(backend)
        v = vec if be.backend_info()["statevector_order"] == "lsq_first" else R.reverse_order(vec)
        iv = np.asarray(v).reshape(-1, 1) if backend == "sympy" else np.asarray(v)
        f, _ = be.simulate(Circuit(n_qubits=n), initial_statevector=iv)
        return {k: complex(x).real for k, x in f.items()}

    cases = []
    for n in (1, 2, 3, 4):
        for first in ("cirq", "sympy"):
            # non-palindromic support: amplitudes on |10..0>, |110..0> style indices with distinct weights
            amps = [0.0] * 2 ** n
            amps[1] = 0.6
            amps[2 ** n - 2 if n > 1 else 0] = 0.8 if n > 1 else 0.8
            if n == 1:
                amps = [0.6, 0.8]
            cases.append({"n": n, "first": first, "amps": amps})

    def body(case):
        n = case["n"]
        vec = np.array(case["amps"], dtype=complex)
        vec = vec / np.linalg.norm(vec)
        p = R.probs(vec)
        order = [case["first"], "sympy" if case["first"] == "cirq" else "cirq", case["first"]]
        for b in order:
            check_freqs_exact(freqs_of(b, n, vec), p, n, f"cross-backend:{b}-after-{order[0] if b != order[0] else 'start'}")
        return True, (f"first={case['first']}", f"n={n}")

    # every width is visited with both orders, but a process-wide leak depends on which backend asks first for a width:
    # shard by width so that each (width, first) pair meets a fresh process in at least one shard layout
    ctx.sweep("cross_backend", cases, body)


# ------------------------------------------------------------------------------------------------------------------
# The simulated circuit must be the one the user built, whatever was derived from it in between: derive other circuits
# (*, +, copy, inverse, stack, split), modify the derived objects in place, then simulate the original.

@part("after_derivation", quick=160, thorough=20000)
def after_derivation(ctx):
    from tangelo.linq import get_backend, Gate, Circuit

    @st.composite
    def cases(draw):
        c = draw(S.circuits(max_width=4, max_gates=8, min_gates=1))
        c["derive"] = draw(st.lists(st.sampled_from(["mul", "rmul", "add_left", "add_right", "copy", "inverse", "stack", "split"]), min_size=1, max_size=3))
        c["edit"] = draw(st.sampled_from(["add_gate_high", "add_gate_low", "trim", "reindex", "simplify"]))
        return c

    def body(case):
        n = S.circuit_width(case)
        circ = S.build_circuit(case)
        ref = R.run(case["gates"], n)
        derived = []
        for d in case["derive"]:
            if d == "mul":
                derived.append(circ * 2)
            elif d == "rmul":
                derived.append(2 * circ)
            elif d == "add_left":
                derived.append(circ + Circuit([Gate("H", 0)]))
            elif d == "add_right":
                derived.append(Circuit([Gate("X", 0)]) + circ)
            elif d == "copy":
                derived.append(circ.copy())
            elif d == "inverse":
                derived.append(circ.inverse())
            elif d == "stack":
                derived.append(circ.stack(circ))
            elif d == "split":
                derived.extend(circ.split())
        for dc in derived:
            if case["edit"] == "add_gate_high" and not dc._qubits_simulated:
                dc.add_gate(Gate("X", dc.width + 1))
            elif case["edit"] == "add_gate_low":
                dc.add_gate(Gate("Z", 0))
            elif case["edit"] == "trim":
                dc.trim_qubits()
            elif case["edit"] == "reindex" and dc.width > 0 and not dc._qubits_simulated:
                k = len(dc._qubit_indices)
                dc.reindex_qubits(list(range(k, 0, -1)))
            elif case["edit"] == "simplify":
                dc.simplify()
        if circ.width != n:
            raise Fail(f"after deriving {case['derive']} and editing the derived circuits ({case['edit']}), the original circuit's "
                       f"width is {circ.width}, expected {n}", sig="derived:original-width-changed")
        be = get_backend("cirq")
        freqs, sv = be.simulate(circ, return_statevector=True)
        sv = np.asarray(sv).reshape(-1)
        if sv.shape != ref.shape or np.max(np.abs(sv - ref)) > 1e-8:
            raise Fail(f"after deriving {case['derive']} and editing the derived circuits ({case['edit']}), simulating the original "
                       f"circuit no longer gives its state", sig="derived:original-state-changed")
        check_freqs_exact(freqs, R.probs(ref), n, "derived:cirq")
        return nontrivial(case, ref), set(case["derive"]) | {case["edit"]}

    ctx.search("after_derivation", cases(), body)
