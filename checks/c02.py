"""C02 - expectation values equal <psi|H|psi> on every evaluation path (native cirq, generic statevector route of a
user-defined backend, exact frequency route, post-selection, sympy, finite shots; variance and standard error)."""
import numpy as np
from hypothesis import strategies as st

from vlib.runner import part, Fail, Skip
from vlib import refsim as R, strategies as S, h_c02 as H

PROPERTY = "C02"
RULE = ("Hypothesis-generated (operator, circuit, initial state) triples: qubit operators with 1-8 distinct Pauli words over "
        "the circuit's qubits (identity word, words with gaps, X/Y/Z mixed; coefficients float / int / np.float64 / complex / "
        "np.complex128 / mixed, zeros included), state-preparation circuits from the C01 gate generator (multi-controls, idle "
        "qubits, empty circuit), optionally with 1-3 MEASURE gates and a desired outcome string of non-zero probability, "
        "optional user initial statevector. Every case is evaluated through each applicable route and compared with "
        "sum_k c_k <psi|P_k|psi> computed by an independent dense simulator (post-selected branch state, or the "
        "probability-weighted mixture without post-selection). Non-trivial = >=2 non-identity words with non-zero "
        "coefficient AND >=1 X or Y factor AND the (branch) state has >=2 amplitudes >1e-6 "
        "(lattice part: single-word operators with N in {1,2,3,5,10} shots, non-trivial = the exact mean of the word is not a lattice point (N-2k)/N). "
        "Distinct = distinct canonical JSON of the case.")
ASSUMPTIONS = ["numpy linear algebra", "reference gate table and Pauli application in vlib/refsim.py (self-tested)",
               "measurement branches by projection + renormalisation in vlib/h_c02.py (self-tested)",
               "variance oracle = the documented no-correlation propagation formula sum |c_k|^2 (1-<P_k>^2)",
               "finite-shot claims are tested with Bernstein bands at false-alarm probability 1e-11 per comparison, numpy seed pinned",
               "only cirq and sympy backends are installed; the generic routes are reached through a user-defined Backend subclass "
               "delegating simulation to cirq", "sympy receives the initial state as an msq_first column array (its documented format)",
               "finite shots + desired_meas_result: the number of post-selected samples may be anything between the 1e-11 quantile of "
               "Binomial(N, p_branch) and N (filtering N shots or drawing N successes both sample the same distribution); the standard "
               "error oracle is the documented sqrt(variance / n_shots)",
               "operators acting beyond the circuit width must be refused with the ValueError of the backend's own width check"]
SHARDS = {"quick": 4, "thorough": 16}

CTYPES = ["float", "complex", "int", "np.float64", "np.complex128", "np.complex64", "mixed", "mixed64", "float"]


def selftest():
    R.selftest()
    H.selftest()


# ------------------------------------------------------------------------------------------------ case data -> objects

def coef_of(ctype, i, re, im):
    if ctype == "float":
        return float(re)
    if ctype == "int":
        return int(round(3 * re))
    if ctype == "np.float64":
        return np.float64(re)
    if ctype == "complex":
        return complex(re, im)
    if ctype == "np.complex128":
        return np.complex128(complex(re, im))
    if ctype == "np.complex64":
        return np.complex64(complex(re, im))        # single-precision complex (e.g. read from a complex64 matrix); not a subclass of complex
    if ctype == "mixed":
        return float(re) if i % 2 == 0 else complex(re, im)
    if ctype == "mixed64":
        return float(re) if i % 2 == 1 else np.complex64(complex(re, im))
    raise KeyError(ctype)


def op_coefs(op):
    """{term tuple: coefficient object} exactly as handed to Tangelo."""
    return {tuple((int(q), p) for q, p in t): coef_of(op["ctype"], i, re, im) for i, (t, re, im) in enumerate(op["terms"])}


def build_op(coefs):
    from tangelo.toolboxes.operators import QubitOperator
    q = QubitOperator()
    for t, c in coefs.items():
        q.terms[t] = c          # the term dictionary is the operator's public data; keeps the coefficient type as is
    return q


def ref_terms(coefs):
    return {t: complex(c) for t, c in coefs.items()}


def is_complex_op(coefs):
    return any(np.iscomplexobj(c) for c in coefs.values())


def single_precision(coefs):
    return any(isinstance(c, (np.complex64, np.float32)) for c in coefs.values())


def tol_of(terms, coefs=None):
    """1e-8 on unit scale; single-precision coefficients legitimately make Tangelo's arithmetic single precision (eps 6e-8)."""
    base = 2e-6 if (coefs is not None and single_precision(coefs)) else 1e-8
    return base * max(1.0, sum(abs(c) for c in terms.values()))


def op_labels(op, coefs, n):
    out = {"ctype=" + op["ctype"]}
    for t, c in coefs.items():
        if not t:
            out.add("identity-term")
            continue
        ls = {p for _, p in t}
        if "X" in ls:
            out.add("X-rotation")
        if "Y" in ls:
            out.add("Y-rotation")
        qs = [q for q, _ in t]
        if qs != list(range(len(qs))):
            out.add("word-with-gap-or-offset")
        if max(qs) < n - 1:
            out.add("word-below-top-qubit")
        if len(ls) > 1:
            out.add("mixed-letters-word")
        if c == 0:
            out.add("zero-coefficient")
        if np.iscomplexobj(c) and complex(c).imag != 0:
            out.add("complex-coefficient")
    return out


def nontrivial(coefs, psi):
    words = [t for t, c in coefs.items() if t and c != 0]
    xy = any(p in "XY" for t in words for _, p in t)
    return len(words) >= 2 and xy and int(np.sum(np.abs(psi) > 1e-6)) >= 2


def to_complex(x):
    """Number returned by Tangelo (python/numpy/sympy scalar, or a one-element array of those) -> complex."""
    a = np.asarray(x)
    if a.size != 1:
        raise TypeError("not a scalar")
    return complex(a.reshape(-1)[0])


def near(got, want, tol, sig, what, **details):
    try:
        g = to_complex(got)
    except TypeError:
        raise Fail(f"{what}: returned {got!r} (not a number)", sig=sig + ":type")
    if not (abs(g - want) <= tol):
        raise Fail(f"{what}: got {g}, reference {want} (tol {tol:.2g})", sig=sig, got=str(g), want=str(want), **details)


@st.composite
def operators(draw, n, max_terms=8):
    mt = 1 if draw(st.integers(0, 5)) == 3 else 3
    word = st.one_of(S.pauli_terms(n, min_weight=1), S.pauli_terms(n, min_weight=1), S.pauli_terms(n))
    terms = draw(st.lists(word, min_size=mt, max_size=max(mt, max_terms), unique_by=lambda t: tuple(map(tuple, t))))
    fl = st.floats(-3, 3, allow_nan=False)
    coef = st.one_of(fl, fl, fl, st.sampled_from([1.0, -1.0, 0.5, 2.0, 0.0]))
    return {"ctype": draw(st.sampled_from(CTYPES)),
            "terms": [[t, draw(coef), draw(st.floats(-3, 3, allow_nan=False))] for t in terms]}


@st.composite
def spread(draw, c, names=None):
    """Prepend one-qubit rotations on a random subset of qubits so that most states are superpositions
    (random gates applied to |0...0> alone leave a basis state far too often)."""
    n = S.circuit_width(c)
    pre = []
    for q in range(n):
        k = draw(st.integers(0, 3))
        if k == 1:
            pre.append({"n": "H", "t": [q], "c": None, "p": None})
        elif k >= 2:
            pre.append({"n": "RY" if k == 2 else "RX", "t": [q], "c": None, "p": draw(S.angles(big=False))})
    c["gates"] = pre + c["gates"]


@st.composite
def pure_cases(draw, max_width, max_gates, names=None, max_terms=8, min_width=1, **kw):
    c = draw(S.circuits(max_width=max_width, max_gates=max_gates, names=names, min_width=min_width, min_gates=2, **kw))
    draw(spread(c))
    if draw(st.integers(0, 11)) == 7:
        c["gates"] = []          # identity state preparation (frequency route reached publicly)
    n = S.circuit_width(c)
    if n == 0:
        c["nq"] = n = 1
    c["init"] = draw(S.statevectors(n)) if draw(st.booleans()) else None
    c["op"] = draw(operators(n, max_terms))
    return c


@st.composite
def measured_cases(draw, max_width, max_gates, max_meas=3, max_terms=8):
    c = draw(S.circuits(max_width=max_width, max_gates=max_gates, min_gates=2))
    draw(spread(c))
    n = S.circuit_width(c)
    for _ in range(draw(st.integers(1, max_meas))):
        pos = draw(st.integers(0, len(c["gates"])))
        if draw(st.booleans()):
            pos = len(c["gates"]) - pos      # small integers are over-represented: aim at both ends of the circuit
        c["gates"].insert(pos, {"n": "MEASURE", "t": [draw(st.integers(0, n - 1))], "c": None, "p": None})
    c["init"] = draw(S.statevectors(n)) if draw(st.integers(0, 2)) == 0 else None
    c["op"] = draw(operators(n, max_terms))
    c["pick"] = draw(st.integers(0, 7))
    return c


def pick_branch(case, n, init, pmin):
    brs = H.branches(case["gates"], n, init)
    ok = sorted((b for b in brs if b[1] >= pmin), key=lambda b: b[0])
    if not ok:
        raise Skip("no outcome string with enough probability")
    return brs, ok[case["pick"] % len(ok)]


def circ_labels(case, n):
    out = set()
    if not case["gates"]:
        out.add("empty-circuit")
    if case.get("init") is not None:
        out.add("init-" + case["init"]["kind"])
    used = {q for g in case["gates"] for q in g["t"] + (g["c"] or [])}
    if len(used) < n:
        out.add("idle-qubit")
    if any(g["c"] and len(g["c"]) > 1 for g in case["gates"]):
        out.add("multi-control")
    return out


# ------------------------------------------------------------------------------------------------ exact routes, pure states

@part("exact", quick=320, thorough=9600)
def exact(ctx):
    from tangelo.linq import get_backend
    mw, mg = (5, 12) if ctx.tier == "quick" else (6, 24)

    def body(case):
        n = S.circuit_width(case)
        circ = S.build_circuit(case)
        init = S.build_statevector(case["init"], n)
        coefs = op_coefs(case["op"])
        terms = ref_terms(coefs)
        psi = R.run(case["gates"], n, init)
        e = H.term_expectations(terms, psi, n)
        want = H.expectation(terms, e)
        tol = tol_of(terms, coefs)
        iv = lambda: None if init is None else init.copy()

        # (a) cirq, n_shots=None: native expectation through operator translation (frequency route if the circuit is empty)
        be = get_backend("cirq")
        near(be.get_expectation_value(build_op(coefs), circ, initial_statevector=iv()), want, tol, "cirq:exact-expectation",
             "cirq get_expectation_value")
        # (b) user-defined backend without native shortcut: Pauli-circuit overlap route
        gb = H.make_generic_backend()
        near(gb.get_expectation_value(build_op(coefs), circ, initial_statevector=iv()), want, tol, "generic:statevector-route",
             "user-defined backend get_expectation_value")
        # (c) exact frequency route (basis rotation + parity of masked bit strings) on the Hermitian part
        re_coefs = {t: float(c.real) for t, c in terms.items()}
        near(be._get_expectation_value_from_frequencies(build_op(re_coefs), circ, initial_statevector=iv()),
             H.expectation(re_coefs, e), tol, "cirq:frequency-route", "exact frequency route")
        # variance (documented propagation formula) and standard error without shots
        var = H.variance_formula(terms, e)
        near(be.get_variance(build_op(coefs), circ, initial_statevector=iv()), var, tol * max(1.0, max(abs(c) for c in terms.values())),
             "cirq:exact-variance", "cirq get_variance")
        se = be.get_standard_error(build_op(coefs), circ, initial_statevector=iv())
        if se != 0:
            raise Fail(f"get_standard_error without shots returned {se!r}, expected 0", sig="cirq:exact-standard-error")
        return nontrivial(coefs, psi), op_labels(case["op"], coefs, n) | circ_labels(case, n)

    ctx.search("exact", pure_cases(mw, mg), body)


# ------------------------------------------------------------------------------------------------ post-selection, exact

@part("postselect", quick=200, thorough=6000)
def postselect(ctx):
    from tangelo.linq import get_backend
    mw, mg = (4, 10) if ctx.tier == "quick" else (5, 16)

    def body(case):
        n = S.circuit_width(case)
        init = S.build_statevector(case["init"], n)
        brs, (bits, p, psi) = pick_branch(case, n, init, 1e-6)
        circ = S.build_circuit(case)
        coefs = op_coefs(case["op"])
        terms = ref_terms(coefs)
        e = H.term_expectations(terms, psi, n)
        want = H.expectation(terms, e)
        tol = tol_of(terms, coefs)
        iv = lambda: None if init is None else init.copy()

        be = get_backend("cirq")
        near(be.get_expectation_value(build_op(coefs), circ, initial_statevector=iv(), desired_meas_result=bits), want, tol,
             "cirq:postselect-expectation", f"cirq get_expectation_value(desired_meas_result={bits!r})")
        gb = H.make_generic_backend()
        near(gb.get_expectation_value(build_op(coefs), S.build_circuit(case), initial_statevector=iv(), desired_meas_result=bits), want, tol,
             "generic:postselect-expectation", f"user-defined backend get_expectation_value(desired_meas_result={bits!r})")
        re_coefs = {t: float(c.real) for t, c in terms.items()}
        near(be._get_expectation_value_from_frequencies(build_op(re_coefs), S.build_circuit(case), initial_statevector=iv(),
                                                        desired_meas_result=bits),
             H.expectation(re_coefs, e), tol, "cirq:postselect-frequency-route", f"exact frequency route, desired_meas_result={bits!r}")
        var = H.variance_formula(terms, e)
        vtol = tol * max(1.0, max(abs(c) for c in terms.values()))
        try:
            got = be.get_variance(build_op(coefs), S.build_circuit(case), initial_statevector=iv(), desired_meas_result=bits)
        except ValueError as ex:
            raise Fail(f"get_variance(desired_meas_result={bits!r}) on a circuit with MEASURE gates raised ValueError: {ex}",
                       sig="get_variance:desired_meas_result-not-forwarded")
        near(got, var, vtol, "get_variance:postselect-value", f"get_variance(desired_meas_result={bits!r})")
        se = be.get_standard_error(build_op(coefs), S.build_circuit(case), initial_statevector=iv(), desired_meas_result=bits)
        if se != 0:
            raise Fail(f"get_standard_error without shots returned {se!r}, expected 0", sig="cirq:postselect-standard-error")
        labs = op_labels(case["op"], coefs, n) | circ_labels(case, n) | {f"n_meas={len(bits)}", "branches=%d" % len(brs)}
        if p < 0.999999:
            labs.add("proper-postselection")
        nt = nontrivial(coefs, psi) and len(brs) >= 2
        return nt, labs

    ctx.search("postselect", measured_cases(mw, mg), body)


# ------------------------------------------------------------------------------------------------ sympy

SYMPY_NAMES = [g for g in S.ALL_GATES if g not in S.SYMPY_UNSUPPORTED]
# get_variance on the sympy backend (exact mode) needs the backend to take back its own symbolic statevector
# (proposed fix C02-sympy-variance-symbolic-statevector.diff). Set to False to leave that clause out.
SYMPY_VARIANCE = True


@part("sympy", quick=28, thorough=800)
def sympy_part(ctx):
    from tangelo.linq import get_backend
    mg = 4 if ctx.tier == "quick" else 6
    ang = st.one_of(st.floats(-7, 7, allow_nan=False), st.integers(-8, 8).map(lambda k: k * np.pi / 4))

    def body(case):
        n = S.circuit_width(case)
        circ = S.build_circuit(case)
        init = S.build_statevector(case["init"], n)
        coefs = op_coefs(case["op"])
        terms = ref_terms(coefs)
        psi = R.run(case["gates"], n, init)
        e = H.term_expectations(terms, psi, n)
        want = H.expectation(terms, e)
        be = get_backend("sympy")
        iv = None
        if init is not None:
            v = init if be.backend_info()["statevector_order"] == "lsq_first" else R.reverse_order(init)
            iv = np.asarray(v).reshape(-1, 1)
        got = be.get_expectation_value(build_op(coefs), circ, initial_statevector=iv)
        near(got, want, max(1e-6, 100 * tol_of(terms, coefs)), "sympy:expectation", "sympy get_expectation_value")
        if case.get("var"):
            iv2 = None if iv is None else iv.copy()
            vg = be.get_variance(build_op(coefs), S.build_circuit(case), initial_statevector=iv2)
            near(vg, H.variance_formula(terms, e), max(1e-6, 100 * tol_of(terms, coefs)) * max(1.0, max(abs(c) for c in terms.values())),
                 "sympy:variance", "sympy get_variance")
        return nontrivial(coefs, psi), op_labels(case["op"], coefs, n) | circ_labels(case, n)

    @st.composite
    def cases(draw):
        c = draw(pure_cases(3, mg, names=SYMPY_NAMES, max_terms=3, max_controls=2, angle=ang))
        c["var"] = SYMPY_VARIANCE and draw(st.sampled_from([True, False, True]))
        return c

    ctx.search("sympy", cases(), body, shrink_calls=60)


# ------------------------------------------------------------------------------------------------ finite shots

def sampled_search(ctx, name, flavours):
    from tangelo.linq import get_backend
    mw, mg = (4, 10) if ctx.tier == "quick" else (5, 16)

    @st.composite
    def cases(draw):
        flavour = draw(st.sampled_from(flavours))
        if flavour == "pure":
            c = draw(pure_cases(mw, mg, max_terms=5))
        elif flavour == "mixed":
            c = draw(measured_cases(mw, mg, max_terms=5))
        else:
            # cirq simulates these shot by shot: small circuits, few words; <=2 MEASURE gates so that an outcome string
            # of probability >= 1/4 always exists (enough surviving shots for a meaningful band)
            c = draw(measured_cases(3, 6, max_meas=2, max_terms=3))
        c["flavour"] = flavour
        c["shots"] = draw(st.sampled_from([1000, 20000, 10, 1] if flavour == "pure" else [300, 2000, 10, 1] if flavour == "mixed" else [1000] if ctx.tier == "quick" else [1000, 4000]))
        return c

    def body(case):
        n = S.circuit_width(case)
        N = Neff = case["shots"]
        init = S.build_statevector(case["init"], n)
        coefs = op_coefs(case["op"])
        terms = ref_terms(coefs)
        kw = {}
        if case["flavour"] == "pure":
            psi = R.run(case["gates"], n, init)
            e = H.term_expectations(terms, psi, n)
        elif case["flavour"] == "mixed":
            brs = H.branches(case["gates"], n, init)
            e = H.mixed_term_expectations(terms, brs, n)
            psi = brs[0][2]
        else:
            brs, (bits, p, psi) = pick_branch(case, n, init, 0.2499)
            e = H.term_expectations(terms, psi, n)
            kw = {"desired_meas_result": bits}
            # Post-selection may be done by filtering the N shots (M ~ Binomial(N, p) of them survive) or by drawing N
            # post-selected samples; both sample the same distribution. The bands below use the smallest plausible
            # number of surviving shots (P(M < Neff) <= 1e-11), and bands shrink monotonically with the sample size.
            from scipy.stats import binom
            Neff = int(min(N, binom.ppf(1e-11, N, min(p, 1.0))))
            if Neff < 1:
                raise Skip("post-selected sample could be empty")
        want = H.expectation(terms, e)
        iv = lambda: None if init is None else init.copy()
        rnd = 0.1 * tol_of(terms, coefs)
        what = f"n_shots={N}, {case['flavour']}"

        be = get_backend("cirq", n_shots=N)
        ctx.np_seed(case)
        got = to_complex(be.get_expectation_value(build_op(coefs), S.build_circuit(case), initial_statevector=iv(), **kw))
        for nm, g, w, cf in (("real", got.real, want.real, {t: c.real for t, c in terms.items()}),
                             ("imag", got.imag, want.imag, {t: c.imag for t, c in terms.items()})):
            band = H.estimate_band(cf, e, Neff) + rnd
            if not abs(g - w) <= band:
                raise Fail(f"{what}: {nm} part of the estimate is {g}, exact value {w}, rigorous band {band:.3g} (p<1e-11)",
                           sig=f"sampled:{case['flavour']}:estimate")
        words = [t for t, c in terms.items() if t and c != 0]
        if len(words) == 1 and len([t for t in terms if t]) == 1 and not is_complex_op(coefs) and Neff == N:
            # single Pauli word: the estimate is c*(1-2j/N) (+ constant) for an integer number j of -1 outcomes
            c1 = terms[words[0]].real
            j = (1 - (got.real - terms.get((), 0).real) / c1) * N / 2
            if abs(j - round(j)) > (1e-4 if single_precision(coefs) else 1e-6) * N or not (-1e-6 <= j <= N + 1e-6):
                raise Fail(f"{what}: one-word estimate {got.real} is not c*(1-2j/N) for an integer j (j={j})", sig="sampled:granularity")

        w2 = {t: abs(c) ** 2 for t, c in terms.items()}
        lo, hi = H.variance_interval(w2, e, Neff, len(terms))
        slack = (2e-6 if single_precision(coefs) else 1e-9) * max(1.0, sum(w2.values()))
        ctx.np_seed({"v": case})
        var = be.get_variance(build_op(coefs), S.build_circuit(case), initial_statevector=iv(), **kw)
        var = to_complex(var)
        if abs(var.imag) > slack or not (lo - slack <= var.real <= hi + slack):
            raise Fail(f"{what}: reported variance {var} outside [{lo:.6g}, {hi:.6g}] (interval for sum |c_k|^2 (1-m_k^2), p<1e-10)",
                       sig=f"sampled:{case['flavour']}:variance")
        if case["flavour"] == "postselect":
            # get_standard_error only forwards to get_variance; not sampled a third time for these shot-by-shot simulations
            return nontrivial(coefs, psi), op_labels(case["op"], coefs, n) | circ_labels(case, n) | {f"shots={N}", "flavour=postselect"}
        ctx.np_seed({"s": case})
        se = to_complex(be.get_standard_error(build_op(coefs), S.build_circuit(case), initial_statevector=iv(), **kw))
        if abs(se.imag) > slack or not (np.sqrt(max(lo - slack, 0) / N) - slack <= se.real <= np.sqrt((hi + slack) / N) + slack):
            raise Fail(f"{what}: reported standard error {se} outside [sqrt({lo:.6g}/N), sqrt({hi:.6g}/N)]",
                       sig=f"sampled:{case['flavour']}:standard-error")
        labs = op_labels(case["op"], coefs, n) | circ_labels(case, n) | {f"shots={N}", "flavour=" + case["flavour"]}
        return nontrivial(coefs, psi), labs

    # failing cases of the shot-by-shot flavour cost seconds each: bound the shrinker
    ctx.search(name, cases(), body, shrink_calls=40 if "postselect" in flavours else 200)


@part("sampled", quick=100, thorough=3200)
def sampled(ctx):
    sampled_search(ctx, "sampled", ["pure", "mixed", "pure"])


@part("sampled_postselect", quick=12, thorough=400)
def sampled_postselect(ctx):
    sampled_search(ctx, "sampled_postselect", ["postselect"])


# ------------------------------------------------------------------------------------------------ sampling lattice (single Pauli word)

def lattice_points(N):
    """Possible means of N draws of +-1: (N - 2k)/N, k = 0..N."""
    return [(N - 2 * k) / N for k in range(N + 1)]


def on_lattice(x, N, tol=1e-9):
    return any(abs(x - m) <= tol for m in lattice_points(N))


@part("lattice", quick=280, thorough=8000)
def lattice(ctx):
    """Exact facts of sampling beyond the mean. For ONE Pauli word P with coefficient c (plus, optionally, a constant) and N shots,
    the estimate is c*m (+constant) with m = (N-2k)/N for an integer k - never the exact expectation value unless that is a lattice
    point; the documented variance formula evaluated on sampled frequencies is |c|^2 (1-m'^2) with m' on the same lattice, and the
    standard error is sqrt of that over n_shots. Real and imaginary parts of a complex coefficient are sampled separately.
    With post-selection the lattice is that of the M surviving shots, M read from the backend's mid-circuit frequencies."""
    from tangelo.linq import get_backend
    nz = st.one_of(st.floats(0.2, 3, allow_nan=False), st.floats(-3, -0.2, allow_nan=False), st.sampled_from([1.0, -1.0, 0.5]))

    @st.composite
    def cases(draw):
        flavour = draw(st.sampled_from(["pure", "mixed", "pure", "postselect", "pure"]))
        c = draw(pure_cases(4, 8, max_terms=1)) if flavour == "pure" else draw(measured_cases(3, 6, max_meas=2, max_terms=1))
        n = S.circuit_width(c)
        kind = draw(st.sampled_from(["Z-only", "any", "Z-only", "any"]))
        word = draw(S.pauli_terms(n, min_weight=1))
        if kind == "Z-only":
            word = [[q, "Z"] for q, _ in word]
        terms = [[word, draw(nz), draw(nz)]]
        if draw(st.integers(0, 3)) == 2:
            terms.insert(draw(st.integers(0, 1)), [[], draw(nz), draw(nz)])
        c["op"] = {"ctype": draw(st.sampled_from(["float", "np.float64", "int", "float"] + ([] if flavour == "postselect" else ["complex"]))),
                   "terms": terms}
        c["flavour"] = flavour
        c["shots"] = draw(st.sampled_from([1, 2, 3, 5, 10]))
        c["repeats"] = 2
        return c

    def body(case):
        n = S.circuit_width(case)
        N = case["shots"]
        init = S.build_statevector(case["init"], n)
        coefs = op_coefs(case["op"])
        terms = ref_terms(coefs)
        word = [t for t in terms if t][0]
        c, const = terms[word], terms.get((), 0j)
        kw, fl = {}, case["flavour"]
        if fl == "pure":
            psi = R.run(case["gates"], n, init)
            e = H.term_expectations(terms, psi, n)[word]
        elif fl == "mixed":
            brs = H.branches(case["gates"], n, init)
            e, psi = H.mixed_term_expectations(terms, brs, n)[word], brs[0][2]
        else:
            brs, (bits, p, psi) = pick_branch(case, n, init, 0.2499)
            e = H.term_expectations(terms, psi, n)[word]
            kw = {"desired_meas_result": bits}
        iv = lambda: None if init is None else init.copy()
        labs = {"flavour=" + fl, f"shots={N}", "Z-only-word" if all(p_ == "Z" for _, p_ in word) else "XY-word",
                "ctype=" + case["op"]["ctype"]} | circ_labels(case, n)
        if len(word) < n:
            labs.add("word-with-idle-qubits")
        if () in terms:
            labs.add("constant-term")
        if 1e-6 < abs(e) < 1 - 1e-6:
            labs.add("non-lattice-mean" if not on_lattice(e, N, 1e-6) else "mean-on-lattice")
        parts = [("real", c.real, const.real)] + ([("imag", c.imag, const.imag)] if is_complex_op(coefs) else [])

        def shots_used(be):
            """Number of samples behind the last single-word evaluation."""
            if fl != "postselect":
                return N
            M = be.mid_circuit_meas_freqs.get(bits, 0.0) * N
            if abs(M - round(M)) > 1e-6 or round(M) < 1:
                raise Fail(f"mid-circuit frequency of {bits!r} is {be.mid_circuit_meas_freqs.get(bits)} with N={N}", sig="lattice:postselect:mid-circuit-frequency")
            return int(round(M))

        def call(fn):
            try:
                return fn(build_op(coefs), S.build_circuit(case), initial_statevector=iv(), **kw)
            except TypeError as ex:
                if fl == "postselect" and "'ValueError'" in str(ex):
                    raise Skip("no shot survived post-selection")     # Tangelo has no estimate then (it fails on an empty histogram)
                raise

        for r in range(case["repeats"]):
            be = get_backend("cirq", n_shots=N)
            what = f"n_shots={N}, {fl}, single word {word} with coefficient {coefs[word]!r}"
            ctx.np_seed({"r": r, "e": case})
            got = to_complex(call(be.get_expectation_value))
            M = shots_used(be)
            for nm, cp, k0 in parts:
                x = ((got.real if nm == "real" else got.imag) - k0) / cp
                if not on_lattice(x, M):
                    raise Fail(f"{what}: {nm} part of the estimate is c*{x!r} (+constant); with {M} samples of a +-1 observable it has to be "
                               f"c*(M-2k)/M for an integer k (exact expectation value of the word: {e})", sig=f"lattice:{fl}:estimate")
            if not is_complex_op(coefs) and abs(got.imag) > 1e-9:
                raise Fail(f"{what}: real operator, estimate {got}", sig=f"lattice:{fl}:estimate")
            # variance: documented formula on the sampled frequencies of a fresh sample
            ctx.np_seed({"r": r, "v": case})
            var = to_complex(call(be.get_variance))
            # (get_variance also runs the circuit for a constant term, so with post-selection the mid-circuit record may belong to
            # that run: the number of surviving shots behind the word is then only known to lie in 1..N)
            Ms = list(range(1, N + 1)) if (fl == "postselect" and () in terms) else [shots_used(be)]
            M = Ms if len(Ms) > 1 else Ms[0]
            cands = [sum(cp * cp * (1 - m * m) for (_, cp, _), m in zip(parts, ms))
                     for M_ in Ms for ms in __import__("itertools").product(lattice_points(M_), repeat=len(parts))]
            vtol = 1e-9 * max(1.0, abs(c) ** 2)
            if abs(var.imag) > vtol or not any(abs(var.real - v) <= vtol for v in cands):
                raise Fail(f"{what}: reported variance {var} is not |c|^2 (1 - m^2) for any sample mean m = (M-2k)/M, M={M} "
                           f"(value for the exact distribution: {abs(c) ** 2 * (1 - e * e)})", sig=f"lattice:{fl}:variance")
            if fl != "postselect":
                ctx.np_seed({"r": r, "s": case})
                se = to_complex(be.get_standard_error(build_op(coefs), S.build_circuit(case), initial_statevector=iv(), **kw))
                if abs(se.imag) > vtol or not any(abs(se.real ** 2 * N - v) <= vtol for v in cands):
                    raise Fail(f"{what}: reported standard error {se} is not sqrt(|c|^2 (1 - m^2) / n_shots) for any sample mean m",
                               sig=f"lattice:{fl}:standard-error")
        return (1e-6 < abs(e) < 1 - 1e-6) and not on_lattice(e, N, 1e-6), labs

    ctx.search("lattice", cases(), body, shrink_calls=150)


# ------------------------------------------------------------------------------------------------ histories on one backend / one operator

@part("history", quick=160, thorough=4800)
def history(ctx):
    """ONE backend object of each kind and ONE QubitOperator object: evaluate, modify the operator in place (set / delete / add a
    term, rescale) and possibly switch the circuit or the initial state, evaluate again. Every evaluation must equal the reference
    value of the operator and state as they are at that moment (no state may leak between calls)."""
    from tangelo.linq import get_backend
    from tangelo.toolboxes.operators import QubitOperator
    mw, mg = (4, 8) if ctx.tier == "quick" else (5, 14)

    @st.composite
    def cases(draw):
        c = draw(pure_cases(mw, mg, max_terms=5))
        n = S.circuit_width(c)
        c["op"]["ctype"] = draw(st.sampled_from(["float", "float", "np.float64", "int", "complex", "float"]))
        c["alt_gates"] = draw(st.lists(S.gate_recs(n), min_size=1, max_size=6))
        fl = st.floats(-3, 3, allow_nan=False)
        steps = []
        for _ in range(draw(st.integers(1, 3))):
            mods = []
            for _ in range(draw(st.integers(1, 3))):
                kind = draw(st.sampled_from(["set", "iadd", "scale", "del", "isub"]))
                if kind in ("set", "iadd", "isub"):
                    mods.append([kind, draw(S.pauli_terms(n, min_weight=1)), draw(st.one_of(fl, st.sampled_from([1.0, -2.0, 0.5])))])
                elif kind == "scale":
                    mods.append([kind, draw(st.sampled_from([2.0, -1.0, 0.5, 3.0, -0.25]))])
                else:
                    mods.append([kind, draw(st.integers(0, 7))])
            steps.append({"mods": mods, "alt": draw(st.sampled_from([False, False, True])), "what": draw(st.sampled_from(["exp", "exp", "var"]))})
        c["steps"] = steps
        return c

    def body(case):
        n = S.circuit_width(case)
        init = S.build_statevector(case["init"], n)
        model = op_coefs(case["op"])                       # my own record of the operator: {term: coefficient}
        op = build_op(model)                               # the ONE operator object handed to Tangelo at every step
        be, gb = get_backend("cirq"), H.make_generic_backend()
        psis = {False: R.run(case["gates"], n, init), True: R.run(case["alt_gates"], n, init)}
        labs, changed = set(), False
        last = None
        for k, step in enumerate([{"mods": [], "alt": False, "what": "exp"}] + case["steps"]):
            for m in step["mods"]:
                if m[0] == "set":
                    t = tuple((int(q), p) for q, p in m[1])
                    op.terms[t] = model[t] = float(m[2])
                elif m[0] in ("iadd", "isub"):
                    t = tuple((int(q), p) for q, p in m[1])
                    if m[0] == "iadd":
                        op += QubitOperator(t, float(m[2]))
                    else:
                        op -= QubitOperator(t, float(m[2]))
                    model[t] = model.get(t, 0.0) + (float(m[2]) if m[0] == "iadd" else -float(m[2]))
                elif m[0] == "scale":
                    op *= m[1]
                    model = {t: c * m[1] for t, c in model.items()}
                elif m[0] == "del" and len(model) > 1:
                    t = sorted(model)[m[1] % len(model)]
                    del model[t]
                    op.terms.pop(t, None)       # (a term cancelled by += is already removed by openfermion)
                labs.add("mod=" + m[0])
            terms = ref_terms(model)
            psi = psis[step["alt"]]
            circ = S.build_circuit({"gates": case["alt_gates"] if step["alt"] else case["gates"], "nq": n})
            e = H.term_expectations(terms, psi, n)
            want = H.expectation(terms, e)
            tol = tol_of(terms, model) * 4
            iv = lambda: None if init is None else init.copy()
            what = f"step {k} (same backend object, operator modified in place {k} times)"
            if step["what"] == "exp":
                near(be.get_expectation_value(op, circ, initial_statevector=iv()), want, tol, "history:cirq-expectation", what + ": cirq get_expectation_value")
                near(gb.get_expectation_value(op, circ, initial_statevector=iv()), want, tol, "history:generic-expectation",
                     what + ": user-defined backend get_expectation_value")
            else:
                near(be.get_variance(op, circ, initial_statevector=iv()), H.variance_formula(terms, e),
                     tol * max(1.0, max([abs(c) for c in terms.values()] + [0.0])), "history:cirq-variance", what + ": cirq get_variance")
            if set(op.terms) - set(model) or any(abs(complex(model[t]) - complex(op.terms.get(t, 0.0))) > 1e-7 for t in model):
                raise Fail(f"{what}: evaluation changed the operator object (or the in-place update is not what the harness assumes): "
                           f"{dict(op.terms)} vs {model}", sig="history:operator-modified")
            if last is not None and abs(complex(want) - last) > 1e-6:
                changed = True
            last = complex(want)
            if step["alt"]:
                labs.add("circuit-switched")
            labs.add("eval=" + step["what"])
        return changed and int(np.sum(np.abs(psis[False]) > 1e-6)) >= 2, labs | {f"steps={len(case['steps'])}"}

    ctx.search("history", cases(), body)


# ------------------------------------------------------------------------------------------------ operators wider than the circuit

@part("too_wide", quick=40, thorough=400)
def too_wide(ctx):
    from tangelo.linq import get_backend

    @st.composite
    def cases(draw):
        c = draw(S.circuits(max_width=3, max_gates=4, min_gates=1, allow_fixed=False))
        n = S.circuit_width(c)
        op = draw(operators(n, 3))
        # one more word with at most n factors (so that its *length* fits) reaching beyond the last qubit, or a longer one
        k = draw(st.integers(1, n + 1))
        qs = sorted(draw(st.lists(st.integers(0, n + 2), min_size=k, max_size=k, unique=True)))
        if qs[-1] < n:
            qs[-1] = n + draw(st.integers(0, 2))
        qs = sorted(set(qs))
        word = [[q, draw(st.sampled_from("ZXY"))] for q in qs]
        coef = draw(st.sampled_from([1.0, -0.5, 2.0]))
        op["terms"].insert(draw(st.integers(0, len(op["terms"]))), [word, coef, coef])
        c["op"] = op
        c["route"] = draw(st.sampled_from(["cirq", "generic", "cirq-shots", "variance"]))
        return c

    def body(case):
        n = S.circuit_width(case)
        coefs = op_coefs(case["op"])
        if not any(q >= n and c != 0 for t, c in coefs.items() for q, _ in t):
            raise Skip("operator fits the circuit")
        circ = S.build_circuit(case)
        r = case["route"]
        be = H.make_generic_backend() if r == "generic" else get_backend("cirq", n_shots=100 if r == "cirq-shots" else None)
        ctx.np_seed(case)
        fn = be.get_variance if r == "variance" else be.get_expectation_value
        try:
            got = fn(build_op(coefs), circ)
        except ValueError:
            return True, ("refused:" + r,)
        except IndexError as ex:
            raise Fail(f"{r}: operator acting on qubit >= circuit width {n} crashed with IndexError ({ex}) instead of the "
                       f"ValueError the width check is meant to raise", sig="too-wide-operator:IndexError")
        raise Fail(f"{r}: operator acting beyond the circuit width {n} was given the value {got!r}", sig="too-wide-operator:value")

    ctx.search("too_wide", cases(), body)
