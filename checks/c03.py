"""C03 - fermion-to-qubit encodings (JW, BK, JKMN, scBK, HCB, combinatorial) are faithful representations."""
import math
import warnings
import numpy as np
from hypothesis import strategies as st

from vlib.runner import part, Fail, Skip
from vlib import refsim as R, refops as F, h_c03 as H

PROPERTY = "C03"
RULE = ("Full-space encodings JW/BK/JKMN through fermion_to_qubit_mapping, both orderings: exhaustive sweep over all ordered pairs "
        "(p,q) of modes for n=1..6 (dense matrices; 1..8 thorough) of {a_p,a_q^}=delta, {a_p,a_q}=0, enc(a_p^)=enc(a_p)^ and "
        "enc(xy)=enc(x)enc(y) for all four pairs of single ladder operators on (p,q); the same CAR/adjoint sweep in Pauli algebra "
        "for n=7..10 (..14 thorough); Hypothesis-generated operators x,y (<=5 terms, <=4 ladder factors, complex coefficients on a "
        "1/32 grid, optionally not touching the top index, optionally constant-only): products, linearity, adjoints, spectrum of "
        "enc(x+x^) vs the Fock-space matrix written from the definition, JW matrix equal to that matrix. scBK: generated operators "
        "that conserve N_alpha and N_beta parity, n in {4,6,8}, every n_electrons 0..n and admissible spin (spin also as numpy integer): spectrum on the "
        "(N, N_alpha) parity sector, products, linearity, adjoints; parity-breaking operators must be refused. HCB: random "
        "spin-free Hermitian molecular-form Hamiltonians (real orbitals with 8-fold symmetric ERIs, and the complex-orbital family "
        "whose ERIs only obey (pq|rs)=(rs|pq)=conj((qp|sr)), real and complex coefficients), M=1..5, and real molecules: spectrum on the "
        "seniority-zero determinants, linearity, Hermiticity. combinatorial: molecular-form and general number-/spin-conserving "
        "Hermitian <=2-body operators, M=2..4, every (n_alpha,n_beta) with sector dimension >=2 (tuple and int forms): block "
        "structure, sector spectrum, unused block = constant*I (3e-5). Non-trivial = operator has >=2 terms, acts on >=2 modes "
        "and its matrix is not diagonal; every exhaustive pair counts once. Distinct = distinct canonical JSON of the case.")
ASSUMPTIONS = ["numpy/scipy linear algebra; Fock-space ladder matrices and Pauli matrices of vlib/refops.py, vlib/refsim.py (self-tested)",
               "vlib/h_c03.py term algebra and sub-space matrices (self-tested against refops.fermion_matrix)",
               "openfermion FermionOperator/QubitOperator are used as plain term containers only",
               "scBK domain = operators whose every term conserves N_alpha parity and N_beta parity; terms with odd S_z change are "
               "refused by Tangelo's documented ValueError and counted as rejected_by_contract",
               "HCB domain = spin-free Hermitian two-body Hamiltonians in the molecular-form term layout produced by Tangelo molecules "
               "(same spatial integrals for both spins); real orbitals are not assumed",
               "combinatorial: matrix read with qubit n-1 as most significant bit; sectors of dimension 1 (0 qubits) are outside the domain; "
               "tolerance 3e-5*scale because the code stores the matrix as complex64 by design",
               "spectra compared as sorted eigenvalues to 1e-8*max(1,|E|max)"]
SHARDS = {"quick": 4, "thorough": 16}

FULL = ["JW", "BK", "JKMN"]
TOL = 1e-8
SIG_CONST_UTD = "exception:ValueError@tangelo/toolboxes/qubit_mappings/mapping_transform.py:make_up_then_down"


def selftest():
    R.selftest()
    H.selftest()


# =============================================================================================== common helpers

def f2q(terms, mapping, n, ne=None, utd=False, spin=0):
    from tangelo.toolboxes.qubit_mappings.mapping_transform import fermion_to_qubit_mapping
    with warnings.catch_warnings():
        warnings.simplefilter("ignore")
        return fermion_to_qubit_mapping(H.build_fop(terms), mapping, n, ne, utd, spin)


def qubit_matrix(qop, nq, where):
    mq = H.qop_max_qubit(qop.terms)
    if mq >= nq:
        raise Fail(f"{where}: qubit operator acts on qubit {mq}, register has {nq} qubits", sig=f"{where}:outside-register")
    return H.qmat(qop.terms, nq)


def maxdiff(A, B):
    return float(np.max(np.abs(A - B))) if A.size else 0.0


def scale_of(*mats):
    return max([1.0] + [float(np.max(np.abs(M))) for M in mats if M.size])


def is_diagonal(M):
    return float(np.max(np.abs(M - np.diag(np.diag(M))))) < 1e-12 if M.size else True


def has_ladder(terms):
    return any(len(t) > 0 for t in terms)


# =============================================================================================== strategies (plain data)

def one_in(k):
    """True with probability ~1/k (Hypothesis over-samples the ends of integer ranges, so draw from an explicit list)."""
    return st.sampled_from([False] * (k - 1) + [True])


GRID = st.integers(-64, 64).filter(lambda k: k != 0).map(lambda k: k / 32.0)
NICE = st.sampled_from([1.0, -1.0, 0.5, -0.5, 2.0])


@st.composite
def coeff(draw, cplx=True):
    re = draw(st.one_of(NICE, GRID))
    kind = draw(st.integers(0, 3)) if cplx else 0
    if kind <= 1:
        return [re, 0.0]
    if kind == 2:
        return [0.0, re]
    return [re, draw(GRID)]


@st.composite
def full_term(draw, modes):
    kind = draw(st.integers(0, 6))
    m = st.sampled_from(modes)
    if kind <= 1:
        return [[draw(m), draw(st.integers(0, 1))] for _ in range(draw(st.integers(1, 4)))]
    if kind == 2:
        return [[draw(m), 1], [draw(m), 0]]
    if kind == 3:
        return [[draw(m), 1], [draw(m), 1], [draw(m), 0], [draw(m), 0]]
    if kind == 4:
        p = draw(m)
        return [[p, 1], [p, 0]]
    if kind == 5:
        return [[draw(m), draw(st.integers(0, 1))]]
    return [[draw(m), 1], [draw(m), 0], [draw(m), 1], [draw(m), 0]]


@st.composite
def full_op(draw, modes, max_terms, allow_const=True):
    if allow_const and draw(one_in(30)):
        return [[[], *draw(coeff())]]                      # constant-only operator
    terms = draw(st.lists(full_term(modes), min_size=1, max_size=max_terms))
    out = [[t, *draw(coeff())] for t in terms]
    if allow_const and draw(one_in(6)):
        out.append([[], *draw(coeff())])
    return out


@st.composite
def full_cases(draw, max_n):
    mapping = draw(st.sampled_from(FULL))
    n = draw(st.sampled_from([1, 2] + 2 * list(range(3, max_n + 1))))
    utd = (n % 2 == 0) and draw(st.booleans())
    used = n if (n == 1 or not draw(one_in(3))) else draw(st.integers(1, n - 1))
    modes = list(range(used))
    return {"mapping": mapping, "n": n, "utd": utd, "x": draw(full_op(modes, 5)), "y": draw(full_op(modes, 2)),
            "a": draw(coeff()), "b": draw(coeff())}


def spin_orbital(i, s):
    return 2 * i + s


@st.composite
def parity_term(draw, M):
    """Product of 1-2 same-spin pairs of ladder operators: conserves N_alpha parity and N_beta parity.
    kind A (common): pairs a^a / aa^ ; kind B: two pairs of the a^a^ / aa type (S_z changes by 0 or 2: accepted by Tangelo);
    kind C (rare): a single a^a^ / aa pair (S_z changes by one: Tangelo refuses it, documented)."""
    orb = st.integers(0, M - 1)
    kind = draw(st.sampled_from("AAAAAAAAAAABBBC"))
    npairs = 2 if kind == "B" else draw(st.integers(1, 2))
    fac = []
    for k in range(npairs):
        s = draw(st.integers(0, 1))
        d1 = draw(st.integers(0, 1))
        same = kind == "B" or (kind == "C" and k == 0)
        d2 = d1 if same else 1 - d1
        fac += [[spin_orbital(draw(orb), s), d1], [spin_orbital(draw(orb), s), d2]]
    if len(fac) == 4 and draw(one_in(3)):
        fac = list(draw(st.permutations(fac)))
    return fac


@st.composite
def parity_op(draw, M, max_terms):
    terms = draw(st.lists(parity_term(M), min_size=1, max_size=max_terms))
    out = [[t, *draw(coeff())] for t in terms]
    if draw(one_in(6)):
        out.append([[], *draw(coeff())])
    return out


def sectors_of(n):
    """Every (n_electrons, spin) with 0 <= n_alpha, n_beta <= n/2, boundary sectors n_electrons = 0 and n included."""
    out = []
    for ne in range(0, n + 1):
        for spin in range(-ne, ne + 1):
            if (ne + spin) % 2:
                continue
            na, nb = (ne + spin) // 2, (ne - spin) // 2
            if 0 <= na <= n // 2 and 0 <= nb <= n // 2:
                out.append((ne, spin))
    return out


@st.composite
def scbk_cases(draw, sizes):
    n = draw(st.sampled_from(sizes))
    secs = sectors_of(n)
    ne, spin = draw(st.sampled_from(secs + [(0, 0), (n, 0)]))      # boundary sectors twice as likely
    M = n // 2 - 1 if draw(one_in(4)) else n // 2       # sometimes leave the top spatial orbital untouched
    # "np": which of n_electrons / spin is handed over as a numpy integer (n_electrons: documented refusal; spin: must work)
    return {"n": n, "ne": ne, "spin": spin, "utd": draw(st.booleans()), "x": draw(parity_op(M, 4)), "y": draw(parity_op(M, 2)),
            "a": draw(coeff()), "b": draw(coeff()), "np": draw(st.sampled_from(["none"] * 12 + ["spin"] * 3 + ["ne"]))}


@st.composite
def breaking_cases(draw, sizes):
    n = draw(st.sampled_from(sizes))
    ne, spin = draw(st.sampled_from(sectors_of(n)))
    M = n // 2
    orb = st.integers(0, M - 1)
    kind = draw(st.integers(0, 2))
    if kind == 0:      # odd number of ladder operators
        bad = [[draw(st.integers(0, n - 1)), draw(st.integers(0, 1))] for _ in range(draw(st.sampled_from([1, 3])))]
    elif kind == 1:    # number-conserving spin flip
        s = draw(st.integers(0, 1))
        bad = [[spin_orbital(draw(orb), s), 1], [spin_orbital(draw(orb), 1 - s), 0]]
    else:              # spin flip times a conserving pair
        s, s2 = draw(st.integers(0, 1)), draw(st.integers(0, 1))
        bad = [[spin_orbital(draw(orb), s), 1], [spin_orbital(draw(orb), 1 - s), 0],
               [spin_orbital(draw(orb), s2), 1], [spin_orbital(draw(orb), s2), 0]]
    x = draw(parity_op(M, 2)) if draw(st.booleans()) else []
    pos = draw(st.integers(0, len(x)))
    x.insert(pos, [bad, *draw(coeff())])
    return {"n": n, "ne": ne, "spin": spin, "utd": draw(st.booleans()), "x": x}


G64 = st.integers(-64, 64).map(lambda k: k / 64.0)


@st.composite
def eri_index(draw, M):
    """Index pattern of a sparse two-body entry, biased to the pair-hopping / exchange / Coulomb positions."""
    o = st.integers(0, M - 1)
    i, j, k, l = draw(o), draw(o), draw(o), draw(o)
    pat = draw(st.sampled_from(["ijij", "ijij", "ijji", "iijj", "iiij", "ijkl", "ijik"]))
    return [{"i": i, "j": j, "k": k, "l": l}[ch] for ch in pat]


@st.composite
def integrals(draw, M, family=None):
    """Spin-free Hermitian two-body Hamiltonian in molecular form (plain data for vlib.h_c03.integrals_from_case).
    family "8": real orbitals (8-fold symmetric ERIs); "4r"/"4c": only the symmetries forced by Hermiticity and particle
    exchange, (pq|rs) = (rs|pq) = conj((qp|sr)), real / genuinely complex coefficients."""
    if family is None:
        family = draw(st.sampled_from(["8", "4r", "4r", "4c", "4c"])) if M >= 2 else "8"
    ntri, nstrict = M * (M + 1) // 2, M * (M - 1) // 2
    tri = st.lists(G64, min_size=ntri, max_size=ntri)
    strict = st.lists(G64, min_size=nstrict, max_size=nstrict)
    nz = tri.filter(lambda v: any(x != 0 for x in v))
    K = draw(st.integers(1, 3))
    c = {"M": M, "const": draw(st.one_of(st.just(0.0), G64)), "h": draw(nz), "L": [draw(tri) for _ in range(K)]}
    if family == "8":
        return c
    c["Ls"] = [draw(st.sampled_from([1.0, 1.0, -1.0])) for _ in range(K)]
    g = G64.filter(lambda v: v != 0)
    if family == "4r":
        c["X"] = [[draw(eri_index(M)), draw(g), 0.0] for _ in range(draw(st.integers(1, 4)))]
    else:
        c["hi"] = draw(strict)
        c["Li"] = [draw(strict) for _ in range(K)]
        c["X"] = [[draw(eri_index(M)), draw(G64), draw(g)] for _ in range(draw(st.integers(0, 3)))]
    return c


def eri_family(c):
    _, h, eri = H.integrals_from_case(c)
    four, eight = H.eri_symmetry(eri)
    assert four, "generator produced integrals without Hermitian/exchange symmetry"
    if eight and not np.iscomplexobj(h):
        return "eri:8-fold"
    return "eri:4-fold-complex" if (np.iscomplexobj(eri) or np.iscomplexobj(h)) else "eri:4-fold-real"


@st.composite
def hcb_cases(draw, max_M):
    M = draw(st.sampled_from([1] + 2 * list(range(2, max_M + 1))))
    c = {"H1": draw(integrals(M))}
    c["H2"] = draw(integrals(M)) if draw(st.booleans()) else None
    c["scale"] = draw(st.sampled_from([1.0, -1.0, 2.5, 0.125]))
    return c


def comb_sectors(M):
    out = []
    for na in range(M + 1):
        for nb in range(M + 1):
            if math.comb(M, na) * math.comb(M, nb) >= 2:
                out.append((na, nb))
    return out


@st.composite
def sc_term(draw, M):
    """Number- and spin-conserving one- or two-body ladder string (physicist, chemist or anti-normal order)."""
    orb = st.integers(0, M - 1)
    kind = draw(st.integers(0, 4))
    s, t = draw(st.integers(0, 1)), draw(st.integers(0, 1))
    p, q, r, u = (spin_orbital(draw(orb), z) for z in (s, s, t, t))
    if kind == 0:
        return [[p, 1], [q, 0]]
    if kind == 1:
        return [[p, 0], [q, 1]]
    if kind == 2:
        return [[p, 1], [r, 1], [u, 0], [q, 0]]
    if kind == 3:
        return [[p, 1], [q, 0], [r, 1], [u, 0]]
    return [[p, 1], [r, 1], [q, 0], [u, 0]]


@st.composite
def comb_cases(draw, max_M):
    M = draw(st.integers(2, max_M))
    secs = comb_sectors(M)
    na, nb = draw(st.sampled_from(secs + [s for s in secs if s[0] == s[1]] * 3))
    form = "int" if (na == nb and draw(st.booleans())) else "tuple"
    c = {"M": M, "na": na, "nb": nb, "form": form}
    if draw(one_in(3)):
        c["kind"] = "molecular"
        c["H1"] = draw(integrals(M))
        c["H2"] = draw(integrals(M)) if draw(st.booleans()) else None
    else:
        c["kind"] = "general"
        terms = draw(st.lists(sc_term(M), min_size=1, max_size=5))
        c["x"] = [[t, *draw(coeff())] for t in terms]
        if draw(one_in(4)):
            c["x"].append([[], draw(G64), 0.0])
    return c


# =============================================================================================== full-space encodings

def ladder_ops(mapping, n, utd, p):
    """Dense matrices of enc(a_p), enc(a_p^)."""
    A = qubit_matrix(f2q({((p, 0),): 1.0}, mapping, n, None, utd), n, f"{mapping}:ladder")
    Ad = qubit_matrix(f2q({((p, 1),): 1.0}, mapping, n, None, utd), n, f"{mapping}:ladder")
    return A, Ad


def pair_cases(max_n):
    out = []
    for mapping in FULL:
        for n in range(1, max_n + 1):
            for utd in ((False, True) if n % 2 == 0 else (False,)):
                for p in range(n):
                    for q in range(n):
                        out.append({"mapping": mapping, "n": n, "utd": utd, "p": p, "q": q})
    return out


@part("car_pairs", quick=440, thorough=980)
def car_pairs(ctx):
    max_n = 6 if ctx.tier == "quick" else 8

    def body(case):
        mapping, n, utd, p, q = case["mapping"], case["n"], case["utd"], case["p"], case["q"]
        I = np.eye(2 ** n)
        Ap, Adp = ladder_ops(mapping, n, utd, p)
        Aq, Adq = ladder_ops(mapping, n, utd, q)
        if maxdiff(Adp, Ap.conj().T) > TOL:
            raise Fail(f"enc(a_{p}^) != enc(a_{p})^dagger ({mapping}, n={n}, utd={utd})", sig=f"{mapping}:adjoint-ladder")
        d = maxdiff(Ap @ Adq + Adq @ Ap, I * (p == q))
        if d > TOL:
            raise Fail(f"{{a_{p}, a_{q}^}} deviates from delta by {d} ({mapping}, n={n}, utd={utd})", sig=f"{mapping}:CAR-a-adag")
        d = maxdiff(Ap @ Aq + Aq @ Ap, 0 * I)
        if d > TOL:
            raise Fail(f"{{a_{p}, a_{q}}} deviates from 0 by {d} ({mapping}, n={n}, utd={utd})", sig=f"{mapping}:CAR-a-a")
        mats = {(p, 0): Ap, (p, 1): Adp, (q, 0): Aq, (q, 1): Adq}
        for s in (0, 1):
            for t in (0, 1):
                P = qubit_matrix(f2q({((p, s), (q, t)): 1.0}, mapping, n, None, utd), n, f"{mapping}:product")
                d = maxdiff(P, mats[(p, s)] @ mats[(q, t)])
                if d > TOL:
                    raise Fail(f"enc(({p},{s})({q},{t})) differs from the product of the encoded factors by {d} "
                               f"({mapping}, n={n}, utd={utd})", sig=f"{mapping}:product-ladder-pair")
        lab = {mapping, f"{mapping}:n={n}"}
        if utd:
            lab.add(f"utd:{mapping}")
        if n % 2:
            lab.add("odd-n")
        return True, lab

    ctx.sweep("car_pairs", pair_cases(max_n), body)


def clean(d, tol=1e-10):
    return {k: v for k, v in d.items() if abs(v) > tol}


@part("car_pauli", quick=20, thorough=42)
def car_pauli(ctx):
    sizes = range(7, 11) if ctx.tier == "quick" else range(7, 15)
    cases = [{"mapping": m, "n": n, "utd": utd} for m in FULL for n in sizes for utd in ((False, True) if n % 2 == 0 else (False,))]

    def body(case):
        mapping, n, utd = case["mapping"], case["n"], case["utd"]
        A, Ad = [], []
        for p in range(n):
            a = f2q({((p, 0),): 1.0}, mapping, n, None, utd).terms
            ad = f2q({((p, 1),): 1.0}, mapping, n, None, utd).terms
            for t in list(a) + list(ad):
                if any(qb >= n or qb < 0 for qb, _ in t):
                    raise Fail(f"{mapping}: ladder operator {p} acts outside the {n}-qubit register", sig=f"{mapping}:ladder:outside-register")
            # Pauli words are Hermitian: the adjoint conjugates the coefficients
            diff = clean(F.qop_add({k: np.conj(v) for k, v in a.items()}, ad, -1))
            if diff:
                raise Fail(f"enc(a_{p}^) != enc(a_{p})^dagger ({mapping}, n={n}, utd={utd})", sig=f"{mapping}:adjoint-ladder")
            A.append(dict(a)); Ad.append(dict(ad))
        for p in range(n):
            for q in range(n):
                anti = clean(F.qop_add(F.qop_mul(A[p], Ad[q]), F.qop_mul(Ad[q], A[p])))
                want = {(): 1.0} if p == q else {}
                if set(anti) != set(want) or any(abs(anti[k] - want[k]) > TOL for k in want):
                    raise Fail(f"{{a_{p}, a_{q}^}} != delta ({mapping}, n={n}, utd={utd}): {anti}", sig=f"{mapping}:CAR-a-adag")
                if q >= p and clean(F.qop_add(F.qop_mul(A[p], A[q]), F.qop_mul(A[q], A[p]))):
                    raise Fail(f"{{a_{p}, a_{q}}} != 0 ({mapping}, n={n}, utd={utd})", sig=f"{mapping}:CAR-a-a")
        lab = {mapping, f"{mapping}:n={n}"}
        if utd:
            lab.add(f"utd:{mapping}")
        return True, lab

    ctx.sweep("car_pauli", cases, body)


def const_utd_excluded(case):
    """Predicate of the known defect: up_then_down re-ordering of an operator without any ladder factor."""
    if not case.get("utd"):
        return False
    tx, ty = H.case_to_terms(case["x"]), H.case_to_terms(case.get("y", []))
    cands = [tx, ty, H.mul_terms(tx, ty), H.lin_terms(tx, ty, complex(*case.get("a", [1, 0])), complex(*case.get("b", [1, 0]))),
             H.lin_terms(tx, H.dagger_terms(tx))]
    return any(not has_ladder(t) for t in cands)


@part("full_random", quick=2400, thorough=80000)
def full_random(ctx):
    max_n = 6 if ctx.tier == "quick" else 8

    def body(case):
        mapping, n, utd = case["mapping"], case["n"], case["utd"]
        tx, ty = H.case_to_terms(case["x"]), H.case_to_terms(case["y"])
        a, b = complex(*case["a"]), complex(*case["b"])
        where = mapping

        def enc(terms, what):
            return qubit_matrix(f2q(terms, mapping, n, None, utd), n, f"{where}:{what}")
        X, Y = enc(tx, "x"), enc(ty, "y")
        s = scale_of(X, Y)
        d = maxdiff(enc(H.mul_terms(tx, ty), "xy"), X @ Y)
        if d > TOL * s * s:
            raise Fail(f"{mapping} n={n} utd={utd}: enc(x*y) differs from enc(x)*enc(y) by {d}", sig=f"{mapping}:product")
        d = maxdiff(enc(H.lin_terms(tx, ty, a, b), "ax+by"), a * X + b * Y)
        if d > TOL * s * 4:
            raise Fail(f"{mapping} n={n} utd={utd}: enc(a x + b y) differs from a enc(x) + b enc(y) by {d}", sig=f"{mapping}:linearity")
        d = maxdiff(enc(H.dagger_terms(tx), "x^"), X.conj().T)
        if d > TOL * s:
            raise Fail(f"{mapping} n={n} utd={utd}: enc(x^dagger) differs from enc(x)^dagger by {d}", sig=f"{mapping}:adjoint")
        herm = H.lin_terms(tx, H.dagger_terms(tx))
        Q = enc(herm, "x+x^")
        if maxdiff(Q, Q.conj().T) > TOL * s:
            raise Fail(f"{mapping} n={n} utd={utd}: encoding of a Hermitian operator is not Hermitian", sig=f"{mapping}:hermiticity")
        ref = F.fermion_matrix(herm, n)
        e_ref = np.linalg.eigvalsh(ref)
        ok, d = H.spectra_equal(np.linalg.eigvalsh(Q), e_ref, TOL * max(1.0, float(np.max(np.abs(e_ref)))))
        if not ok:
            raise Fail(f"{mapping} n={n} utd={utd}: spectrum of enc(x+x^) differs from the Fock-space spectrum by {d}", sig=f"{mapping}:spectrum")
        if mapping == "JW":
            t2 = F.relabel_terms(tx, F.up_then_down_perm(n)) if utd else tx
            d = maxdiff(X, F.fermion_matrix(t2, n))
            if d > TOL * s:
                raise Fail(f"JW n={n} utd={utd}: matrix differs from the Jordan-Wigner definition by {d}", sig="JW:matrix")
        modes = H.modes_of(tx)
        lab = {mapping, f"{mapping}:n={n}"}
        if utd:
            lab.add(f"utd:{mapping}")
        if n % 2:
            lab.add("odd-n")
        if not modes or max(modes) < n - 1:
            lab.add("top-index-untouched")
        if not has_ladder(tx) or not has_ladder(ty):
            lab.add("constant-only-operand")
        if any(v.imag != 0 for v in tx.values()):
            lab.add("complex-coefficients")
        return len(tx) >= 2 and len(modes) >= 2 and not is_diagonal(X), lab

    ctx.search("full_random", full_cases(max_n), body, exclusions={SIG_CONST_UTD: const_utd_excluded})


# =============================================================================================== scBK

def delta_counts(term):
    dn = [0, 0]
    for p, d in term:
        dn[p % 2] += 2 * d - 1
    return dn


def tangelo_documents_refusal(terms):
    """check_operator's documented rule: each term must keep the parity of N and of S_z (= (dNa - dNb)/2 even)."""
    for t in terms:
        da, db = delta_counts(t)
        if (da + db) % 2 or ((da - db) / 2) % 2:
            return True
    return False


def scbk_enc(terms, case, what):
    n = case["n"]
    ne = np.int64(case["ne"]) if case.get("np") == "ne" else case["ne"]
    spin = np.int64(case["spin"]) if case.get("np") == "spin" else case["spin"]
    try:
        qop = f2q(terms, "scbk", n, ne, case["utd"], spin)
    except ValueError as e:
        if case.get("np") == "ne" and str(e) == "Number of electrons should be an integer.":
            raise Skip("scBK refuses a numpy integer n_electrons (documented ValueError)")
        if str(e).startswith("Invalid operator: input fermion operator does not conserve"):
            if tangelo_documents_refusal(terms):
                raise Skip("scBK refuses operator whose S_z changes by an odd amount (documented ValueError)")
            raise Fail(f"scBK refuses a parity-conserving operator ({what}): {e}", sig="scbk:refuses-conserving")
        raise
    return qubit_matrix(qop, n - 2, f"scbk:{what}")


@part("scbk", quick=1500, thorough=50000)
def scbk(ctx):
    sizes = [4, 6, 6, 8] if ctx.tier == "quick" else [4, 6, 8]

    def body(case):
        n, ne, spin, utd = case["n"], case["ne"], case["spin"], case["utd"]
        na = (ne + spin) // 2
        tx, ty = H.case_to_terms(case["x"]), H.case_to_terms(case["y"])
        a, b = complex(*case["a"]), complex(*case["b"])
        idx = H.parity_sector(n, ne, na)
        herm = H.lin_terms(tx, H.dagger_terms(tx))
        assert H.leaks(herm, n, idx) == 0.0 and H.leaks(ty, n, idx) == 0.0, "generator produced a sector-breaking operator"
        X, Y = scbk_enc(tx, case, "x"), scbk_enc(ty, case, "y")
        s = scale_of(X, Y)
        Q = scbk_enc(herm, case, "x+x^")
        if maxdiff(Q, Q.conj().T) > TOL * s:
            raise Fail(f"scBK n={n} ne={ne} spin={spin} utd={utd}: encoding of a Hermitian operator is not Hermitian", sig="scbk:hermiticity")
        ref = H.sub_matrix(herm, n, idx)
        e_ref = np.linalg.eigvalsh(ref)
        ok, d = H.spectra_equal(np.linalg.eigvalsh(Q), e_ref, TOL * max(1.0, float(np.max(np.abs(e_ref)))))
        if not ok:
            raise Fail(f"scBK n={n} ne={ne} spin={spin} utd={utd}: spectrum differs from the sector spectrum by {d}", sig="scbk:spectrum")
        d = maxdiff(scbk_enc(H.mul_terms(tx, ty), case, "xy"), X @ Y)
        if d > TOL * s * s:
            raise Fail(f"scBK n={n} ne={ne} spin={spin} utd={utd}: enc(x*y) differs from enc(x)*enc(y) by {d}", sig="scbk:product")
        d = maxdiff(scbk_enc(H.lin_terms(tx, ty, a, b), case, "ax+by"), a * X + b * Y)
        if d > TOL * s * 4:
            raise Fail(f"scBK n={n} ne={ne} spin={spin} utd={utd}: not linear (difference {d})", sig="scbk:linearity")
        d = maxdiff(scbk_enc(H.dagger_terms(tx), case, "x^"), X.conj().T)
        if d > TOL * s:
            raise Fail(f"scBK n={n} ne={ne} spin={spin} utd={utd}: enc(x^) differs from enc(x)^ by {d}", sig="scbk:adjoint")
        modes = H.modes_of(tx)
        lab = {f"n={n}", f"utd={utd}", f"sector:N%2={ne % 2},Na%2={na % 2}"}
        if ne in (0, n):
            lab.add("boundary:n_electrons=" + ("0" if ne == 0 else "n"))
        if case.get("np") == "spin":
            lab.add("numpy-integer-spin")
        if spin < 0:
            lab.add("negative-spin")
        if ne % 2:
            lab.add("odd-electrons")
            if spin < 0:
                lab.add("odd-electrons&negative-spin")
        if not modes or max(modes) < n - 2:
            lab.add("top-orbital-untouched")
        if any(sum(delta_counts(t)) != 0 for t in tx):
            lab.add("number-non-conserving-term")
        return len(tx) >= 2 and len(modes) >= 2 and not is_diagonal(ref), lab

    ctx.search("scbk", scbk_cases(sizes), body, frac=0.85, exclusions={SIG_CONST_UTD: const_utd_excluded})

    def body_refuse(case):
        tx = H.case_to_terms(case["x"])
        if not tangelo_documents_refusal(tx):
            return False, ("breaking-term-cancelled",)
        try:
            f2q(tx, "scbk", case["n"], case["ne"], case["utd"], case["spin"])
        except ValueError as e:
            if str(e).startswith("Invalid operator: input fermion operator does not conserve"):
                return True, ("refused", "refused:" + ("occupation" if "occupation" in str(e) else "spin"))
            raise
        raise Fail("scBK accepted an operator that breaks the number or spin parity of the sector", sig="scbk:accepts-parity-breaking")

    ctx.search("scbk_refuse", breaking_cases([4, 6]), body_refuse, frac=0.15)


# =============================================================================================== HCB

def ham_terms(c):
    return H.molecular_terms(*H.integrals_from_case(c))


def sum_integrals(c1, c2, s1=1.0, s2=1.0):
    k1, h1, g1 = H.integrals_from_case(c1)
    k2, h2, g2 = H.integrals_from_case(c2)
    return H.molecular_terms(s1 * k1 + s2 * k2, s1 * h1 + s2 * h2, s1 * g1 + s2 * g2)


def hcb_check(terms, M, where):
    """Spectrum of the M-qubit HCB operator = spectrum of P H P on the seniority-zero determinants."""
    from tangelo.toolboxes.qubit_mappings.mapping_transform import get_qubit_number
    nq = get_qubit_number("HCB", 2 * M)
    if nq != M:
        raise Fail(f"get_qubit_number('HCB', {2 * M}) = {nq}", sig="hcb:qubit-number")
    Q = qubit_matrix(f2q(terms, "hcb", 2 * M), M, where)
    ref = H.sub_matrix(terms, 2 * M, H.seniority_zero(M))
    s = scale_of(ref)
    if maxdiff(Q, Q.conj().T) > TOL * s:
        raise Fail(f"{where}: HCB image of a Hermitian Hamiltonian is not Hermitian", sig="hcb:hermiticity")
    e_ref = np.linalg.eigvalsh(ref)
    ok, d = H.spectra_equal(np.linalg.eigvalsh(Q), e_ref, TOL * max(1.0, float(np.max(np.abs(e_ref)))))
    if not ok:
        raise Fail(f"{where}: HCB spectrum differs from the seniority-zero spectrum by {d} (M={M})", sig="hcb:spectrum")
    return Q, ref


@part("hcb", quick=500, thorough=15000)
def hcb(ctx):
    max_M = 4 if ctx.tier == "quick" else 5

    def body(case):
        M = case["H1"]["M"]
        t1 = ham_terms(case["H1"])
        Q1, ref = hcb_check(t1, M, "hcb")
        sc = case["scale"]
        lab = {f"M={M}", eri_family(case["H1"])}
        if case["H2"] is not None:
            t2 = ham_terms(case["H2"])
            Q2 = qubit_matrix(f2q(t2, "hcb", 2 * M), M, "hcb")
            Qs = qubit_matrix(f2q(sum_integrals(case["H1"], case["H2"], sc, 1.0), "hcb", 2 * M), M, "hcb")
            d = maxdiff(Qs, sc * Q1 + Q2)
            if d > TOL * scale_of(Q1, Q2) * 4:
                raise Fail(f"HCB is not linear: enc(s*H1 + H2) differs from s*enc(H1) + enc(H2) by {d}", sig="hcb:linearity")
            lab.add("linearity")
        return M >= 2 and not is_diagonal(ref), lab

    ctx.search("hcb", hcb_cases(max_M), body)


MOLECULES = [
    {"name": "H2", "geom": [["H", [0, 0, 0]], ["H", [0, 0, 0.74]]], "q": 0, "spin": 0, "basis": "sto-3g", "frozen": None},
    {"name": "H3+", "geom": [["H", [0, 0, 0]], ["H", [0, 0.1, 0.9]], ["H", [0.8, 0.2, 0.3]]], "q": 1, "spin": 0, "basis": "sto-3g", "frozen": None},
    {"name": "H4", "geom": [["H", [0, 0, 0]], ["H", [0, 0.1, 0.9]], ["H", [0.8, 0.2, 0.3]], ["H", [1.5, 1.0, -0.2]]], "q": 0, "spin": 0,
     "basis": "sto-3g", "frozen": None},
    {"name": "H2-631g", "geom": [["H", [0, 0, 0]], ["H", [0, 0, 0.9]]], "q": 0, "spin": 0, "basis": "6-31g", "frozen": None},
    {"name": "LiH-frozen", "geom": [["Li", [0, 0, 0]], ["H", [0.1, 0, 1.6]]], "q": 0, "spin": 0, "basis": "sto-3g", "frozen": [0, 5]},
]


def molecule_terms(spec):
    from tangelo import SecondQuantizedMolecule
    with warnings.catch_warnings():
        warnings.simplefilter("ignore")
        mol = SecondQuantizedMolecule([(a, tuple(xyz)) for a, xyz in spec["geom"]], spec["q"], spec["spin"], basis=spec["basis"],
                                      frozen_orbitals=spec["frozen"])
        fh = mol.fermionic_hamiltonian
    return {t: v for t, v in fh.terms.items()}, mol.n_active_mos


@part("molecules", quick=5, thorough=5, shard=True)
def molecules(ctx):
    def body(spec):
        terms, M = molecule_terms(spec)
        _, ref = hcb_check(terms, M, "hcb:molecule")
        lab = {spec["name"], "hcb"}
        secs = comb_sectors(M) if M <= 3 else [(1, 1), (2, 1), (2, 2), (1, 0), (3, 1), (0, 2)]
        for na, nb in secs:
            comb_check(terms, M, na, nb, (na, nb), "combinatorial:molecule")
            lab.add("combinatorial")
        if M <= 4:
            comb_check(terms, M, 1, 1, 2, "combinatorial:molecule")
        return True, lab

    ctx.sweep("molecules", MOLECULES, body)


# =============================================================================================== combinatorial

def comb_check(terms, M, na, nb, nel, where):
    """Block structure and sector spectrum of the combinatorial image (qubit n-1 = most significant bit)."""
    from tangelo.toolboxes.qubit_mappings import combinatorial
    dim = math.comb(M, na) * math.comb(M, nb)
    nq = max(math.ceil(math.log2(dim)), 0)
    with warnings.catch_warnings():
        warnings.simplefilter("ignore")
        qop = combinatorial(H.build_fop(terms), M, nel)
    mq = H.qop_max_qubit(qop.terms)
    if mq >= nq:
        raise Fail(f"{where}: operator acts on qubit {mq}, expected ceil(log2({dim})) = {nq} qubits", sig="combinatorial:outside-register")
    rev = {tuple(sorted((nq - 1 - q, P) for q, P in t)): v for t, v in qop.terms.items()}
    Mq = H.qmat(rev, nq)
    ref = H.sub_matrix(terms, 2 * M, F.sector_indices(2 * M, na, nb))
    const = H.sub_matrix(terms, 2 * M, [0])[0, 0]          # <vac|H|vac> = constant of the normal-ordered operator
    e_ref = np.linalg.eigvalsh(ref)
    scale = max(1.0, float(np.max(np.abs(e_ref))), abs(const), float(np.max(np.abs(ref))))
    tol = 3e-5 * scale
    blk, rest = Mq[:dim, :dim], Mq[dim:, dim:]
    off = max(maxdiff(Mq[:dim, dim:], 0 * Mq[:dim, dim:]), maxdiff(Mq[dim:, :dim], 0 * Mq[dim:, :dim]))
    if off > tol:
        raise Fail(f"{where}: represented space couples to the unused states ({off}) M={M} (na,nb)=({na},{nb})", sig="combinatorial:coupling")
    if maxdiff(blk, blk.conj().T) > tol:
        raise Fail(f"{where}: image of a Hermitian operator is not Hermitian M={M} (na,nb)=({na},{nb})", sig="combinatorial:hermiticity")
    ok, d = H.spectra_equal(np.linalg.eigvalsh((blk + blk.conj().T) / 2), e_ref, tol)
    if not ok:
        raise Fail(f"{where}: spectrum on the represented space differs from the ({na},{nb}) sector spectrum by {d} (M={M}, n_electrons={nel})",
                   sig="combinatorial:spectrum")
    if rest.size and maxdiff(rest, const * np.eye(rest.shape[0])) > tol:
        raise Fail(f"{where}: unused block is not constant*identity (constant {const}) M={M} (na,nb)=({na},{nb})", sig="combinatorial:unused-block")
    return Mq, ref, dim, nq


@part("combinatorial", quick=1000, thorough=25000)
def combinatorial_part(ctx):
    max_M = 4

    def body(case):
        M, na, nb = case["M"], case["na"], case["nb"]
        nel = (na, nb) if case["form"] == "tuple" else na + nb
        lab = {f"M={M}", case["kind"], "n_electrons:" + case["form"]}
        if case["kind"] == "molecular":
            terms = ham_terms(case["H1"])
            lab.add(eri_family(case["H1"]))
        else:
            tx = H.case_to_terms(case["x"])
            terms = H.lin_terms(tx, H.dagger_terms(tx))
            if any(v.imag != 0 for v in tx.values()):
                lab.add("complex-hermitian")
        Mq, ref, dim, nq = comb_check(terms, M, na, nb, nel, "combinatorial")
        if dim < 2 ** nq:
            lab.add("unused-states")
        else:
            lab.add("dim-power-of-two")
        if na != nb:
            lab.add("open-shell-sector")
        if case["kind"] == "molecular" and case["H2"] is not None:
            M2, _, _, _ = comb_check(ham_terms(case["H2"]), M, na, nb, nel, "combinatorial")
            Ms, _, _, _ = comb_check(sum_integrals(case["H1"], case["H2"]), M, na, nb, nel, "combinatorial")
            d = maxdiff(Ms, Mq + M2)
            if d > 3e-5 * scale_of(Mq, M2) * 3:
                raise Fail(f"combinatorial is not linear: enc(H1+H2) differs from enc(H1)+enc(H2) by {d}", sig="combinatorial:linearity")
            lab.add("linearity")
        return len(terms) >= 2 and not is_diagonal(ref), lab

    ctx.search("combinatorial", comb_cases(max_M), body)
