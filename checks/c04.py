"""C04 - qubit Hamiltonians reproduce the mean-field and full-CI energies (RHF/ROHF/UHF, frozen orbitals, all
encodings and orderings, active-space rotations)."""
import numpy as np
from hypothesis import strategies as st

from vlib.runner import part, Fail, Skip
from vlib import refsim as R, refops, refchem, h_mol as M, strategies as S

PROPERTY = "C04"
RULE = ("Hypothesis-generated molecules (H2, HeH+, H3+/H3/H3-, H4 chain/ring/3-D and ions, He2(+), LiH, H2O, BeH2; random "
        "scalings and displacements; charge, spin, basis sto-3g/3-21g/6-31g; RHF/ROHF/UHF; frozen orbitals None/int/list/"
        "non-contiguous/occupied+virtual/per-spin UHF lists) x encodings JW/BK/scBK/JKMN x both orderings (all 8 for every "
        "molecule) + a random Givens-sequence rotation of the active orbitals. Oracles: determinant-space CI built from AO "
        "integrals (vlib/refchem), PySCF SCF energy, Tangelo FCISolver (RHF/ROHF). Non-trivial = >=2 active orbitals and "
        "a sector of dimension >=2. Histories on one object: (i) restricted molecule asked, in a drawn order, for its Hamiltonian / "
        "full-space integrals with its own coefficients and with an explicit rotated mo_coeff= argument, each answer judged for "
        "the coefficients requested; (ii) 2-3 molecules of one family/basis built in sequence with one shared IntegralSolverPySCF "
        "instance, each judged right after construction. Distinct = distinct canonical JSON of the case.")
ASSUMPTIONS = ["PySCF AO integrals, SCF energy and nuclear repulsion", "numpy/scipy linear algebra",
               "vlib/refchem determinant-space CI oracle (self-tested against PySCF FCI) and vlib/refops ladder operators",
               "sector selection uses Tangelo's number_operator/spinz_operator through the same encoding (covered by C03/C12)",
               "<=10 qubits, <=6 kept (frozen occupied + active) orbitals per spin, first/second-row atoms, small bases",
               "shared-solver histories judge only the most recently built molecule (the solver object owns the MO coefficients, "
               "so an older molecule sharing it sees the newest coefficients by construction)",
               "FCISolver comparison is waived when spin=0, nothing is frozen and the Sz=0 ground state is a triplet "
               "(the solver then uses PySCF's singlet-only direct_spin0 by design)"]
SHARDS = {"quick": 4, "thorough": 16}

FCI_DEGENERATE_SIG = "fci-solver:degenerate-ground-level-returns-excited-root"

def fci_degenerate_class(c):
    """Exclusion predicate for FCI_DEGENERATE_SIG (used only after the listed finding was re-observed): restricted
    open-shell molecules of the ring / symmetric families, where exactly degenerate ground levels occur."""
    m = c["mol"]
    return (not m["uhf"]) and m["spin"] != 0 and (m["family"] in ("H4-ring", "H3-triangle", "H6-ring") or m["family"] in getattr(M, "SYMMETRIC_FAMILIES", ()))


TOL_E = 1e-6      # energies through SCF-based pipelines
TOL_X = 1e-6      # same orbitals on both sides; openfermion drops/rounds individual coefficients at its 1e-8 tolerance, which
                  # on near-symmetric molecules (many ~1e-8 integrals) adds up to a few 1e-8 in matrix elements
TOL_LEAK = 1e-6
CONFIGS = [[m, u] for m in M.MAPPINGS for u in (False, True)]

PHANTOM_SIG = "sector-min:uhf-unequal-active-padding"


def selftest():
    refops.selftest()
    refchem.selftest()
    M.selftest()
    # the oracle is orbital-invariant and agrees with PySCF FCI for an open-shell case with a frozen core orbital
    from pyscf import gto, scf, mcscf
    mol = gto.M(atom="H 0 0 0; H 0 0.1 0.9; H 0.8 0.2 0.3; H 1.5 1.0 -0.2", basis="sto-3g", charge=1, spin=1, verbose=0)
    mf = scf.RHF(mol).run()
    cas = mcscf.CASCI(mf, 3, (1, 0))
    cas.verbose = 0
    e_cas = cas.kernel()[0]
    e, _ = refchem.ci_oracle(mol, mf.mo_coeff, mf.mo_coeff, [0, 1, 2, 3], [0, 1, 2, 3], [0], [0], 1, 0)
    assert abs(e - e_cas) < 1e-8, (e, e_cas)


def per_spin_frozen(case):
    fr = case["frozen"]
    if fr is None:
        fr = 0
    if isinstance(fr, int):
        return list(range(fr)), list(range(fr))
    if case["uhf"]:
        return list(fr[0]), list(fr[1])
    return list(fr), list(fr)


def padded_register(c):
    """Exclusion predicate for PHANTOM_SIG (used only when that signature is a listed open finding): UHF with a
    different number of active alpha and beta orbitals (the register is then padded with integral-free spin-orbitals)."""
    m = c["mol"]
    fa, fb = per_spin_frozen(m)
    return bool(m["uhf"]) and len(set(fa)) != len(set(fb))


def mol_labels(case, p, mol):
    fa, fb = per_spin_frozen(case)
    occ_a, occ_b = M.occupations(case, mol)
    ref = "uhf" if case["uhf"] else ("rohf" if case["spin"] else "rhf")
    out = {"ref=" + ref, "basis=" + case["basis"], "family=" + case["family"], f"qubits={p['n_sos']}", f"q={case['q']}"}
    fr = case["frozen"]
    out.add("frozen=" + ("none" if fr in (None, 0) else "int" if isinstance(fr, int) else
                         "perspin" if (case["uhf"] and fa != fb) else "list"))
    for f, occ, act in ((fa, occ_a, p["act_a"]), (fb, occ_b, p["act_b"])):
        focc = [i for i in f if i in occ]
        aocc = [i for i in act if i in occ]
        if focc and aocc and min(aocc) < max(focc):
            out.add("interior-frozen-occupied")
        if f and not focc:
            out.add("frozen-virtual-only")
        if focc and len(focc) < len(f):
            out.add("frozen-occupied+virtual")
        if f and sorted(f) != list(range(min(f), max(f) + 1)):
            out.add("frozen-non-contiguous")
    if case["uhf"] and fa != fb:
        out.add("uhf-unequal-frozen-lists")
    if case["uhf"] and [i for i in fa if i in occ_a] and [i for i in fb if i in occ_b]:
        out.add("uhf-frozen-occupied-in-both-spins")
    if len(p["act_a"]) != len(p["act_b"]):
        out.add("phantom-register")
        short = p["act_a"] if len(p["act_a"]) < len(p["act_b"]) else p["act_b"]
        n_el = p["na"] if short is p["act_a"] else p["nb"]
        if n_el >= 1:
            out.add("phantom-with-electrons-in-short-spin")
    if p["na"] != p["nb"]:
        out.add("na!=nb")
        if not case["uhf"]:
            out.add("rohf-na!=nb")
    if (p["na"] + p["nb"]) % 2:
        out.add("scbk-odd-electrons")
    if p["na"] < p["nb"]:
        out.add("negative-active-spin")
    return out


def reference_index(circ, nq):
    """Basis-state index prepared by the reference circuit (reference simulator; the circuit must prepare a basis state)."""
    psi = R.run(S.circuit_to_recs(circ), nq) if nq > 0 else np.array([1.0 + 0j])
    k = int(np.argmax(np.abs(psi)))
    if abs(abs(psi[k]) - 1) > 1e-9:
        raise Fail("reference circuit does not prepare a computational basis state", sig="reference:not-basis-state")
    return k


def sector_minimum(mol, p, mapping, utd, fermion_op=None, what=""):
    n, ne, sp = mol.n_active_sos, mol.n_active_electrons, mol.active_spin
    H = M.qubit_hamiltonian(mol, mapping, utd, fermion_op)
    nq = M.n_qubits_of(mapping, n)
    idx = M.sector_indices(mapping, n, ne, sp, utd, p["na"] + p["nb"], (p["na"] - p["nb"]) / 2)
    if not idx:
        raise Fail(f"{what}{mapping}/{utd}: the (N,Sz)=({p['na'] + p['nb']},{(p['na'] - p['nb']) / 2}) sector is empty",
                   sig=f"sector-empty:{mapping}")
    w, v, leak = M.sector_spectrum(H.terms, nq, idx)
    if leak > TOL_LEAK:
        raise Fail(f"{what}{mapping}/{utd}: qubit Hamiltonian couples the (N,Sz) sector to its complement or is not "
                   f"Hermitian there (|element|={leak:.2e})", sig=f"sector-leak:{mapping}")
    return H, nq, idx, w


def check_molecule(ctx, case):
    from tangelo.toolboxes.qubit_mappings.statevector_mapping import get_reference_circuit
    from tangelo.algorithms.classical import FCISolver
    from tangelo.linq import get_backend

    mcase = case["mol"]
    mol = M.build_molecule(mcase)
    p = M.partition(mcase, mol)
    labels = mol_labels(mcase, p, mol)

    # ---- bookkeeping (active electrons / spin / register size)
    if tuple(mol.n_active_ab_electrons) != (p["na"], p["nb"]) or mol.n_active_electrons != p["na"] + p["nb"] \
            or mol.active_spin != p["na"] - p["nb"]:
        raise Fail(f"active electrons (alpha,beta)={mol.n_active_ab_electrons}, active_spin={mol.active_spin}; "
                   f"occupations minus frozen orbitals give ({p['na']},{p['nb']})", sig="bookkeeping:electrons")
    if mol.n_active_sos != p["n_sos"]:
        raise Fail(f"n_active_sos={mol.n_active_sos}, expected {p['n_sos']}", sig="bookkeeping:n_active_sos")
    n, ne, sp = mol.n_active_sos, mol.n_active_electrons, mol.active_spin
    if n > 10:
        raise Skip("harness bound: more than 10 qubits")

    # ---- classical references
    e_det = M.determinant_energy(mcase, mol)
    if abs(e_det - mol.mf_energy) > TOL_E:
        raise Fail(f"mf_energy={mol.mf_energy} but the occupied determinant has energy {e_det} (AO integrals)",
                   sig="mf_energy-vs-determinant")
    e_ci, dim = M.ci_energy(mcase, mol, part=p)
    if not mcase["uhf"]:
        e_fci = FCISolver(mol).simulate()
        if abs(e_fci - e_ci) > TOL_E:
            waived = False
            if mcase["spin"] == 0 and mol.frozen_mos is None and e_fci > e_ci:
                # FCISolver deliberately uses the singlet-only solver here; a triplet ground state has an Sz=1 partner
                q = dict(p, na=p["na"] + 1, nb=p["nb"] - 1)
                e_t, _ = M.ci_energy(mcase, mol, part=q)
                waived = abs(e_t - e_ci) < TOL_X
            if not waived:
                # one specific root cause has its own signature: the sector's ground level is (numerically exactly) degenerate
                # and FCISolver returns a HIGHER eigenvalue of the same sector (PySCF's kernel leaves its exact-diagonalisation
                # shortcut when the two lowest eigenvalues coincide and Davidson then converges to an excited root)
                from vlib import refchem
                mo_a, mo_b = M.mo_pair(mol)
                spec = refchem.sector_spectrum(M.pyscf_mole(mcase), mo_a, mo_b, p["keep_a"], p["keep_b"], p["focc_a"], p["focc_b"], p["na"], p["nb"])
                degenerate = len(spec) > 1 and abs(spec[1] - spec[0]) < 1e-9
                excited = e_fci > e_ci and bool(np.min(np.abs(spec[1:] - e_fci)) < TOL_E) if len(spec) > 1 else False
                if degenerate and excited:
                    raise Fail(f"FCISolver={e_fci} is an excited eigenvalue of the target sector; its ground level {e_ci} is two-fold "
                               f"(or more) degenerate (sector spectrum starts {[float(x) for x in spec[:4]]})",
                               sig=FCI_DEGENERATE_SIG)
                raise Fail(f"FCISolver={e_fci}, determinant-space CI with the same frozen orbitals={e_ci}",
                           sig="fci-solver-vs-ci-oracle:" + ("frozen" if mol.frozen_mos is not None else "full"))
            labels.add("fci-waived-triplet-ground-state")
        labels.add("fci-solver-compared")

    # ---- every encoding and ordering: mean-field expectation and sector minimum
    be_cfgs = [tuple(c) for c in case["backend_cfgs"]]
    for mapping, utd in CONFIGS:
        H, nq, idx, w = sector_minimum(mol, p, mapping, utd)
        ref = get_reference_circuit(n, ne, mapping, utd, sp)
        if ref.width != nq and nq > 0:
            raise Fail(f"{mapping}/{utd}: reference circuit width {ref.width}, Hamiltonian register {nq}", sig=f"reference-width:{mapping}")
        k = reference_index(ref, nq)
        e_ref = M.basis_expectation(H.terms, nq, k)
        if abs(e_ref - mol.mf_energy) > TOL_E:
            raise Fail(f"{mapping}/up_then_down={utd}: <ref|H|ref>={e_ref}, mf_energy={mol.mf_energy}",
                       sig=f"mean-field:{mapping}:{'uhf' if mcase['uhf'] else 'restricted'}")
        if (mapping, utd) in be_cfgs and nq > 0:
            e_be = get_backend("cirq").get_expectation_value(H, ref)
            if abs(e_be - mol.mf_energy) > TOL_E:
                raise Fail(f"{mapping}/{utd}: backend expectation of the reference circuit {e_be}, mf_energy={mol.mf_energy}",
                           sig=f"mean-field-backend:{mapping}")
            labels.add("backend-expectation")
        if abs(w[0] - e_ci) > TOL_X:
            phantom = mcase["uhf"] and len(p["act_a"]) != len(p["act_b"]) and w[0] < e_ci
            sig = PHANTOM_SIG if phantom else f"sector-min:{'uhf' if mcase['uhf'] else 'rohf' if mcase['spin'] else 'rhf'}"
            raise Fail(f"{mapping}/up_then_down={utd}: lowest eigenvalue of the qubit Hamiltonian in the (N={ne},Sz={sp / 2}) sector "
                       f"is {w[0]}, CI with the same frozen orbitals gives {e_ci} (sector dims {len(idx)} vs {dim})",
                       sig=sig, mapping=mapping, up_then_down=utd)
        if mapping == "JW" and not mcase["uhf"] and len(idx) != dim:
            raise Fail(f"sector dimension {len(idx)} vs determinant count {dim}", sig="sector-dimension")

    # ---- active-space rotation through the public mo_coeff setter
    rot = case["rot"]
    mo_a, mo_b = M.mo_pair(mol)
    if mcase["uhf"]:
        new_a, new_b = M.rotate_active(mo_a, p["act_a"], rot["a"]), M.rotate_active(mo_b, p["act_b"], rot["b"])
        moved = max(np.max(np.abs(new_a - mo_a)), np.max(np.abs(new_b - mo_b)))
        mol.mo_coeff = [new_a, new_b]
    else:
        new_a = new_b = M.rotate_active(mo_a, p["act_a"], rot["a"])
        moved = np.max(np.abs(new_a - mo_a))
        mol.mo_coeff = new_a.copy()
    if moved > 1e-3:
        labels.add("rotated")
        occ_a, occ_b = M.occupations(mcase, mol)
        for s, act, occ, giv in (("a", p["act_a"], occ_a, rot["a"]), ("b", p["act_b"], occ_b, rot["b"] if mcase["uhf"] else rot["a"])):
            U = M.rotation_matrix(giv, len(act))
            no = sum(1 for i in act if i in occ)
            if 0 < no < len(act) and np.max(np.abs(U[:no, no:])) > 1e-3:
                labels.add("rotation-mixes-occupied-virtual")
    e_ci_rot, _ = M.ci_energy(mcase, mol, mo=(new_a, new_b), part=p)
    if abs(e_ci_rot - e_ci) > TOL_X:
        # orbital invariance of the CI oracle itself: a harness problem, not a Tangelo one
        raise AssertionError(f"CI oracle not invariant under active rotation: {e_ci_rot} vs {e_ci}")
    fop = mol.fermionic_hamiltonian
    for mapping, utd in [tuple(c) for c in case["rot_cfgs"]]:
        H, nq, idx, w = sector_minimum(mol, p, mapping, utd, fop, what="after rotation: ")
        if abs(w[0] - e_ci) > TOL_X:
            raise Fail(f"after an active-space rotation {mapping}/up_then_down={utd}: sector minimum {w[0]}, before {e_ci}",
                       sig=f"rotation:{'uhf' if mcase['uhf'] else 'restricted'}", mapping=mapping)
    nontrivial = max(len(p["act_a"]), len(p["act_b"])) >= 2 and dim >= 2
    return nontrivial, labels


@st.composite
def cases(draw, mol_strategy):
    cfg = st.sampled_from(CONFIGS)
    return {"mol": draw(mol_strategy),
            "rot": {"a": draw(M.rotations()), "b": draw(M.rotations())},
            "rot_cfgs": draw(st.lists(cfg, min_size=2, max_size=2, unique_by=tuple)),
            "backend_cfgs": draw(st.lists(cfg, min_size=1, max_size=2, unique_by=tuple))}


def _bounds(ctx):
    return dict(max_qubits=10, max_kept=6) if ctx.tier == "quick" else dict(max_qubits=10, max_kept=6)


@part("energies", quick=40, thorough=2400)
def energies(ctx):
    """All reference types, all frozen-orbital forms, all molecule families."""
    # the padded UHF register (open finding PHANTOM_SIG) is the subject of the uhf_perspin part; it is kept out of this
    # search by construction so that no budget goes into shrinking a known failure
    ctx.search("energies", cases(M.molecules(**_bounds(ctx)).filter(lambda m: not padded_register({"mol": m}))),
               lambda c: check_molecule(ctx, c),
               exclusions={PHANTOM_SIG: padded_register, FCI_DEGENERATE_SIG: fci_degenerate_class}, shrink_calls=60 if ctx.tier == "quick" else 300)


@st.composite
def uhf_perspin_molecules(draw):
    """UHF with different alpha/beta frozen lists on the hydrogen systems, anions included (padded register)."""
    m = draw(M.molecules(max_qubits=8, max_kept=4, refs=("uhf",), bases=("sto-3g",),
                         families=["H3", "H4-chain", "H4-ring", "H4-3d", "HeH", "He2"], invalid=False))
    ne, n_alpha, n_beta = M.electron_counts([a for a, _ in m["atoms"]], m["q"], m["spin"])
    n_mos = len(m["atoms"])
    fa = draw(st.lists(st.integers(0, n_mos - 1), unique=True, max_size=n_mos - 1).map(sorted))
    fb = draw(st.lists(st.integers(0, n_mos - 1), unique=True, max_size=n_mos - 1).map(sorted))
    if draw(st.booleans()):          # nested lists: the same orbitals frozen for both spins plus extra ones for one spin
        fb = sorted(set(fa) | set(fb))
        if draw(st.booleans()):
            fa, fb = fb, fa
    from hypothesis import assume
    assume(len(fa) != len(fb) and M.contract_ok(n_mos, n_alpha, n_beta, True, [fa, fb]))
    m["frozen"] = [fa, fb]
    return m


@part("uhf_perspin", quick=16, thorough=800)
def uhf_perspin(ctx):
    ctx.search("uhf_perspin", cases(uhf_perspin_molecules()), lambda c: check_molecule(ctx, c),
               exclusions={PHANTOM_SIG: padded_register, FCI_DEGENERATE_SIG: fci_degenerate_class}, shrink_calls=8 if ctx.tier == "quick" else 100)


@part("open_shell_frozen", quick=20, thorough=800)
def open_shell_frozen(ctx):
    """ROHF with frozen orbitals (n_alpha != n_beta active electrons) and symmetric geometries without displacement."""
    ctx.search("rohf", cases(M.molecules(refs=("rohf",), invalid=False, **_bounds(ctx))
                             .filter(lambda m: m["frozen"] not in (None, 0))), lambda c: check_molecule(ctx, c), frac=0.6,
               shrink_calls=60 if ctx.tier == "quick" else 300)
    ctx.search("symmetric", cases(M.molecules(families=list(M.SYMMETRIC_FAMILIES) + ["H4-ring", "BeH2"], invalid=False,
                                              exact_symmetry=True, **_bounds(ctx)).filter(lambda m: not padded_register({"mol": m}))),
               lambda c: check_molecule(ctx, c), frac=0.4,
               exclusions={PHANTOM_SIG: padded_register, FCI_DEGENERATE_SIG: fci_degenerate_class}, shrink_calls=60 if ctx.tier == "quick" else 300)


# ====================================================================================================== histories

def judge_hamiltonian(mol, mcase, p, e_ci, cfgs, fop, mean_field, what):
    """Sector minimum (and, for the molecule's own coefficients, the mean-field identity) of one fermionic Hamiltonian."""
    from tangelo.toolboxes.qubit_mappings.statevector_mapping import get_reference_circuit
    n, ne, sp = mol.n_active_sos, mol.n_active_electrons, mol.active_spin
    kind = "uhf" if mcase["uhf"] else "restricted"
    for mapping, utd in [tuple(c) for c in cfgs]:
        H, nq, idx, w = sector_minimum(mol, p, mapping, utd, fop, what=what + ": ")
        if mean_field:
            k = reference_index(get_reference_circuit(n, ne, mapping, utd, sp), nq)
            e_ref = M.basis_expectation(H.terms, nq, k)
            if abs(e_ref - mol.mf_energy) > TOL_E:
                raise Fail(f"{what}: {mapping}/up_then_down={utd}: <ref|H|ref>={e_ref}, mf_energy={mol.mf_energy}",
                           sig=f"history-mean-field:{kind}")
        if abs(w[0] - e_ci) > TOL_X:
            phantom = mcase["uhf"] and len(p["act_a"]) != len(p["act_b"]) and w[0] < e_ci
            raise Fail(f"{what}: {mapping}/up_then_down={utd}: sector minimum {w[0]}, CI with the same frozen orbitals {e_ci}",
                       sig=PHANTOM_SIG if phantom else f"history-sector-min:{kind}")


def full_space_reference(mcase, mo):
    """(nuclear repulsion, h[p,q], g[p,q,r,s] in the openfermion index order g[p,q,r,s] = (ps|qr)) from AO integrals."""
    pm = M.pyscf_mole(mcase)
    allmo = list(range(mo.shape[1]))
    h, g = refchem.spinorb_integrals(pm, mo, mo, allmo, allmo)
    return pm.energy_nuc(), h["a"], g["aa"].transpose(0, 2, 3, 1)


def check_explicit_coefficients(ctx, case):
    """One restricted molecule object; a drawn sequence of requests with the molecule's own coefficients ("default") and
    with an explicit rotated mo_coeff= argument ("explicit"); each answer judged for the coefficients it was asked for."""
    mcase = case["mol"]
    mol = M.build_molecule(mcase)
    p = M.partition(mcase, mol)
    if mol.n_active_sos > 10:
        raise Skip("harness bound: more than 10 qubits")
    labels = {"ref=" + ("rohf" if mcase["spin"] else "rhf"), "family=" + mcase["family"], "order=" + "".join(s[0] for s in case["steps"]),
              "frozen" if mcase["frozen"] not in (None, 0) else "no-frozen"}
    mo = np.array(M.mo_pair(mol)[0], copy=True)           # taken before any request is made
    mo_rot = M.rotate_active(mo, p["act_a"], case["rot"])
    if np.max(np.abs(mo_rot - mo)) < 1e-3:
        raise Skip("harness: rotation is (numerically) the identity")
    e_ci, dim = M.ci_energy(mcase, mol, mo=(mo, mo), part=p)
    for k, step in enumerate(case["steps"]):
        what = f"request {k + 1} of {case['steps']} ({step} coefficients)"
        C = mo if step == "default" else mo_rot
        fop = mol.fermionic_hamiltonian if step == "default" else mol._get_fermionic_hamiltonian(mo_rot.copy())
        judge_hamiltonian(mol, mcase, p, e_ci, case["cfgs"], fop, step == "default", what)
        # public integral getters with the same argument
        got = mol.get_full_space_integrals() if step == "default" else mol.get_full_space_integrals(mo_rot.copy())
        ref = full_space_reference(mcase, C)
        for name, a, b in zip(("core constant", "one-body integrals", "two-body integrals"), got, ref):
            d = float(np.max(np.abs(np.asarray(a) - np.asarray(b))))
            if d > 1e-7:
                raise Fail(f"{what}: get_full_space_integrals {name} differ from the AO integrals transformed with the requested "
                           f"coefficients by {d:.3e}", sig="history-explicit-mo_coeff:integrals")
        if np.max(np.abs(np.asarray(mol.mo_coeff) - mo)) > 1e-12:
            raise Fail(f"{what}: the molecule's own mo_coeff changed", sig="history-explicit-mo_coeff:coefficients-changed")
    return len(p["act_a"]) >= 2 and dim >= 2, labels


@st.composite
def explicit_cases(draw, mols):
    steps = draw(st.sampled_from([["default", "explicit", "default"], ["explicit", "default", "explicit"], ["explicit", "default"],
                                  ["default", "explicit"], ["explicit", "explicit", "default"]]))
    return {"mol": draw(mols), "rot": draw(M.rotations()), "steps": steps,
            "cfgs": draw(st.lists(st.sampled_from(CONFIGS), min_size=1, max_size=1))}


@part("explicit_coefficients", quick=16, thorough=600)
def explicit_coefficients(ctx):
    mols = M.molecules(max_qubits=8, max_kept=5, refs=("rhf", "rohf"), invalid=False)
    ctx.search("explicit", explicit_cases(mols), lambda c: check_explicit_coefficients(ctx, c),
               shrink_calls=30 if ctx.tier == "quick" else 200)


def check_shared_solver(ctx, case):
    """Several molecules of one family/basis built one after the other with ONE IntegralSolverPySCF instance; each is judged
    right after it was built.  (Earlier molecules are not re-examined: the solver object owns the MO coefficients, so by
    construction an older molecule sharing it sees the newest molecule's coefficients.)"""
    from tangelo.toolboxes.molecular_computation.integral_solver_pyscf import IntegralSolverPySCF
    solver = IntegralSolverPySCF()
    labels, nontrivial, built = {f"molecules={len(case['mols'])}", "family=" + case["mols"][0]["family"]}, False, 0
    for k, mcase in enumerate(case["mols"]):
        try:
            mol = M.build_molecule(mcase, solver=solver)
        except Skip:
            if k == 0:
                raise
            labels.add("later-molecule-rejected")
            continue
        if mol.solver is not solver:
            raise Fail("SecondQuantizedMolecule did not keep the solver instance it was given", sig="history-shared-solver:not-used")
        p = M.partition(mcase, mol)
        if mol.n_active_sos > 10:
            continue
        e_det = M.determinant_energy(mcase, mol)
        if abs(e_det - mol.mf_energy) > TOL_E:
            raise Fail(f"molecule {k + 1}: mf_energy={mol.mf_energy}, occupied determinant {e_det}", sig="mf_energy-vs-determinant")
        e_ci, dim = M.ci_energy(mcase, mol, part=p)
        judge_hamiltonian(mol, mcase, p, e_ci, case["cfgs"], mol.fermionic_hamiltonian, True,
                          f"molecule {k + 1} of {len(case['mols'])} built with one shared IntegralSolverPySCF")
        built += 1
        labels.add("ref=" + ("uhf" if mcase["uhf"] else "rohf" if mcase["spin"] else "rhf"))
        nontrivial |= built >= 2 and dim >= 2
    return nontrivial, labels


@st.composite
def shared_solver_cases(draw):
    fam = draw(st.sampled_from(["H2", "H3", "H4-chain", "H4-3d", "H4-ring", "HeH", "LiH"]))
    basis = draw(st.sampled_from([b for b in M.FAMILIES[fam][2] if b in ("sto-3g", "6-31g")]))
    one = M.molecules(max_qubits=8, max_kept=5, families=[fam], bases=(basis,), invalid=False).filter(lambda m: not padded_register({"mol": m}))
    mols = draw(st.lists(one, min_size=2, max_size=3))
    return {"mols": mols, "cfgs": draw(st.lists(st.sampled_from(CONFIGS), min_size=1, max_size=1))}


@part("shared_solver", quick=12, thorough=500)
def shared_solver(ctx):
    ctx.search("shared_solver", shared_solver_cases(), lambda c: check_shared_solver(ctx, c),
               exclusions={PHANTOM_SIG: lambda c: any(padded_register({"mol": m}) for m in c["mols"])},
               shrink_calls=30 if ctx.tier == "quick" else 200)


# ------------------------------------------------------------------------------------------------ setter histories

def _coeff_copy(mo):
    return [np.array(x, copy=True) for x in mo] if isinstance(mo, (list, tuple)) else np.array(mo, copy=True)


def _coeff_diff(a, b):
    if isinstance(a, (list, tuple)) or isinstance(b, (list, tuple)) or np.ndim(a) == 3:
        return max(float(np.max(np.abs(np.asarray(x) - np.asarray(y)))) for x, y in zip(a, b))
    return float(np.max(np.abs(np.asarray(a) - np.asarray(b))))


def judge_reported(mol, mcase, cfgs, what, labels=None):
    """Self-consistency of ONE molecule object at one point of a history: with the coefficients it reports through its
    mo_coeff getter (and its own frozen orbitals), <ref|H|ref> = energy of the occupied determinant, the sector minimum of the
    qubit Hamiltonian = independent CI = FCISolver(mol) (restricted)."""
    from tangelo.toolboxes.qubit_mappings.statevector_mapping import get_reference_circuit
    from tangelo.algorithms.classical import FCISolver
    p = M.partition(mcase, mol)
    n, ne, sp = mol.n_active_sos, mol.n_active_electrons, mol.active_spin
    if n != p["n_sos"] or tuple(mol.n_active_ab_electrons) != (p["na"], p["nb"]):
        raise Fail(f"{what}: n_active_sos={n}, active electrons {mol.n_active_ab_electrons}; expected {p['n_sos']}, ({p['na']},{p['nb']})",
                   sig="history-bookkeeping")
    if n > 10:
        raise Skip("harness bound: more than 10 qubits")
    kind = "uhf" if mcase["uhf"] else "restricted"
    e_det = M.determinant_energy(mcase, mol)          # occupied columns of the REPORTED coefficients
    e_ci, dim = M.ci_energy(mcase, mol, part=p)       # CI with the REPORTED coefficients and this molecule's frozen orbitals
    fop = mol.fermionic_hamiltonian
    for mapping, utd in [tuple(c) for c in cfgs]:
        H, nq, idx, w = sector_minimum(mol, p, mapping, utd, fop, what=what + ": ")
        k = reference_index(get_reference_circuit(n, ne, mapping, utd, sp), nq)
        e_ref = M.basis_expectation(H.terms, nq, k)
        if abs(e_ref - e_det) > TOL_E:
            raise Fail(f"{what}: {mapping}/up_then_down={utd}: <ref|H|ref>={e_ref}, the occupied determinant of the coefficients "
                       f"reported by mo_coeff has energy {e_det}", sig=f"history-setter:reference-energy:{kind}")
        if abs(w[0] - e_ci) > TOL_X:
            raise Fail(f"{what}: {mapping}/up_then_down={utd}: sector minimum {w[0]}, CI with the reported coefficients and this "
                       f"molecule's frozen orbitals {e_ci}", sig=f"history-setter:sector-min:{kind}")
    if not mcase["uhf"]:
        e_fci = FCISolver(mol).simulate()
        if abs(e_fci - e_ci) > TOL_E:
            waived = False
            if mcase["spin"] == 0 and mol.frozen_mos is None and e_fci > e_ci:
                e_t, _ = M.ci_energy(mcase, mol, part=dict(p, na=p["na"] + 1, nb=p["nb"] - 1))
                waived = abs(e_t - e_ci) < TOL_X
            if not waived:
                raise Fail(f"{what}: FCISolver={e_fci}, qubit Hamiltonian / CI with the reported coefficients={e_ci}",
                           sig="history-setter:fci-solver-vs-hamiltonian")
    return p, e_ci, dim


def rotated_coefficients(mol, mcase, p, rot):
    mo_a, mo_b = M.mo_pair(mol)
    if mcase["uhf"]:
        return [M.rotate_active(mo_a, p["act_a"], rot["a"]), M.rotate_active(mo_b, p["act_b"], rot["b"])]
    return M.rotate_active(mo_a, p["act_a"], rot["a"])


def check_roundtrip(ctx, case):
    """c0 = mol.mo_coeff (the object itself); mol.mo_coeff = rotated; mol.mo_coeff = c0."""
    mcase = case["mol"]
    mol = M.build_molecule(mcase)
    labels = {"ref=" + ("uhf" if mcase["uhf"] else "rohf" if mcase["spin"] else "rhf"), "family=" + mcase["family"]}
    c0 = mol.mo_coeff                      # the caller keeps what the getter handed out
    keep = _coeff_copy(c0)
    p, e_ci, dim = judge_reported(mol, mcase, case["cfgs"], "before the rotation")
    new = rotated_coefficients(mol, mcase, p, case["rot"])
    if _coeff_diff(new, keep) < 1e-3:
        raise Skip("harness: rotation is (numerically) the identity")
    mol.mo_coeff = new
    if _coeff_diff(c0, keep) > 0:
        raise Fail("assigning mol.mo_coeff overwrote the array previously returned by the mo_coeff getter", sig="history-setter:getter-array-overwritten")
    _, e_rot, _ = judge_reported(mol, mcase, case["cfgs"], "after mol.mo_coeff = rotated")
    if abs(e_rot - e_ci) > TOL_X:
        raise AssertionError("CI oracle not invariant under an active rotation")
    mol.mo_coeff = c0
    if _coeff_diff(c0, keep) > 0:
        raise Fail("restoring mol.mo_coeff = c0 changed the caller's array c0", sig="history-setter:getter-array-overwritten")
    if _coeff_diff(mol.mo_coeff, keep) > 1e-12:
        raise Fail(f"after mol.mo_coeff = c0 the getter differs from the original coefficients by {_coeff_diff(mol.mo_coeff, keep):.2e}",
                   sig="history-setter:restore-ineffective")
    from tangelo.toolboxes.qubit_mappings.statevector_mapping import get_reference_circuit
    judge_reported(mol, mcase, case["cfgs"], "after restoring mol.mo_coeff = c0")
    n, ne, sp = mol.n_active_sos, mol.n_active_electrons, mol.active_spin
    mapping, utd = tuple(case["cfgs"][0])
    H, nq, idx, w = sector_minimum(mol, p, mapping, utd, what="after restoring: ")
    e_ref = M.basis_expectation(H.terms, nq, reference_index(get_reference_circuit(n, ne, mapping, utd, sp), nq))
    if abs(e_ref - mol.mf_energy) > TOL_E or abs(w[0] - e_ci) > TOL_X:
        raise Fail(f"after the round trip <ref|H|ref>={e_ref} (mf_energy {mol.mf_energy}), sector minimum {w[0]} (CI {e_ci})",
                   sig="history-setter:roundtrip-energy")
    return max(len(p["act_a"]), len(p["act_b"])) >= 2 and dim >= 2, labels


def check_parent_copy(ctx, case):
    """A = molecule; B = A.freeze_mos(f1, inplace=False); optionally C = (A or B).freeze_mos(f2, inplace=False); then mo_coeff of
    one of them is assigned (rotation among ITS active orbitals; it may cross the others' frozen/active border).  Whatever
    the sharing semantics, every molecule object must stay self-consistent with the coefficients it reports."""
    mcase = case["mol"]
    A = M.build_molecule(mcase)
    mols = [("A", A, mcase)]
    for k, (fr, parent) in enumerate(case["copies"]):
        src = mols[min(parent, len(mols) - 1)][1]
        f = [list(x) for x in fr] if (isinstance(fr, list) and fr and isinstance(fr[0], list)) else (list(fr) if isinstance(fr, list) else fr)
        X = src.freeze_mos(f, inplace=False)
        if X is None or X is src:
            raise Fail("freeze_mos(inplace=False) did not return a new molecule", sig="history-copy:not-a-copy")
        mols.append(("BC"[k], X, dict(mcase, frozen=fr)))
    for name, X, xc in mols:
        if padded_register({"mol": xc}):
            raise Skip("harness: padded UHF register (open finding) kept out of this search")
    labels = {"ref=" + ("uhf" if mcase["uhf"] else "rohf" if mcase["spin"] else "rhf"), f"objects={len(mols)}", "family=" + mcase["family"]}
    for name, X, xc in mols:
        judge_reported(X, xc, case["cfgs"], f"{name} before any assignment")
    nontrivial = False
    for step, (who, rot) in enumerate(case["assign"]):
        name, X, xc = mols[min(who, len(mols) - 1)]
        p = M.partition(xc, X)
        new = rotated_coefficients(X, xc, p, rot)
        before = {n_: _coeff_copy(Y.mo_coeff) for n_, Y, _ in mols}
        X.mo_coeff = new
        for n2, Y, yc in mols:
            tag = f"step {step + 1}: {n2} after {name}.mo_coeff = rotation among {name}'s active orbitals"
            py, e_ci, dim = judge_reported(Y, yc, case["cfgs"], tag)
            shared = _coeff_diff(Y.mo_coeff, new) < 1e-12
            labels.add(f"{'assigned' if Y is X else 'other'}-object-reports-{'new' if shared else 'old'}-coefficients")
            if Y is not X and _coeff_diff(new, before[name]) > 1e-3:
                fa, fb = per_spin_frozen(yc)
                Ua = M.rotation_matrix(rot["a"], len(p["act_a"]))
                act = p["act_a"]
                if any(abs(Ua[i, j]) > 1e-3 for i, qi in enumerate(act) for j, qj in enumerate(act) if (qi in fa) != (qj in fa)):
                    labels.add("rotation-crosses-other-object's-frozen/active-border")
                nontrivial |= dim >= 2
    return nontrivial, labels


@st.composite
def roundtrip_cases(draw, mols):
    return {"mol": draw(mols), "rot": {"a": draw(M.rotations()), "b": draw(M.rotations())},
            "cfgs": draw(st.lists(st.sampled_from(CONFIGS), min_size=1, max_size=1))}


@st.composite
def parent_copy_cases(draw, mols):
    m = draw(mols)
    if M.n_mos_of([a for a, _ in m["atoms"]], m["basis"]) <= 4 and draw(st.booleans()):
        m = dict(m, frozen=None)       # a parent with everything active: the copies' frozen orbitals are then active in the parent
    ncopies = draw(st.sampled_from([1, 1, 2]))
    elements = [a for a, _ in m["atoms"]]
    n_mos = M.n_mos_of(elements, m["basis"])
    _, n_alpha, n_beta = M.electron_counts(elements, m["q"], m["spin"])

    def border_spec():
        """Frozen list for a copy that freezes one or two orbitals which are ACTIVE in the parent case (so that a rotation
        among the parent's active orbitals crosses the copy's frozen/active border)."""
        from hypothesis import assume
        fa = per_spin_frozen(m)[0]
        active = [i for i in range(n_mos) if i not in fa]
        picks = draw(st.lists(st.sampled_from(active), unique=True, min_size=1, max_size=2))
        fr = sorted(set(draw(st.sampled_from([[], fa]))) | set(picks))
        assume(n_mos - len(fr) <= 4 and n_mos - len([i for i in fr if i >= n_alpha]) <= 5)
        fr = [fr, list(fr)] if m["uhf"] else fr
        assume(M.contract_ok(n_mos, n_alpha, n_beta, bool(m["uhf"]), fr))
        return fr

    copies = [[border_spec() if draw(st.sampled_from([True, True, False])) else draw(M.frozen_for(m, 8, 5)), draw(st.integers(0, k))]
              for k in range(ncopies)]      # [frozen spec, parent index]
    rot = lambda: {"a": draw(M.rotations()), "b": draw(M.rotations())}
    assign = [[draw(st.integers(0, ncopies)), rot()] for _ in range(draw(st.sampled_from([1, 1, 2])))]
    return {"mol": m, "copies": copies, "assign": assign, "cfgs": draw(st.lists(st.sampled_from(CONFIGS), min_size=1, max_size=1))}


@part("setter_histories", quick=20, thorough=600)
def setter_histories(ctx):
    not_padded = lambda m: not padded_register({"mol": m})
    mols = M.molecules(max_qubits=8, max_kept=5, invalid=False).filter(not_padded)
    sc = 30 if ctx.tier == "quick" else 200
    ctx.search("roundtrip", roundtrip_cases(mols), lambda c: check_roundtrip(ctx, c), frac=0.4, shrink_calls=sc)
    restricted = M.molecules(max_qubits=8, max_kept=5, invalid=False, refs=("rhf", "rohf"))
    ctx.search("parent_copy", parent_copy_cases(st.one_of(restricted, restricted, restricted, mols)),
               lambda c: check_parent_copy(ctx, c), frac=0.6, shrink_calls=sc)
