"""C05 - reference-state circuits encode the requested occupations (exhaustive sweeps over small registers)."""
import numpy as np
from hypothesis import strategies as st

from vlib.runner import part, Fail, Skip
from vlib import refsim as R, refops as F

PROPERTY = "C05"
RULE = ("Exhaustive enumeration. hf_form: every n_spinorbitals in {2,4,6,8} (10 in thorough) x every n_electrons 0..n x every "
        "admissible spin (n_alpha,n_beta <= n/2; also spin=None and spin=0 for every electron number) x {JW,BK,scBK(n>=4),JKMN} "
        "x up_then_down in {False,True} through get_reference_circuit. vector_form: every one of the 2^n occupation vectors x the "
        "same encodings/orderings through get_mapped_vector + vector_to_circuit. Oracle: the circuit has only plain X gates on "
        "get_qubit_number qubits, and for every spin-orbital p the diagonal element of fermion_to_qubit_mapping(a_p^ a_p, ...) on "
        "the prepared bit string equals the requested occupation (1e-12); every 5th case is also evaluated through the cirq "
        "backend's get_expectation_value. arg_forms (sampled Hypothesis search, NOT exhaustive): the same two entry points with "
        "n_electrons/spin as int|np.int64|np.int32, up_then_down as bool|0/1|np.bool_, the occupation vector as list|tuple|ndarray "
        "(int64,int32,bool); the same ndarray handed to two successive calls must stay unchanged and give the same answer; an array "
        "returned by get_vector/get_mapped_vector is overwritten in place and the identical call plus get_reference_circuit must "
        "still give the requested occupations. Non-trivial = 0 < n_electrons < n_spinorbitals. Distinct = distinct "
        "(form, n, electrons/spin or vector, encoding, ordering).")
ASSUMPTIONS = ["diagonal element of a Pauli sum on a computational basis state = sum of coefficients of its Z-only words times "
               "the product of (-1)^bit (self-tested against the dense Pauli matrices of vlib/refsim.py)",
               "requested occupation for spin=None/0 is the documented aufbau filling of the first n_electrons spin-orbitals "
               "(alternating alpha/beta); the operator encoder is then called with its default spin=0",
               "for a user vector the operator encoder is called with n_electrons=sum(vector), spin=n_alpha-n_beta of that vector",
               "scBK needs n_spinorbitals >= 4 (two qubits are removed)", "cirq backend for the sampled sub-set",
               "arg_forms: all listed numpy/sequence argument forms are accepted by the state-preparation functions of the pinned "
               "tree (established by experiment); the operator encoder of the oracle is always called with plain Python int/bool"]
EXHAUSTIVE = True
SHARDS = {"quick": 4, "thorough": 16}

MAPPINGS = ["JW", "BK", "SCBK", "JKMN"]


def diag_expect(terms, bits):
    """<bits| sum_k c_k P_k |bits> for a Pauli sum given as openfermion-style terms."""
    tot = 0.0
    for term, c in terms.items():
        if any(P != "Z" for _, P in term):
            continue
        s = 0
        for q, _ in term:
            if q >= len(bits) or q < 0:
                raise Fail(f"number operator acts on qubit {q} outside the {len(bits)}-qubit register", sig="numop:outside-register")
            s += bits[q]
        tot += c * (-1) ** s
    return tot


def selftest():
    F.selftest()
    terms = {(): 0.3, ((0, "Z"),): -0.5, ((0, "Z"), (2, "Z")): 0.25, ((1, "X"),): 2.0, ((1, "Y"), (2, "Z")): 1j, ((1, "Z"),): 0.125j}
    M = R.qop_matrix(terms, 3)
    for x in range(8):
        bits = F.bits_of(x, 3)
        assert abs(diag_expect(terms, bits) - M[x, x]) < 1e-14


def admissible_spins(n, ne):
    out = []
    for spin in range(-ne, ne + 1):
        if (ne + spin) % 2:
            continue
        na, nb = (ne + spin) // 2, (ne - spin) // 2
        if 0 <= na <= n // 2 and 0 <= nb <= n // 2:
            out.append(spin)
    return out


def circuit_bits(circ, nq, where):
    """Bit string prepared from |0...0> by a circuit that may only contain plain X gates."""
    if circ.width != nq:
        raise Fail(f"{where}: circuit width {circ.width}, get_qubit_number says {nq}", sig=f"{where}:width")
    bits = [0] * nq
    for g in circ:
        if g.name != "X" or g.control or len(g.target) != 1 or g.parameter not in ("", None):
            raise Fail(f"{where}: non-X gate {g}", sig=f"{where}:non-X-gate")
        bits[g.target[0]] ^= 1
    return bits


def check_occupations(where, circ, occ, mapping, n, ne, utd, spin, use_backend):
    from tangelo.toolboxes.operators import FermionOperator
    from tangelo.toolboxes.qubit_mappings.mapping_transform import fermion_to_qubit_mapping, get_qubit_number
    nq = get_qubit_number(mapping, n)
    bits = circuit_bits(circ, nq, where)
    be = None
    if use_backend:
        from tangelo.linq import get_backend
        be = get_backend("cirq")
    for p in range(n):
        qop = fermion_to_qubit_mapping(FermionOperator(((p, 1), (p, 0))), mapping, n, ne, utd, spin)
        val = diag_expect(qop.terms, bits)
        if abs(val - occ[p]) > 1e-12:
            raise Fail(f"{where}: <n_{p}> = {val} on prepared state {bits}, requested occupation {occ[p]} "
                       f"(mapping={mapping}, n={n}, n_electrons={ne}, spin={spin}, up_then_down={utd})",
                       sig=f"{where}:{mapping.upper()}:occupation", bits=bits, occ=list(occ), orbital=p)
        if be is not None:
            e = be.get_expectation_value(qop, circ)
            if abs(e - occ[p]) > 1e-8:
                raise Fail(f"{where}: backend expectation of n_{p} is {e}, requested occupation {occ[p]}",
                           sig=f"{where}:{mapping.upper()}:occupation-backend", bits=bits, occ=list(occ), orbital=p)
    return bits


def hf_occupation(n, ne, spin):
    occ = [0] * n
    if spin:
        na, nb = (ne + spin) // 2, (ne - spin) // 2
        for i in range(na):
            occ[2 * i] = 1
        for i in range(nb):
            occ[2 * i + 1] = 1
    else:
        for p in range(ne):
            occ[p] = 1
    return occ


def hf_cases(sizes):
    out = []
    for n in sizes:
        for ne in range(n + 1):
            spins = [None, 0] + [s for s in admissible_spins(n, ne) if s != 0]
            for spin in spins:
                for m in MAPPINGS:
                    if m == "SCBK" and n < 4:
                        continue
                    for utd in (False, True):
                        out.append({"n": n, "ne": ne, "spin": spin, "mapping": m, "utd": utd})
    for i, c in enumerate(out):
        c["be"] = (i % 5 == 0)
    return out


def vec_cases(sizes):
    out = []
    for n in sizes:
        for x in range(2 ** n):
            vec = F.bits_of(x, n)
            for m in MAPPINGS:
                if m == "SCBK" and n < 4:
                    continue
                for utd in (False, True):
                    out.append({"n": n, "vec": vec, "mapping": m, "utd": utd})
    for i, c in enumerate(out):
        c["be"] = (i % 5 == 0)
    return out


def common_labels(mapping, utd, n, ne, na, bits, occ_ordered):
    lab = {f"{mapping}", f"{mapping}:utd={utd}", f"n={n}"}
    if mapping == "JKMN" and list(bits) != list(occ_ordered):
        lab.add("JKMN:prep-vector-differs-from-occupations")
    if mapping == "BK" and list(bits) != list(occ_ordered):
        lab.add("BK:encoded-differs-from-occupations")
    if mapping == "SCBK":
        # the two deleted qubits hold N_alpha mod 2 (middle) and N mod 2 (last) in the tree encoding
        if na % 2:
            lab.add("scBK:deleted-middle-qubit-was-1")
        if ne % 2:
            lab.add("scBK:deleted-last-qubit-was-1")
    return lab


@part("hf_form", quick=1300, thorough=2300)
def hf_form(ctx):
    import warnings
    from tangelo.toolboxes.qubit_mappings.statevector_mapping import get_reference_circuit
    sizes = (2, 4, 6, 8) if ctx.tier == "quick" else (2, 4, 6, 8, 10)

    def body(case):
        n, ne, spin, m, utd = case["n"], case["ne"], case["spin"], case["mapping"], case["utd"]
        occ = hf_occupation(n, ne, spin)
        with warnings.catch_warnings():
            warnings.simplefilter("ignore", RuntimeWarning)    # documented: scBK enforces up-then-down ordering
            circ = get_reference_circuit(n, ne, m, utd, spin) if spin is not None else get_reference_circuit(n, ne, m, up_then_down=utd)
        op_spin = 0 if spin is None else spin
        bits = check_occupations("get_reference_circuit", circ, occ, m, n, ne, utd, op_spin, case.get("be"))
        na = sum(occ[0::2])
        ordered = occ[0::2] + occ[1::2] if utd else occ
        lab = common_labels(m, utd, n, ne, na, bits, ordered)
        if ne % 2:
            lab.add("odd-electrons")
            if spin is not None and spin < 0:
                lab.add("odd-electrons&negative-spin")
            if not spin:
                lab.add("odd-electrons&spin-unspecified-or-0")
        if spin is None:
            lab.add("spin=None")
        elif spin < 0:
            lab.add("negative-spin")
        elif spin > 1:
            lab.add("high-spin")
        if case.get("be"):
            lab.add("via-backend")
        return 0 < ne < n, lab

    ctx.sweep("hf_form", hf_cases(sizes), body)


@part("vector_form", quick=2700, thorough=10900)
def vector_form(ctx):
    import warnings
    from tangelo.toolboxes.qubit_mappings.statevector_mapping import get_mapped_vector, vector_to_circuit
    sizes = (2, 4, 6, 8) if ctx.tier == "quick" else (2, 4, 6, 8, 10)

    def body(case):
        n, vec, m, utd = case["n"], case["vec"], case["mapping"], case["utd"]
        occ = list(vec)
        na, nb = sum(occ[0::2]), sum(occ[1::2])
        ne = na + nb
        arr = np.array(occ, dtype=int)
        with warnings.catch_warnings():
            warnings.simplefilter("ignore", RuntimeWarning)
            mapped = get_mapped_vector(arr, m, utd)
        if list(arr) != occ:
            raise Fail("get_mapped_vector modified the user's occupation vector", sig="get_mapped_vector:mutates-input")
        circ = vector_to_circuit(mapped)
        bits = check_occupations("get_mapped_vector", circ, occ, m, n, ne, utd, na - nb, case.get("be"))
        ordered = occ[0::2] + occ[1::2] if utd else occ
        lab = common_labels(m, utd, n, ne, na, bits, ordered)
        if occ != hf_occupation(n, ne, na - nb):
            lab.add("non-aufbau")
        if ne % 2 and na < nb:
            lab.add("odd-electrons&negative-spin")
        if case.get("be"):
            lab.add("via-backend")
        return 0 < ne < n, lab

    ctx.sweep("vector_form", vec_cases(sizes), body)


# =============================================================================================== argument forms and aliasing

INT_FORMS = {"int": int, "int64": np.int64, "int32": np.int32}
FLAG_FORMS = {"bool": bool, "int": int, "np_bool": np.bool_}
VEC_FORMS = {"list": list, "tuple": tuple, "int64": lambda o: np.array(o, dtype=np.int64),
             "int32": lambda o: np.array(o, dtype=np.int32), "bool": lambda o: np.array(o, dtype=bool)}


def number_ops(mapping, n, ne, utd, spin):
    from tangelo.toolboxes.operators import FermionOperator
    from tangelo.toolboxes.qubit_mappings.mapping_transform import fermion_to_qubit_mapping
    return [fermion_to_qubit_mapping(FermionOperator(((p, 1), (p, 0))), mapping, n, ne, utd, spin).terms for p in range(n)]


def verify_vector(where, vec, ops, occ, mapping, n, step):
    """vector -> circuit -> bit string -> diagonal elements of the encoded number operators."""
    from tangelo.toolboxes.qubit_mappings.statevector_mapping import vector_to_circuit
    from tangelo.toolboxes.qubit_mappings.mapping_transform import get_qubit_number
    circ = vec if hasattr(vec, "width") else vector_to_circuit(vec)
    bits = circuit_bits(circ, get_qubit_number(mapping, n), where)
    for p in range(n):
        val = diag_expect(ops[p], bits)
        if abs(val - occ[p]) > 1e-12:
            raise Fail(f"{where} [{step}]: <n_{p}> = {val} on prepared state {bits}, requested occupation {occ[p]} (mapping={mapping}, n={n})",
                       sig=f"{where}:{mapping.upper()}:occupation:arg-forms", bits=bits, occ=list(occ), orbital=p)
    return bits


def scribble(out):
    """Overwrite a returned vector in place (what a caller may legitimately do with its own result). Returns False if immutable."""
    if isinstance(out, np.ndarray):
        out[...] = (out == 0)
        return True
    if isinstance(out, list):
        out[:] = [0 if x else 1 for x in out]
        return True
    return False


@st.composite
def form_cases(draw):
    n = draw(st.sampled_from([2, 4, 4, 6, 6, 8]))
    mapping = draw(st.sampled_from([m for m in MAPPINGS + ["SCBK", "JKMN"] if not (m == "SCBK" and n < 4)]))
    c = {"n": n, "mapping": mapping, "utd": draw(st.booleans()), "utd_form": draw(st.sampled_from(sorted(FLAG_FORMS)))}
    if draw(st.booleans()):
        c["kind"] = "hf"
        c["ne"] = draw(st.integers(0, n))
        nonzero = [s for s in admissible_spins(n, c["ne"]) if s != 0]
        c["spin"] = draw(st.sampled_from(nonzero * 3 + [None, 0]))
        c["ne_form"] = draw(st.sampled_from(sorted(INT_FORMS)))
        c["spin_form"] = draw(st.sampled_from(sorted(INT_FORMS)))
    else:
        c["kind"] = "vec"
        c["vec"] = draw(st.lists(st.integers(0, 1), min_size=n, max_size=n))
        c["vec_form"] = draw(st.sampled_from(sorted(VEC_FORMS)))
    return c


@part("arg_forms", quick=800, thorough=20000)
def arg_forms(ctx):
    import warnings
    from tangelo.toolboxes.qubit_mappings.statevector_mapping import get_vector, get_mapped_vector, get_reference_circuit

    def body(case):
        n, m, utd = case["n"], case["mapping"], case["utd"]
        utd_a = FLAG_FORMS[case["utd_form"]](utd)
        lab = {m, "utd_form=" + case["utd_form"] + f":{utd}", "kind=" + case["kind"]}
        with warnings.catch_warnings():
            warnings.simplefilter("ignore", RuntimeWarning)    # documented: scBK enforces up-then-down ordering
            if case["kind"] == "hf":
                ne, spin = case["ne"], case["spin"]
                occ = hf_occupation(n, ne, spin)
                ops = number_ops(m, n, ne, utd, 0 if spin is None else spin)
                ne_a = INT_FORMS[case["ne_form"]](ne)
                spin_a = None if spin is None else INT_FORMS[case["spin_form"]](spin)
                lab |= {"ne_form=" + case["ne_form"], "spin_form=" + ("None" if spin is None else case["spin_form"])}
                if spin and case["spin_form"] != "int":
                    lab.add("numpy-nonzero-spin")
                v1 = get_vector(n, ne_a, m, utd_a, spin_a)
                verify_vector("get_vector", v1, ops, occ, m, n, "first-call")
                verify_vector("get_reference_circuit", get_reference_circuit(n, ne_a, m, utd_a, spin_a), ops, occ, m, n, "first-call")
                if scribble(v1):
                    lab.add("returned-array-overwritten")
                verify_vector("get_vector", get_vector(n, ne_a, m, utd_a, spin_a), ops, occ, m, n, "after-overwriting-earlier-result")
                verify_vector("get_reference_circuit", get_reference_circuit(n, ne_a, m, utd_a, spin_a), ops, occ, m, n,
                              "after-overwriting-earlier-result")
            else:
                occ = list(case["vec"])
                na, nb = sum(occ[0::2]), sum(occ[1::2])
                ne = na + nb
                ops = number_ops(m, n, ne, utd, na - nb)
                make = VEC_FORMS[case["vec_form"]]
                lab.add("vec_form=" + case["vec_form"])
                arr = make(occ)
                keep = list(arr)
                o1 = get_mapped_vector(arr, m, utd_a)
                o2 = get_mapped_vector(arr, m, utd_a)
                if [int(x) for x in arr] != [int(x) for x in keep] or type(arr) is not type(make(occ)):
                    raise Fail("get_mapped_vector modified the user's occupation vector", sig="get_mapped_vector:mutates-input")
                verify_vector("get_mapped_vector", o1, ops, occ, m, n, "first-call")
                verify_vector("get_mapped_vector", o2, ops, occ, m, n, "same-object-second-call")
                o3 = get_mapped_vector(make(occ), m, utd_a)
                if scribble(o3):
                    lab.add("returned-array-overwritten")
                verify_vector("get_mapped_vector", get_mapped_vector(make(occ), m, utd_a), ops, occ, m, n, "after-overwriting-earlier-result")
        return 0 < ne < n, lab

    ctx.search("arg_forms", form_cases(), body)
