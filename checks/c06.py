"""C06 - Pauli-exponential and time-evolution circuits implement exp(-itH).

(a) exp_pauliword_to_gates(word, c, control) == controlled(expm(-i c P))   exactly, no phase freedom.
(b) get_exponentiated_qubit_operator_circuit / trotterize / TrotterSuzukiUnitary.build_circuit:
    phase * unitary(circuit) == expm(-i t H) (1e-8) when all terms commute, otherwise the spectral-norm error is below
    the rigorous product-formula commutator bound (orders 1, 2); orders 4, 6 ("convergence"): rigorous order-p
    Taylor-remainder bound plus the observed convergence rate between r and 2r steps.
"""
import itertools
from math import pi, factorial

import numpy as np
from scipy.linalg import expm
from hypothesis import strategies as st

from vlib.runner import part, Fail, Skip
from vlib import refsim as R, refops as O
from vlib.strategies import circuit_to_recs

PROPERTY = "C06"
RULE = ("(a) exhaustive sweep of all 63 non-identity Pauli words on 3 letters x 15 coefficients {0,+-1e-12,+-0.37,+-pi/2,+-pi,"
        "+-2pi,+-7.1,+-40.3} x 11 control layouts (none / int / 1-,2-,3-element lists placed below, between and above the "
        "word's support, incl. lists containing qubit 0), plus Hypothesis-generated unsorted words on <=5 of <=7 qubits with "
        "random coefficients; oracle = controlled scipy expm(-i c P), compared entry-wise with NO phase freedom (1e-8). "
        "Non-trivial = word weight >= 2 or a control present. "
        "(b) Hypothesis-generated qubit operators (1-6 real-coefficient Pauli terms incl. identity term, qubit-wise-commuting / "
        "XX,YY,ZZ / random families) and Hermitian fermionic operators (JW/BK/scBK/JKMN, both spin orderings), scalar or "
        "per-term times, orders 1/2 (4/6 separately), 1-4 Trotter steps, controls none/int/list, return_phase on/off, "
        "pauli_order, TrotterSuzukiUnitary time/repeat; oracle = scipy expm(-i t H) with H from vlib Pauli/Fock matrices: "
        "equality (1e-8) when all terms commute, else spectral-norm error <= Childs-et-al. commutator bound (order 1, 2); orders 4, 6: "
        "error <= order-p Taylor remainder bound at r and 2r steps and error(2r) <= 2 * 2^-p * error(r) when error(r) >= 1e-9. Non-trivial = (commuting: >=2 non-zero terms or non-zero identity term "
        "or control) / (non-commuting: bound < 1; orders 4, 6: rate criterion active). Every case builds its argument objects (operator, time dict, "
        "control list, pauli_order, mapping_options) once, calls the function twice on them (second call with its own order / steps), judges both "
        "results and compares the objects with snapshots after each call (argument mutation = violation). Distinct = distinct canonical JSON of the case.")
ASSUMPTIONS = ["numpy/scipy linear algebra (scipy.linalg.expm, 2-norm by SVD)",
               "reference gate table vlib/refsim.py (self-tested against expm) with XX/RZ/PHASE conventions of DESIGN section 3",
               "product-formula bounds: Childs, Su, Tran, Wiebe, Zhu 2021 Prop. 9/10 evaluated on the input term order and its "
               "reverse (max of both); fermionic inputs use the order-independent triangle-inequality relaxation; orders 4/6 use "
               "the Taylor-remainder bound 2 r (L|t|/r)^(p+1)/(p+1)! e^(L|t|/r); all self-tested on an independent expm product formula",
               "orders 4/6 rate criterion error(2r) <= 2 * 2^-p * error(r) is asymptotic, not rigorous: genuine Suzuki formulas measured at "
               "0.76..1.03 * 2^-p for per-step exponent norm <= 4 (900 random Hamiltonians), an order p-2 formula gives 4 * 2^-p; asserted only "
               "for error(r) >= 1e-9",
               "fermionic inputs: the Hamiltonian matrix is the independent Fock-space matrix for JW; for BK/scBK/JKMN the "
               "operator returned by fermion_to_qubit_mapping is trusted (examined by C03)",
               "terms with |coef*t| <= 1e-10 may be dropped by the code; tolerance widened by 1e-10 per exponential factor",
               "controls are python ints / lists of ints disjoint from the operator support; coefficients real (Hermitian H)",
               "<= 7 qubits including controls"]
EXHAUSTIVE = False     # only the Pauli-word sweep enumerates its (finite) sub-domain completely; the property's domain is not exhausted
SHARDS = {"quick": 4, "thorough": 16}

TOL = 1e-8


# ------------------------------------------------------------------------------------------------- oracle helpers

def snap(x):
    """Plain, order- and type-sensitive snapshot of an argument object (dict order matters: it is the Trotter order)."""
    if isinstance(x, dict):
        return ("dict", [(snap(k), snap(v)) for k, v in x.items()])
    if isinstance(x, (list, tuple)):
        return (type(x).__name__, [snap(v) for v in x])
    return (type(x).__name__, repr(x))


def snap_args(args):
    return {k: snap(v) for k, v in args.items()}


def check_args(before, args, what, call):
    """args: {name: object handed to the code under test}. Fail if any differs from its snapshot taken before the calls."""
    for k, v in args.items():
        if snap(v) != before[k]:
            raise Fail(f"{what}: call #{call} changed the caller's `{k}` argument: before {before[k]!r:.300}, after {snap(v)!r:.300}",
                       sig=f"{what}:argument-mutated:{k}")


def ctrl_list(control):
    if control is None:
        return []
    if isinstance(control, int):
        return [control]
    return list(control)


def ctrl_mask(cl, n):
    """0/1 vector: 1 where every qubit of cl is 1 (qubit 0 = most significant bit)."""
    idx = np.arange(2 ** n)
    m = np.ones(2 ** n)
    for q in cl:
        m = m * ((idx >> (n - 1 - q)) & 1)
    return m


def controlled(E, cl, n):
    """E must act as the identity on the control qubits. Returns |off><off| (x) I + |on><on| (x) E."""
    if not cl:
        return E
    m = ctrl_mask(cl, n)
    return np.diag(1 - m).astype(complex) + m[:, None] * E


def tup(term):
    return tuple((int(q), str(p)) for q, p in term)


def specnorm(M):
    return float(np.linalg.norm(M, 2)) if M.size else 0.0


def comm(A, B):
    return A @ B - B @ A


def bound1_ordered(Hs):
    """sum_j || [sum_{k>j} H_k, H_j] ||   (Childs et al. Prop. 9, without t^2/2)."""
    tot = 0.0
    for j in range(len(Hs) - 1):
        A = sum(Hs[j + 1:])
        tot += specnorm(comm(A, Hs[j]))
    return tot


def bound2_ordered(Hs):
    """1/12 sum_j ||[A_j,[A_j,H_j]]|| + 1/24 sum_j ||[H_j,[H_j,A_j]]||, A_j = sum_{k>j} H_k  (Prop. 10, without t^3)."""
    tot = 0.0
    for j in range(len(Hs) - 1):
        A = sum(Hs[j + 1:])
        tot += specnorm(comm(A, comm(A, Hs[j]))) / 12 + specnorm(comm(Hs[j], comm(Hs[j], A))) / 24
    return tot


def bound_sym(terms, order):
    """Order-independent relaxation (triangle inequality) of the two bounds for Pauli terms {word: coef}:
    ||[cP, dQ]|| = 2|cd| iff P,Q anticommute;  ||[eR,[cP,dQ]]|| = 4|cde| iff additionally R anticommutes with PQ."""
    items = [(w, abs(c)) for w, c in terms.items() if w and abs(c) > 0]
    L = len(items)
    if order == 1:
        return sum(2 * items[j][1] * items[k][1] for j in range(L) for k in range(j + 1, L)
                   if not O.words_commute(items[j][0], items[k][0]))
    tot = 0.0
    for j in range(L):
        wj, cj = items[j]
        for k in range(L):
            if k == j or O.words_commute(items[k][0], wj):
                continue
            wk, ck = items[k]
            _, wkj = O.pauli_mul(wk, wj)
            for l in range(L):                       # [H_l,[H_k,H_j]] with k,l != j  (superset of k,l > j)
                if l != j and not O.words_commute(items[l][0], wkj):
                    tot += 4 * cj * ck * items[l][1] / 12
            tot += 4 * cj * cj * ck / 24             # [H_j,[H_j,H_k]]: P_j always anticommutes with P_j P_k here
    return tot


def suzuki_abs_factor(order):
    """sum over all exponentials of one term of |time fraction| in Suzuki's recursive order-2k formula."""
    if order <= 2:
        return 1.0
    u = 1.0 / (4 - 4 ** (1.0 / (order - 1)))
    return (4 * abs(u) + abs(1 - 4 * u)) * suzuki_abs_factor(order - 2)


def n_stages(order):
    """number of exponentials per term in one step."""
    if order == 1:
        return 1
    if order == 2:
        return 2
    return 5 * n_stages(order - 2)


def taylor_bound(lam, order):
    """|| S_p(1) - exp(-iH) || <= 2 lam^(p+1)/(p+1)! e^lam for a formula exact through order p whose exponents have
    total norm lam (power-series tail of a product of exponentials, and ||H|| <= lam)."""
    return 2 * lam ** (order + 1) / factorial(order + 1) * np.exp(lam)


RATE_FLOOR = 1e-9      # errors below this are too close to rounding noise for a rate statement
RATE_SLACK = 2.0       # genuine order-p formulas show e(2r)/e(r) in [0.76, 1.03] * 2^-p for lam <= 4 (measured); order p-2 gives 4 * 2^-p


def rate_ok(e_r, e_2r, order):
    return e_2r <= RATE_SLACK * 2.0 ** (-order) * e_r + 1e-11


def ref_product_formula(Hs, order, t, broken=False):
    """Independent reference product formula (used by the self-test only)."""
    if order == 1:
        U = np.eye(Hs[0].shape[0], dtype=complex)
        for Hj in Hs:
            U = expm(-1j * t * Hj) @ U
        return U
    if order == 2:
        return ref_product_formula(Hs[::-1], 1, t / 2) @ ref_product_formula(Hs, 1, t / 2)
    u = 1.0 / (4 - 4 ** (1.0 / (order - 1)))
    if broken:
        u = 1.0 / (4 - 4 ** (1.0 / order))
    A = ref_product_formula(Hs, order - 2, u * t)
    B = ref_product_formula(Hs, order - 2, (1 - 4 * u) * t)
    return A @ A @ B @ A @ A


def selftest():
    R.selftest()
    O.selftest()
    w = ((0, "X"), (1, "Y"))
    P = R.pauli_matrix(w, 2)
    assert np.allclose(expm(-1j * 0.7 * P), np.cos(0.7) * np.eye(4) - 1j * np.sin(0.7) * P)
    # controlled(): CRZ from the definition
    E = np.kron(np.eye(2), R.base_matrix("RZ", 0.9))
    assert np.allclose(controlled(E, [0], 2), R.gate_unitary({"n": "CRZ", "t": [1], "c": [0], "p": 0.9}, 2))
    assert np.allclose(ctrl_mask([0, 2], 3), [0, 0, 0, 0, 0, 1, 0, 1])
    # bounds on an independent product formula
    terms = {((0, "X"),): 0.8, ((0, "Z"), (1, "Z")): -0.6, ((1, "Y"),): 0.5, ((0, "Y"), (1, "X")): 0.3}
    Hs = [c * R.pauli_matrix(t, 2) for t, c in terms.items()]
    Hm = sum(Hs)
    assert abs(bound1_ordered([R.pauli_matrix(((0, "X"),), 1), R.pauli_matrix(((0, "Z"),), 1)]) - 2.0) < 1e-12
    for t in (0.05, -0.3, 0.9):
        ex = expm(-1j * t * Hm)
        e1 = specnorm(ref_product_formula(Hs, 1, t) - ex)
        e2 = specnorm(ref_product_formula(Hs, 2, t) - ex)
        assert e1 <= t * t / 2 * bound1_ordered(Hs) + 1e-12 and e1 <= t * t / 2 * bound_sym(terms, 1) + 1e-12
        assert e2 <= abs(t) ** 3 * bound2_ordered(Hs) + 1e-12 and e2 <= abs(t) ** 3 * bound_sym(terms, 2) + 1e-12
        assert bound1_ordered(Hs) <= bound_sym(terms, 1) + 1e-12 and bound2_ordered(Hs) <= bound_sym(terms, 2) + 1e-12
        # the bounds are not vacuous: within a factor 40 of the true error for small t
        if abs(t) < 0.1:
            assert e1 > t * t / 2 * bound1_ordered(Hs) / 40 and e2 > abs(t) ** 3 * bound2_ordered(Hs) / 40
    lam1 = sum(abs(c) for c in terms.values())
    for order in (4, 6):
        lam = suzuki_abs_factor(order) * lam1
        for t in (0.03, 0.1):
            ex = expm(-1j * t * Hm)
            assert specnorm(ref_product_formula(Hs, order, t) - ex) <= taylor_bound(lam * t, order) + 1e-13
        # rate criterion: the genuine formula passes with margin, one with a wrong Suzuki coefficient (order p-2) fails
        t = 1.0 / lam1
        ex = expm(-1j * t * Hm)
        for broken, verdict in ((False, True), (True, False)):
            e1 = specnorm(ref_product_formula(Hs, order, t, broken=broken) - ex)
            S = ref_product_formula(Hs, order, t / 2, broken=broken)
            e2 = specnorm(S @ S - ex)
            assert e1 > RATE_FLOOR, (order, e1)
            assert rate_ok(e1, e2, order) == verdict, (order, broken, e1, e2)
            if not broken:
                assert e2 <= 1.2 * 2.0 ** (-order) * e1
    assert abs(suzuki_abs_factor(4) - (4 / (4 - 4 ** (1 / 3)) + abs(1 - 4 / (4 - 4 ** (1 / 3))))) < 1e-12
    assert n_stages(4) == 10 and n_stages(6) == 50


# ------------------------------------------------------------------------------------------------- (a) Pauli words

COEFS = [0.0, 1e-12, -1e-12, 0.37, -0.37, pi / 2, -pi / 2, pi, -pi, 2 * pi, -2 * pi, 7.1, -7.1, 40.3, -40.3]
# (positions of the three letters, control)
LAYOUTS = [([0, 1, 2], None), ([0, 1, 2], 3), ([0, 1, 2], [4]), ([0, 1, 2], [3, 5]), ([0, 1, 2], [5, 3, 4]),
           ([1, 2, 4], None), ([1, 2, 4], 0), ([1, 2, 4], [3]), ([1, 2, 4], [0, 3]), ([1, 2, 4], [5, 0]), ([1, 2, 4], [3, 0, 5])]


def sweep_cases():
    out = []
    for letters in itertools.product("IXYZ", repeat=3):
        if set(letters) == {"I"}:
            continue
        for pos, ctrl in LAYOUTS:
            word = [[pos[i], l] for i, l in enumerate(letters) if l != "I"]
            for c in COEFS:
                out.append({"word": word, "coef": c, "control": ctrl, "variational": len(out) % 2 == 0})
    return out


def word_body(case):
    from tangelo.linq import Circuit
    from tangelo.toolboxes.ansatz_generator.ansatz_utils import exp_pauliword_to_gates
    word = tup(case["word"])
    c = case["coef"]
    control = case["control"]
    cl = ctrl_list(control)
    n = 1 + max([q for q, _ in word] + cl)
    ctl = pass_control(control)                      # built once, handed to both calls
    args = {"control": ctl, "pauli_word": word}
    before = snap_args(args)
    ref = controlled(expm(-1j * c * R.pauli_matrix(sorted(word), n)), cl, n)
    for call in (1, 2):
        gates = exp_pauliword_to_gates(word, c, variational=case["variational"], control=ctl)
        recs = [(g.name, list(g.target), list(g.control) if g.control else [], g.parameter) for g in gates]
        used = [q for _, t, cc, _ in recs for q in t + cc]
        if used and max(used) >= n:
            raise Fail(f"gate list touches qubit {max(used)} outside word+control qubits", sig="exp_pauliword:foreign-qubit")
        var_gates = [g for g in gates if g.is_variational]
        if len(var_gates) != (1 if case["variational"] else 0):
            raise Fail(f"{len(var_gates)} gates flagged variational with variational={case['variational']}", sig="exp_pauliword:variational-flag")
        U = R.unitary(circuit_to_recs(gates), n)
        d = float(np.max(np.abs(U - ref)))
        if d > TOL:
            kind = ("neg" if c < 0 else "pos") + ("-ctrl" if cl else "-noctrl") + (":second-call" if call == 2 else "")
            dp = R.equal_up_to_phase(U, ref)[1]
            raise Fail(f"exp_pauliword_to_gates({word}, {c}, control={control}) (call #{call}) differs from controlled exp(-i c P) by {d:.3g} "
                       f"(up to a global phase: {dp:.3g})", sig=f"exp_pauliword:{kind}", max_abs=d, up_to_phase=dp)
        check_args(before, args, "exp_pauliword", call)
    labels = {f"weight={len(word)}", "ctrl=" + ("none" if control is None else "int" if isinstance(control, int) else f"list{len(cl)}")}
    if c < 0 and cl:
        labels.add("neg-coef+control")
    if abs(c) > 2 * pi:
        labels.add("|c|>2pi")
    if c == 0:
        labels.add("c=0")
    if 0 in cl and len(cl) > 1:
        labels.add("multictrl-with-q0")
    if cl and word:
        qs = [q for q, _ in word]
        if any(min(qs) < q < max(qs) for q in cl):
            labels.add("ctrl-between-support")
        if any(q < min(qs) for q in cl):
            labels.add("ctrl-below-support")
        if any(q > max(qs) for q in cl):
            labels.add("ctrl-above-support")
    if [q for q, _ in word] != sorted(q for q, _ in word):
        labels.add("unsorted-word")
    if any(p == "Y" for _, p in word):
        labels.add("has-Y")
    return (len(word) >= 2 or bool(cl)), labels


@part("pauliword_sweep", quick=10395, thorough=10395)
def pauliword_sweep(ctx):
    ctx.sweep("pauliword_sweep", sweep_cases(), word_body)


coef_strategy = st.one_of(st.floats(-50, 50, allow_nan=False), st.integers(-16, 16).map(lambda k: k * pi / 4),
                          st.sampled_from([0.0, 1e-12, -1e-12, 1e-5, -1e-5, 2 * pi, -2 * pi, 4 * pi, -4 * pi]),
                          st.integers(-3, 3))


@st.composite
def word_cases(draw, max_n):
    n = draw(st.integers(1, max_n))
    perm = list(draw(st.permutations(list(range(n)))))
    nc = draw(st.integers(0, min(3, n - 1)))
    ctrl, rest = perm[:nc], perm[nc:]
    w = draw(st.integers(1, min(5, len(rest))))
    word = [[q, draw(st.sampled_from("XYZ"))] for q in rest[:w]]       # qubit order as drawn: not necessarily sorted
    if draw(st.booleans()):
        word = sorted(word)
    if nc == 0:
        control = None
    elif nc == 1:
        control = ctrl[0] if draw(st.booleans()) else [ctrl[0]]
    else:
        control = ctrl
    return {"word": word, "coef": draw(coef_strategy), "control": control, "variational": draw(st.booleans())}


@part("pauliword_random", quick=400, thorough=20000)
def pauliword_random(ctx):
    ctx.search("pauliword_random", word_cases(6 if ctx.tier == "quick" else 7), word_body)


# ------------------------------------------------------------------------------------------------- (b) time evolution

TIMES_ANY = st.one_of(st.floats(-3, 3, allow_nan=False),
                      st.sampled_from([0.0, 0, 1, -1, 2, 1e-3, 0.05, -0.05, 0.1, 0.3, 12.5, -40.0, 2 * pi, -2 * pi]))
TIMES_SMALL = st.one_of(st.floats(-0.4, 0.4, allow_nan=False), st.sampled_from([0.01, -0.02, 0.05, 0.1, -0.1, 0.2, 1, 0.0]))
TIMES_NZ = st.one_of(st.tuples(st.floats(0.01, 0.4), st.sampled_from([1, -1])).map(lambda x: x[0] * x[1]),
                     st.sampled_from([0.05, 0.1, -0.2, 0.3, 1, 0.0]))
COEF_NZ = st.tuples(st.floats(0.2, 2.0), st.sampled_from([1, -1])).map(lambda x: x[0] * x[1])
COEF_OP = st.one_of(st.floats(-2, 2, allow_nan=False), st.sampled_from([1.0, -1.0, 0.5, 0.25, -0.125, 0.0, 1e-11, 3.0]))


@st.composite
def layout(draw, max_n, min_op=1):
    n = draw(st.integers(min_op, max_n))
    perm = list(draw(st.permutations(list(range(n)))))
    nc = draw(st.integers(0, min(3, n - min_op)))
    if nc and draw(st.integers(0, 2)) == 0 and 0 not in perm[:nc]:
        perm.remove(0)
        perm.insert(0, 0)      # aim at control lists containing qubit 0
    ctrl, opq = perm[:nc], sorted(perm[nc:])
    if nc == 0:
        control = None
    elif nc == 1:
        control = ctrl[0] if draw(st.booleans()) else [ctrl[0]]
    else:
        control = ctrl
    return control, opq


@st.composite
def op_terms(draw, opq, family, max_terms, coefs=None):
    """list of [term, coef]; terms unique. family 'random' forces (3 times out of 4) a pair of anticommuting words."""
    coefs = COEF_OP if coefs is None else coefs
    words = []
    if family == "qwc":            # qubit-wise commuting: one fixed letter per qubit
        letter = {q: draw(st.sampled_from("XYZ")) for q in opq}
        subsets = draw(st.lists(st.lists(st.sampled_from(opq), min_size=1, max_size=len(opq), unique=True).map(sorted),
                                min_size=1, max_size=max_terms, unique_by=tuple))
        words = [[[q, letter[q]] for q in s] for s in subsets]
    elif family == "pairs" and len(opq) >= 2:   # XX, YY, ZZ on one pair (+ single-letter strings on the other qubits)
        a, b = sorted(draw(st.lists(st.sampled_from(opq), min_size=2, max_size=2, unique=True)))
        ls = draw(st.lists(st.sampled_from("XYZ"), min_size=1, max_size=3, unique=True))
        words = [[[a, l], [b, l]] for l in ls]
        others = [q for q in opq if q not in (a, b)]
        if others and draw(st.booleans()):
            l = draw(st.sampled_from("XYZ"))
            words.append([[q, l] for q in others[: draw(st.integers(1, len(others)))]])
    else:
        ws = draw(st.lists(st.lists(st.sampled_from(opq), min_size=1, max_size=min(4, len(opq)), unique=True).map(sorted)
                           .flatmap(lambda s: st.tuples(*[st.sampled_from("XYZ") for _ in s]).map(lambda ls, s=s: [[q, l] for q, l in zip(s, ls)])),
                           min_size=1, max_size=max_terms, unique_by=lambda w: tuple(map(tuple, w))))
        words = ws
        if draw(st.integers(0, 3)) > 0:
            # partner of the first word with one letter changed: differs on exactly one shared qubit -> anticommutes
            w0 = words[0]
            k = draw(st.integers(0, len(w0) - 1))
            partner = [list(x) for x in w0]
            partner[k][1] = draw(st.sampled_from([l for l in "XYZ" if l != w0[k][1]]))
            if partner not in words:
                if len(words) >= max_terms:
                    words.pop()
                words.insert(draw(st.integers(1, len(words))), partner)
    if draw(st.booleans()):
        words.insert(draw(st.integers(0, len(words))), [])      # identity term anywhere in the order
    return [[w, draw(coefs)] for w in words]


@st.composite
def qubit_evolve_cases(draw, families, times, orders=(1, 2), max_n=6, max_terms=6, max_steps=4, apis=("gexp", "trot", "tsu")):
    control, opq = draw(layout(max_n))
    family = draw(st.sampled_from(families))
    op = draw(op_terms(opq, family, max_terms))
    api = draw(st.sampled_from(apis))
    case = {"api": api, "op": op, "control": control, "order": draw(st.sampled_from(orders)),
            "cplx": draw(st.integers(0, 3)) == 0, "ofclass": draw(st.integers(0, 4)) == 0}
    if api != "tsu" and draw(st.integers(0, 2)) == 0:
        case["time"] = {"dict": [draw(times) for _ in op]}
    else:
        case["time"] = draw(times)
    if api == "gexp":
        case["return_phase"] = draw(st.booleans())
        case["variational"] = draw(st.booleans())
        case["pauli_order"] = list(draw(st.permutations(list(range(len(op)))))) if draw(st.integers(0, 2)) == 0 else None
    elif api == "trot":
        case["return_phase"] = draw(st.booleans())
        case["steps"] = draw(st.integers(1, max_steps))
    else:
        case["steps"] = draw(st.integers(1, max_steps))
        case["n_steps"] = draw(st.integers(1, 3))
        case["ctor_method"] = draw(st.sampled_from(["time", "repeat"]))
        case["method"] = draw(st.sampled_from(["", "time", "repeat"]))
        if isinstance(case["control"], list) and len(case["control"]) == 1 and draw(st.booleans()):
            case["control"] = case["control"][0]
    # second call on the very same argument objects (possibly other order / number of steps)
    case["second"] = {"order": draw(st.sampled_from(orders)), "steps": draw(st.integers(1, max_steps)), "n_steps": draw(st.integers(1, 3))}
    return case


def build_qop(op, cplx, ofclass):
    """Terms are written straight into the operator's term dictionary, so that zero / tiny coefficients and the term
    order of the case survive (operator arithmetic would drop |coef| < 1e-8)."""
    from tangelo.toolboxes.operators import QubitOperator
    from openfermion.ops import QubitOperator as ofQ
    q = (ofQ if ofclass else QubitOperator)()
    for t, c in op:
        q.terms[tup(t)] = complex(c, 0.0) if cplx else c
    return q


def pass_control(control):
    return control if control is None or isinstance(control, int) else list(control)


def evaluate(case, circuit, phase, terms_t, n_op, order, r, reps, ordered, labels, what, Hmat=None, drop_identity=False, extra_tol=0.0, tag=""):
    """Common oracle.  terms_t: ordered list [(word, coef*time)] of the full evolution exponent (one `rep`);
    the circuit is expected to implement [S_order(./r)^r]^reps ~ exp(-i reps sum_j terms_t).  Hmat: optional
    independent matrix of sum_j terms_t on n_op qubits."""
    control = case["control"]
    cl = ctrl_list(control)
    n = max([n_op, circuit.width] + [q + 1 for q in cl])
    if n > 8:
        raise Fail(f"circuit width {circuit.width} for an operator on {n_op} qubits", sig=f"{what}:width")
    U = R.unitary(circuit_to_recs(circuit), n) * phase
    tdict = {}
    for w, c in terms_t:
        tdict[w] = tdict.get(w, 0.0) + c
    c_id = tdict.get((), 0.0)
    eff = dict(tdict)
    if drop_identity:
        eff.pop((), None)
    if Hmat is None:
        H = R.qop_matrix(eff, n)
    else:
        H = np.kron(Hmat, np.eye(2 ** (n - n_op)))
        c_id = float(np.real(np.trace(Hmat))) / Hmat.shape[0]
        if drop_identity:
            H = H - c_id * np.eye(2 ** n)
    ref = controlled(expm(-1j * reps * H), cl, n)
    err = specnorm(U - ref)
    nz = [(w, c) for w, c in tdict.items() if w and abs(c) > 0]
    commuting = all(O.words_commute(a[0], b[0]) for a, b in itertools.combinations(nz, 2))
    # exponentials with |angle| <= 1e-10 may be skipped by the code: each costs at most 1e-10 in norm
    droppable = sum(1 for w, c in terms_t if w and abs(c) / r <= 1e-8)
    tol = TOL + 1e-10 * droppable * n_stages(order) * r * reps + extra_tol
    labels = set(labels)
    labels.add("commuting" if commuting else "noncommuting")
    if commuting:
        if err > tol:
            dp = R.phase_distance(U, ref)
            sig = f"{what}:commuting-exact" + (":phase-only" if dp <= tol else "") + (":ctrl" if cl else "") + (":identity" if c_id else "") + tag
            raise Fail(f"{what}{tag}: phase*U(circuit) differs from exp(-itH) by {err:.3g} (spectral norm; {dp:.3g} up to a global phase) "
                       f"for commuting terms", sig=sig, err=err, up_to_phase=dp)
        nontrivial = len(nz) >= 2 or (c_id != 0 and (bool(cl) or not drop_identity)) or (bool(cl) and len(nz) >= 1)
        return nontrivial, labels
    # non-commuting: bound
    if order in (1, 2):
        if ordered:
            seq = [w_c for w_c in terms_t if w_c[0]]
            Hs = [c / r * R.pauli_matrix(w, n) for w, c in seq]
            b = max(bound1_ordered(Hs), bound1_ordered(Hs[::-1])) / 2 if order == 1 else max(bound2_ordered(Hs), bound2_ordered(Hs[::-1]))
        else:
            scaled = {w: c / r for w, c in tdict.items()}
            b = bound_sym(scaled, 1) / 2 if order == 1 else bound_sym(scaled, 2)
    else:
        lam = suzuki_abs_factor(order) * sum(abs(c) for w, c in terms_t if w) / r
        b = taylor_bound(lam, order)
    bound = reps * r * b
    if err > bound + tol:
        raise Fail(f"{what}{tag}: error {err:.6g} exceeds the order-{order} product-formula bound {bound:.6g} (r={r}, reps={reps})",
                   sig=f"{what}:bound-order{order}" + (":ctrl" if cl else "") + tag, err=err, bound=bound)
    labels.add("bound<1" if bound < 1 else "bound>=1")
    if bound < 0.05:
        labels.add("bound<0.05")
    return bound < 1, labels


def known_identity_q0(case):
    """input class of the hard-coded target=0 defect: identity term present, >= 2 control qubits, one of them qubit 0."""
    cl = ctrl_list(case["control"])
    return any(not t for t, _ in case["op"]) and len(cl) > 1 and 0 in cl


def evolve_body(case):
    """Argument objects are built once and handed to two consecutive calls (the second possibly with another order / number
    of steps); both results are judged against the oracle computed from the plain case data, and after each call the
    argument objects are compared with snapshots taken before the first call."""
    from tangelo.toolboxes.ansatz_generator.ansatz_utils import get_exponentiated_qubit_operator_circuit, trotterize
    from tangelo.toolboxes.unitary_generator import TrotterSuzukiUnitary
    from tangelo.toolboxes.operators import count_qubits
    api, control = case["api"], case["control"]
    cl = ctrl_list(control)
    qop = build_qop(case["op"], case["cplx"], case["ofclass"])
    items = [(w, float(np.real(c))) for w, c in qop.terms.items()]     # input data: term order of the operator handed over
    if [w for w, _ in items] != [tup(t) for t, _ in case["op"]]:
        raise Skip("operator container reordered/merged terms")        # cannot happen with unique terms; guards the oracle's order
    time = case["time"]
    if isinstance(time, dict):
        tvals0 = list(time["dict"])
        t_arg = {w: tv for (w, _), tv in zip(items, tvals0)}
    else:
        tvals0 = [time] * len(items)
        t_arg = time
    ctl = pass_control(control)
    n_op = max([q + 1 for w, _ in items for q, _ in w] + [0])
    labels = {api, "ctrl=" + ("none" if control is None else "int" if isinstance(control, int) else f"list{len(cl)}")}
    if isinstance(time, dict):
        labels.add("time-dict")
    else:
        if isinstance(time, int):
            labels.add("int-time")
        labels.add("t<0" if time < 0 else "t=0" if time == 0 else "t>3" if time > 3 else "t>0")
    has_id = any((not w) and c != 0 and tv != 0 for (w, c), tv in zip(items, tvals0))
    if has_id:
        labels.add("identity-term")
        if len(cl) > 1:
            labels.add("identity+multictrl")
            if 0 in cl:
                labels.add("identity+multictrl-with-q0")
        elif len(cl) == 1:
            labels.add("identity+single-ctrl")
    if case["cplx"]:
        labels.add("complex-typed-coefs")
    if case["ofclass"]:
        labels.add("openfermion-class")
    order_idx = list(range(len(items)))
    args = {"operator.terms": qop.terms, "control": ctl}
    if isinstance(t_arg, dict):
        args["time"] = t_arg
    kw = {}
    if api == "gexp" and case.get("pauli_order") is not None:
        order_idx = case["pauli_order"]
        kw["pauli_order"] = [items[i] for i in order_idx]
        args["pauli_order"] = kw["pauli_order"]
        labels.add("pauli_order")
    before = snap_args(args)
    second = case.get("second") or {"order": case["order"], "steps": case.get("steps", 1), "n_steps": case.get("n_steps", 1)}
    tsu = None
    nontrivial = False
    for call in (1, 2):
        order = case["order"] if call == 1 else second["order"]
        reps, r, drop_identity, phase = 1, 1, False, 1.0
        tvals = list(tvals0)
        lab = set()
        try:
            if api == "gexp":
                out = get_exponentiated_qubit_operator_circuit(qop, time=t_arg, variational=case["variational"], trotter_order=order,
                                                               control=ctl, return_phase=case["return_phase"], **kw)
                if case["return_phase"]:
                    circuit, phase = out
                    lab.add("return_phase")
                else:
                    circuit, drop_identity = out, not cl
            elif api == "trot":
                r = case["steps"] if call == 1 else second["steps"]
                out = trotterize(qop, time=t_arg, n_trotter_steps=r, trotter_order=order, control=ctl, return_phase=case["return_phase"])
                if case["return_phase"]:
                    circuit, phase = out
                    lab.add("return_phase")
                    if has_id and r > 1 and not cl:
                        lab.add("phase**n_steps")
                else:
                    circuit, drop_identity = out, not cl
            else:
                # one TrotterSuzukiUnitary object, build_circuit called twice on it
                r, order = case["steps"], case["order"]
                if tsu is None:
                    tsu = TrotterSuzukiUnitary(qop, time=t_arg, trotter_order=order, n_trotter_steps=r, n_steps_method=case["ctor_method"])
                k = case["n_steps"] if call == 1 else second["n_steps"]
                circuit = tsu.build_circuit(k, control=ctl, method=case["method"])
                drop_identity = not cl
                method = case["method"] or case["ctor_method"]
                lab.add(f"tsu-{method}")
                sq, aq = tsu.qubit_indices()
                if list(sq) != list(range(count_qubits(qop))) or list(aq):
                    raise Fail(f"TrotterSuzukiUnitary.qubit_indices() = {sq},{aq}", sig="tsu:qubit_indices")
                if method == "repeat":
                    reps = k
                else:
                    tvals = [tv * k for tv in tvals]
                if k > 1:
                    lab.add("tsu-n_steps>1")
        except ValueError as e:
            if "duplicate qubits" in str(e) and known_identity_q0(case):
                raise Fail(f"{api}: identity term with control list {control} containing qubit 0 raises ValueError: {e}",
                           sig="evolve:identity-term+multicontrol-containing-q0") from e
            raise
        lab.add(f"order{order}")
        if r > 1:
            lab.add("steps>1")
        terms_t = [(items[i][0], items[i][1] * tvals[i]) for i in order_idx]
        if not (abs(phase) > 0 and abs(abs(phase) - 1) < 1e-9):
            raise Fail(f"returned phase {phase} is not unimodular", sig=f"{api}:phase-modulus")
        nt, lab = evaluate(case, circuit, phase, terms_t, n_op, order, r, reps, True, lab, api, drop_identity=drop_identity,
                           tag="" if call == 1 else ":second-call")
        check_args(before, args, api, call)
        if tsu is not None and snap(tsu.time) != snap(t_arg):
            raise Fail(f"tsu: call #{call} changed TrotterSuzukiUnitary.time", sig="tsu:argument-mutated:time")
        nontrivial = nontrivial or nt
        labels |= lab if call == 1 else {"second-call:" + l for l in lab if l.startswith(("steps>1", "order", "noncommuting", "tsu-n_steps>1"))}
        if call == 2 and r > 1 and isinstance(t_arg, dict):
            labels.add("second-call:steps>=2+time-dict")
    return nontrivial, labels


@part("evolve_commuting", quick=500, thorough=25000)
def evolve_commuting(ctx):
    mx = 6 if ctx.tier == "quick" else 7
    ctx.search("evolve_commuting", qubit_evolve_cases(["qwc", "qwc", "pairs"], TIMES_ANY, max_n=mx), evolve_body,
               exclusions={"evolve:identity-term+multicontrol-containing-q0": known_identity_q0})


@part("evolve_bound", quick=400, thorough=20000)
def evolve_bound(ctx):
    mx = 5 if ctx.tier == "quick" else 6
    ctx.search("evolve_bound", qubit_evolve_cases(["random"], TIMES_NZ, max_n=mx, max_terms=5), evolve_body,
               exclusions={"evolve:identity-term+multicontrol-containing-q0": known_identity_q0})


@st.composite
def high_order_cases(draw):
    control, opq = draw(layout(4))
    if isinstance(control, list) and len(control) > 1:
        control = control[:1]
    op = draw(op_terms(opq, draw(st.sampled_from(["random", "random", "random", "random", "qwc"])), 4, coefs=COEF_NZ))
    order = draw(st.sampled_from([4, 6]))
    return {"api": draw(st.sampled_from(["trot", "gexp"])), "op": op, "control": control, "order": order,
            "steps": draw(st.integers(1, 2)), "lam": draw(st.floats(0.5, 2.0) if order == 4 else st.floats(2.0, 3.5)),
            "neg": draw(st.booleans())}


def high_order_body(case):
    """orders 4 and 6 ('convergence'): (i) rigorous Taylor-remainder bound at r and 2r steps, (ii) the error falls by
    about 2^-p from r to 2r steps (asserted only when the error is well above rounding noise)."""
    from tangelo.toolboxes.ansatz_generator.ansatz_utils import get_exponentiated_qubit_operator_circuit, trotterize
    api, order, control, r = case["api"], case["order"], case["control"], case["steps"]
    cl = ctrl_list(control)
    qop = build_qop(case["op"], False, False)
    items = [(w, float(np.real(c))) for w, c in qop.terms.items()]
    if [w for w, _ in items] != [tup(t) for t, _ in case["op"]]:
        raise Skip("operator container reordered/merged terms")
    norm1 = sum(abs(c) for w, c in items if w)
    if norm1 < 1e-3:
        raise Skip("operator has no sizeable non-identity term")
    # time chosen so that lam = (sum of |exponents| of one step) = case["lam"]
    t = (-1 if case["neg"] else 1) * case["lam"] * r / (suzuki_abs_factor(order) * norm1)
    n_op = max([q + 1 for w, _ in items for q, _ in w] + [0])
    n = max([n_op] + [q + 1 for q in cl])
    tdict = dict(items)
    ref = controlled(expm(-1j * t * R.qop_matrix(tdict, n)), cl, n)
    nz = [(w, c) for w, c in items if w and abs(c) > 0]
    commuting = all(O.words_commute(a[0], b[0]) for a, b in itertools.combinations(nz, 2))
    droppable = sum(1 for w, c in items if w and abs(c * t) / r <= 1e-8)

    ctl = pass_control(control)
    args = {"operator.terms": qop.terms, "control": ctl}
    before = snap_args(args)

    def run(steps):
        if api == "trot":
            circ, ph = trotterize(qop, time=t, n_trotter_steps=steps, trotter_order=order, control=ctl, return_phase=True)
            if circ.width > n:
                raise Fail(f"circuit width {circ.width} > {n}", sig="high-order:width")
            return R.unitary(circuit_to_recs(circ), n) * ph
        circ, ph = get_exponentiated_qubit_operator_circuit(qop, time=t / steps, trotter_order=order, control=ctl, return_phase=True)
        if circ.width > n:
            raise Fail(f"circuit width {circ.width} > {n}", sig="high-order:width")
        return np.linalg.matrix_power(R.unitary(circuit_to_recs(circ), n) * ph, steps)

    errs = {}
    for steps in (r, 2 * r):
        errs[steps] = specnorm(run(steps) - ref)
        check_args(before, args, api, 1 if steps == r else 2)
        slack = 1e-10 * droppable * n_stages(order) * steps
        lam = suzuki_abs_factor(order) * norm1 * abs(t) / steps
        if commuting:
            if errs[steps] > TOL + slack:
                raise Fail(f"{api}: order-{order} evolution of commuting terms differs from exp(-itH) by {errs[steps]:.3g}",
                           sig=f"{api}:commuting-exact:order{order}", err=errs[steps])
        elif errs[steps] > steps * taylor_bound(lam, order) + 1e-11 + slack:
            raise Fail(f"{api}: order-{order} error {errs[steps]:.3g} with {steps} steps exceeds the Taylor-remainder bound "
                       f"{steps * taylor_bound(lam, order):.3g}", sig=f"{api}:taylor-bound-order{order}", err=errs[steps])
    labels = {api, f"order{order}", "commuting" if commuting else "noncommuting", "ctrl" if cl else "noctrl", f"steps={r}"}
    if commuting:
        return len(nz) >= 2, labels
    rate_active = errs[r] >= RATE_FLOOR and droppable == 0
    if rate_active:
        labels.add("rate-check-active")
        if not rate_ok(errs[r], errs[2 * r], order):
            raise Fail(f"{api}: order-{order} formula does not converge at its order: error {errs[r]:.3g} with {r} steps, "
                       f"{errs[2 * r]:.3g} with {2 * r} steps (ratio {errs[2 * r] / errs[r]:.3g}, expected about {2.0 ** -order:.3g})",
                       sig=f"{api}:convergence-rate-order{order}", e_r=errs[r], e_2r=errs[2 * r])
    else:
        labels.add("rate-check-inactive(error<1e-9)")
    return rate_active, labels


@part("evolve_high_order", quick=60, thorough=2000)
def evolve_high_order(ctx):
    ctx.search("evolve_high_order", high_order_cases(), high_order_body)


# ------------------------------------------------------------------------------------------------- fermionic inputs

@st.composite
def fermion_cases(draw, times):
    mapping = draw(st.sampled_from(["jw", "jw", "JW", "bk", "jkmn", "scbk"]))
    m = 4 if mapping == "scbk" else draw(st.sampled_from([2, 4, 4, 6] if mapping.lower() == "jw" else [2, 4]))
    spin_conserving = mapping == "scbk" or draw(st.booleans())
    kinds = ["num", "num2", "hop", "hop", "const"] + (["dbl", "dbl"] if m >= 4 else [])

    @st.composite
    def gen(draw):
        k = draw(st.sampled_from(kinds))
        if k == "const":
            return ["const"]
        if k == "num":
            return ["num", draw(st.integers(0, m - 1))]
        if k == "num2":
            p, q = sorted(draw(st.lists(st.integers(0, m - 1), min_size=2, max_size=2, unique=True)))
            return ["num2", p, q]
        if k == "hop":
            p, q = sorted(draw(st.lists(st.integers(0, m - 1), min_size=2, max_size=2, unique=True)))
            if spin_conserving and (p - q) % 2:
                q = q ^ 1                      # same spin as p (m is even, so q^1 < m)
                if q == p:
                    return ["num", p]
                p, q = sorted([p, q])
            return ["hop", p, q]
        p, q = sorted(draw(st.lists(st.integers(0, m - 1), min_size=2, max_size=2, unique=True)), reverse=True)
        r_, s = sorted(draw(st.lists(st.integers(0, m - 1), min_size=2, max_size=2, unique=True)), reverse=True)
        if spin_conserving and sorted([p % 2, q % 2]) != sorted([r_ % 2, s % 2]):
            return ["num2", q, p]
        return ["dbl", p, q, r_, s]

    gens = draw(st.lists(gen(), min_size=1, max_size=4, unique_by=lambda g: tuple(g)))
    out = []
    for g in gens:
        re = draw(COEF_OP)
        im = draw(st.floats(-1, 1, allow_nan=False)) if g[0] in ("hop", "dbl") and draw(st.booleans()) else 0.0
        out.append({"g": g, "re": re, "im": im, "t": draw(times)})
    control = None
    nq = m - 2 if mapping == "scbk" else m
    nc = draw(st.integers(0, 2))
    if nc:
        control = [nq + i for i in range(nc)][::-1] if nc > 1 else (nq if draw(st.booleans()) else [nq + 1])
    case = {"api": "ferm", "gens": out, "m": m, "mapping": mapping, "up_then_down": draw(st.booleans()),
            "order": draw(st.sampled_from([1, 2])), "steps": draw(st.integers(1, 3)), "control": control,
            "return_phase": draw(st.booleans()), "time_dict": draw(st.booleans()),
            "give_nso": True if mapping.lower() != "jw" else draw(st.booleans())}
    if not case["time_dict"]:
        t = draw(times)
        for o in out:
            o["t"] = t
    case["second"] = {"order": draw(st.sampled_from([1, 2])), "steps": draw(st.integers(1, 3))}
    return case


def fermion_terms(case):
    """ordered list of (term, coef, time)."""
    out = []
    for o in case["gens"]:
        g, c, t = o["g"], complex(o["re"], o["im"]), o["t"]
        if g[0] == "const":
            out.append(((), o["re"], t))
        elif g[0] == "num":
            out.append((((g[1], 1), (g[1], 0)), o["re"], t))
        elif g[0] == "num2":
            out.append((((g[1], 1), (g[1], 0), (g[2], 1), (g[2], 0)), o["re"], t))
        elif g[0] == "hop":
            out.append((((g[1], 1), (g[2], 0)), c, t))
            out.append((((g[2], 1), (g[1], 0)), c.conjugate(), t))
        else:
            p, q, r_, s = g[1:]
            out.append((((p, 1), (q, 1), (r_, 0), (s, 0)), c, t))
            out.append((((s, 1), (r_, 1), (q, 0), (p, 0)), c.conjugate(), t))
    return out


FERM_DROP = 1.01e-8    # operator arithmetic drops terms with |coefficient| < 1e-8 (openfermion EQ_TOLERANCE)
FERM_TINY = 1e-6       # fermionic terms below this (per step) may lose some or all of their Pauli images inside the mapping


def ferm_no_ladder(case):
    """input class of the make_up_then_down defect: up_then_down requested and no ladder term survives the time scaling."""
    r = max(case["steps"], (case.get("second") or {}).get("steps", 1))       # either of the two calls
    return bool(case["up_then_down"]) and all((not k) or abs(c * t) / r < FERM_DROP for k, c, t in fermion_terms(case))


def fermion_body(case):
    """Same two-call / snapshot scheme as evolve_body: operator, time dict, mapping options and control are built once."""
    from tangelo.toolboxes.operators import FermionOperator
    from tangelo.toolboxes.ansatz_generator.ansatz_utils import trotterize
    from tangelo.toolboxes.qubit_mappings.mapping_transform import fermion_to_qubit_mapping
    m, mapping, utd = case["m"], case["mapping"], case["up_then_down"]
    fts = fermion_terms(case)
    keys = [k for k, _, _ in fts]
    if len(set(keys)) != len(keys):
        raise Skip("duplicate fermionic keys")
    fop = FermionOperator()
    for k, c, _ in fts:
        fop.terms[k] = c                     # plain container write: keeps order, zero and tiny coefficients
    if case["time_dict"]:
        t_arg = {k: t for k, _, t in fts}
    else:
        t_arg = fts[0][2]
    opts = {"qubit_mapping": mapping, "up_then_down": utd}
    if case["give_nso"] or utd:
        opts["n_spinorbitals"] = m
    if mapping == "scbk":
        opts["n_electrons"] = 2
    control = case["control"]
    cl = ctrl_list(control)
    ctl = pass_control(control)
    args = {"operator.terms": fop.terms, "mapping_options": opts, "control": ctl}
    if isinstance(t_arg, dict):
        args["time"] = t_arg
    before = snap_args(args)
    second = case.get("second") or {"order": case["order"], "steps": case["steps"]}
    # effective exponent sum_k c_k t_k F_k (independent of the number of steps)
    eff = {k: c * t for k, c, t in fts}
    Hmat = None
    n_op = m - 2 if mapping == "scbk" else m
    if mapping.lower() == "jw":
        ft = dict(eff)
        if utd:
            ft = O.relabel_terms(ft, O.up_then_down_perm(m))
        Hmat = O.fermion_matrix(ft, m)
        if np.max(np.abs(Hmat - Hmat.conj().T)) > 1e-12:
            raise Skip("non-Hermitian exponent")
    labels = {"ferm", f"map={mapping.lower()}", "utd" if utd else "alternating",
              "ctrl=" + ("none" if control is None else "int" if isinstance(control, int) else f"list{len(cl)}")}
    if case["time_dict"] and len({t for _, _, t in fts}) > 1:
        labels.add("time-dict-distinct")
    if any(o["im"] != 0 for o in case["gens"]):
        labels.add("complex-fermion-coef")
    if case["return_phase"]:
        labels.add("return_phase")
    if Hmat is not None:
        labels.add("independent-fock-matrix")
    nontrivial = False
    for call in (1, 2):
        r, order = (case["steps"], case["order"]) if call == 1 else (second["steps"], second["order"])
        no_ladder = all((not k) or abs(c * t) / r < FERM_DROP for k, c, t in fts)
        try:
            out = trotterize(fop, time=t_arg, n_trotter_steps=r, trotter_order=order, mapping_options=opts,
                             control=ctl, return_phase=case["return_phase"])
        except ValueError as e:
            if "max() iterable argument is empty" in str(e) and utd and no_ladder:
                raise Fail(f"trotterize(fermionic operator, up_then_down=True) raises '{e}' when no ladder term is left after time scaling "
                           f"(zero time, tiny coefficients or constant-only operator)", sig="trot-ferm:up_then_down-without-ladder-terms") from e
            raise
        circuit, phase = out if case["return_phase"] else (out, 1.0)
        # terms the operator arithmetic (scaling, mapping) may drop wholly or partly (|coef| < 1e-8 per step): whether kept or
        # dropped, each changes the exponent by at most |c t|
        # (the real and the imaginary part of a coefficient map to different Pauli words, so each is judged on its own:
        # thorough-tier case hop(0,1) with coefficient 1 + 1.19e-7j lost the images of its imaginary part, error 2.9e-8)
        extra_tol = 2 * sum(abs(part * t) for k, c, t in fts for part in (np.real(c), np.imag(c))
                            if part != 0 and abs(part * t) / r < FERM_TINY)
        kept = {k: v for k, v in eff.items() if abs(v) >= FERM_TINY}
        if no_ladder or not any(k for k in kept):
            terms_t = [((), float(np.real(sum(v for k, v in eff.items() if not k))))]
        else:
            eff_op = FermionOperator()
            for k, v in kept.items():
                eff_op += FermionOperator(k, v)
            q_eff = fermion_to_qubit_mapping(eff_op, mapping, n_spinorbitals=m, n_electrons=2 if mapping == "scbk" else None, up_then_down=utd)
            if any(abs(np.imag(v)) > 1e-12 for v in q_eff.terms.values()):
                raise Skip("non-Hermitian exponent")
            terms_t = [(w, float(np.real(c))) for w, c in q_eff.terms.items()]
        lab = {f"order{order}"}
        if r > 1:
            lab.add("steps>1")
        if extra_tol > 0:
            lab.add("tiny-terms(tolerance widened)")
        drop_identity = (not case["return_phase"]) and not cl
        nt, lab = evaluate(case, circuit, phase, terms_t, n_op, order, r, 1, False, lab, "trot-ferm", Hmat=Hmat, drop_identity=drop_identity,
                           extra_tol=extra_tol, tag="" if call == 1 else ":second-call")
        check_args(before, args, "trot-ferm", call)
        nontrivial = nontrivial or nt
        labels |= lab if call == 1 else {"second-call:" + l for l in lab if l.startswith(("steps>1", "order", "noncommuting"))}
        if call == 2 and r > 1 and isinstance(t_arg, dict):
            labels.add("second-call:steps>=2+time-dict")
    return nontrivial, labels


@part("evolve_fermion", quick=240, thorough=10000)
def evolve_fermion(ctx):
    ctx.search("evolve_fermion", fermion_cases(TIMES_NZ), fermion_body,
               exclusions={"trot-ferm:up_then_down-without-ladder-terms": ferm_no_ladder})
