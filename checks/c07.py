"""C07 - ansatz parameter updates are equivalent to rebuilding the circuit (operation-history check).

A case is (configuration, list of op records).  The interpreter `run_history` replays the ops on ONE ansatz object
and, after every op that sets parameters, compares the state prepared by `ansatz.circuit` (reference simulator, from
|0..0>) with the state prepared by a FRESH object of the same class/options on which only `build_circuit(theta)` was
called.  Wrong-length vectors must be refused (ValueError / AssertionError) and leave the circuit as it was.
All-zero parameters of the excitation-based ansaetze must give exactly the reference determinant.
"""
import copy, math

import numpy as np
from hypothesis import strategies as st

from vlib.runner import part, Fail, Skip
from vlib import refsim as R, strategies as S
from vlib.h_c07 import (mol, quiet, recs, state_of, fidelity, jw_reference_index, make, family_configs, n_params_vsqs, KEYWORDS,
                        expand, recipes, _adapt_pool)

PROPERTY = "C07"
RULE = ("Hypothesis-generated operation histories (1 build + up to 5/9 further ops: build_circuit(theta), build_circuit(keyword/default), "
        "update_var_params(theta), wrong-length update/build, ADAPT add_operator) replayed on one ansatz object for a sampled "
        "configuration (UCCSD closed/ROHF/UHF, UCC1/UCC3, UpCCGSD k=1..4, UCCGD, HEA, QMF, QCC, ILC, VSQS molecule/qubit form, pUCCD, "
        "ADAPT with the UCCGSD pool, VariationalCircuitAnsatz over generated circuits; molecules H2, H3 doublet, H4, LiH frozen, H4 UHF; "
        "encodings jw/bk/scbk/jkmn, both orderings). theta recipes: exact zeros, +-x, repeated values, beyond 2pi, 1e-9-small, all-zero, "
        "previous vector with entries zeroed/sign-flipped. Every vector is handed over in one of six ways (fresh list / numpy array / tuple, "
        "the object returned by ansatz.var_params edited in place, set_var_params(p) then update(p) with the same object, one caller-owned "
        "vector re-used across calls with in-place edits) and must still hold the target values after the call. After every parameter-setting op the state of ansatz.circuit must equal (fidelity "
        ">= 1-1e-9) the state of a fresh object's build_circuit(theta); VSQS is additionally compared with the Trotter product it documents "
        "(its build path may delegate to the update path). Wrong-length vectors must raise and leave the circuit's state unchanged; all-zero "
        "vectors of the excitation-based ansaetze must give the reference determinant. Non-trivial = the history has >=1 update_var_params after a build AND "
        "(two consecutive accepted vectors with different zero patterns, or k>=3, or a wrong-length attempt, or an ADAPT add_operator, or an update through one of the aliasing hand-over modes). "
        "Distinct = distinct canonical JSON of (configuration, op list).")
ASSUMPTIONS = ["numpy linear algebra", "reference gate table/simulator in vlib/refsim.py (self-tested)",
               "molecule objects (PySCF SCF, integrals) are trusted inputs here: a fixed pool of 5 molecules is built once per process",
               "the fresh object is built by Tangelo's own build_circuit: the check is differential between the update path and the build path; "
               "the all-zero clause is checked against an independently computed Jordan-Wigner determinant (other encodings: against the "
               "ansatz' own reference circuit, whose correctness is C05's subject)",
               "rejection of a wrong-length vector = ValueError or AssertionError (the two forms the ansatz classes use)",
               "for ansaetze whose build_circuit itself calls update_var_params (HEA, pUCCD, UCC1/UCC3, ADAPT, VariationalCircuitAnsatz) the "
               "differential oracle detects history dependence only, not a wrong but consistent gate assignment",
               "ADAPT reference (besides the fresh object): product over added operators and their Pauli words of exp(-i s theta_k P/2) with the "
               "signs prepared as ADAPTSolver does, applied to the reference state - the ansatz applies every word with a unit-magnitude sign, so "
               "its state is exp(theta_k (T_k - T_k^dagger)) only for generators whose words share one magnitude; that form is therefore not asserted",
               "VSQS reference: first/second-order Trotter product over the term lists stored by the ansatz (h_init_list, h_final_list, h_nav_list)",
               "<= 8 qubits (12 never), histories <= 6 ops quick / <= 10 thorough"]
SHARDS = {"quick": 4, "thorough": 16}

FID_TOL = 1e-9
EXCITATION_BASED = {"UCCSD", "RUCC", "UpCCGSD", "UCCGD", "pUCCD", "ADAPT"}


def selftest():
    R.selftest()
    assert jw_reference_index(4, 1, 1, False) == 0b1100 and jw_reference_index(4, 1, 1, True) == 0b1010
    assert jw_reference_index(6, 2, 1, False) == 0b111000 and jw_reference_index(6, 2, 1, True) == 0b110100
    v = R.run([{"n": "H", "t": [0]}, {"n": "CNOT", "t": [1], "c": [0]}], 2)
    w = R.run([{"n": "H", "t": [0]}, {"n": "CNOT", "t": [1], "c": [0]}, {"n": "RZ", "t": [0], "p": 2 * math.pi}], 2)   # = -v
    assert abs(fidelity(v, w) - 1) < 1e-12 and fidelity(v, R.zero_state(2)) < 0.51
    assert expand({"k": "cycle", "base": [1.0, 0.0], "zero": [2]}, 5, None) == [1.0, 0.0, 0.0, 0.0, 1.0]
    assert expand({"k": "cycle", "base": [1.0, 0.0], "drift": 0.5, "zero": []}, 4, None) == [1.0, 0.0, 2.0, 0.0]
    assert expand({"k": "prev", "base": [7.0], "zero": [0], "flip": [1], "set": [2]}, 3, [1.0, 2.0, 3.0]) == [0.0, -2.0, 7.0]


# ------------------------------------------------------------------------------------------------ op records / histories

# How the caller hands the vector over ("pass" field of an op record, plain data):
#   list / numpy / tuple   a fresh object of that type
#   stored                 the object returned by ansatz.var_params, edited in place to the target values, then passed
#   set_then_update        p fresh; ansatz.set_var_params(p) followed by update_var_params(p) / build_circuit(p) with the same object
#   reuse                  one caller-owned list/array re-used across successive calls with in-place edits in between
PASS_MODES = ["list", "list", "numpy", "numpy", "tuple", "stored", "stored", "set_then_update", "set_then_update", "reuse", "reuse", "reuse"]


@st.composite
def op_records(draw, fam, first):
    flag = draw(st.booleans())
    how = draw(st.sampled_from(PASS_MODES))
    if first:
        kind = "update" if (fam == "VarCirc" and draw(st.integers(0, 2)) == 0) else "build"   # VarCirc: circuit exists from construction
        return {"op": kind, "th": draw(recipes()), "np": flag, "pass": how}
    sel = draw(st.integers(0, 17 if fam == "ADAPT" else 10))
    if sel <= 5:
        return {"op": "update", "th": draw(recipes()), "np": flag, "pass": how}
    if sel == 6:
        return {"op": "build", "th": draw(recipes()), "np": flag, "pass": how}
    if sel == 7:
        return {"op": "build_kw", "kw": draw(st.integers(0, 7))}
    if sel in (8, 9):
        return {"op": "bad_update", "d": draw(st.sampled_from([-2, -1, 1, 2, 5])), "th": draw(recipes()), "np": flag, "pass": how}
    if sel == 10:
        return {"op": "bad_build", "d": draw(st.sampled_from([-1, 1, 3])), "th": draw(recipes()), "np": flag, "pass": how}
    return {"op": "add_op", "i": draw(st.integers(0, 199))}


@st.composite
def histories(draw, fam, cfg_strategy, max_ops):
    cfg = draw(cfg_strategy)
    ops = [draw(op_records(fam, True))]
    ops += draw(st.lists(op_records(fam, False), min_size=2, max_size=max_ops - 1))
    return {"cfg": cfg, "ops": ops}


ADAPT_PATTERNS = [
    ["build", "add", "update", "build", "add", "update"],                       # rebuild with an operator present, then grow again
    ["build", "add", "add", "rebuild", "update", "add", "rebuild", "add", "update"],
    ["build", "add", "update", "add", "update", "build", "add", "update"],
    ["build", "add", "rebuild", "add", "update", "add", "update"],
]


@st.composite
def adapt_histories(draw, cfg_strategy, max_ops):
    """ADAPT life cycles as ADAPTSolver drives them: operators of different kinds (singles / doubles of the UCCGSD pool) are added,
    the circuit is rebuilt (build_circuit(theta) or build_circuit()) while operators are present, grown again and updated with
    non-zero, pairwise distinct values.  One case in four is a free history."""
    cfg = draw(cfg_strategy)
    if draw(st.integers(0, 3)) == 0:
        ops = [draw(op_records("ADAPT", True))] + draw(st.lists(op_records("ADAPT", False), min_size=2, max_size=max_ops - 1))
        return {"cfg": cfg, "ops": ops}
    nonzero = st.one_of(st.floats(0.2, 3.0), st.floats(-3.0, -0.2), st.sampled_from([0.5, 1.0, -1.0, 7.1]))
    ops = []
    for k in draw(st.sampled_from(ADAPT_PATTERNS))[:max(max_ops, 6)]:
        how = draw(st.sampled_from(PASS_MODES))
        if k == "add":
            ops.append({"op": "add_op", "i": draw(st.integers(0, 199)), "kind": draw(st.sampled_from(["s", "d", "d"]))})
        elif k == "rebuild":
            ops.append({"op": "build_kw", "kw": 0})          # build_circuit() without arguments, as VQESolver.build does
        elif k == "update":
            ops.append({"op": "update", "np": draw(st.booleans()), "pass": how,
                        "th": {"k": "cycle", "base": draw(st.lists(nonzero, min_size=1, max_size=4)), "drift": draw(st.sampled_from([0.211, -0.07, 0.5])),
                               "zero": []}})
        else:
            ops.append({"op": "build", "np": draw(st.booleans()), "pass": how, "th": draw(recipes())})
    return {"cfg": cfg, "ops": ops}


# ------------------------------------------------------------------------------------------------ interpreter

def reference_state(cfg, obj, n):
    """Expected all-zero state: independently computed determinant for JW, the ansatz' own reference circuit otherwise."""
    a = cfg["a"]
    v = np.zeros(2 ** n, dtype=complex)
    if a == "RUCC":
        v[int("1010".ljust(n, "0"), 2)] = 1
        return v, "independent"
    if a == "pUCCD":
        m = mol(cfg["mol"])
        bits = "".join("1" if i < m.n_active_electrons // 2 else "0" for i in range(m.n_active_mos)).ljust(n, "0")
        v[int(bits, 2)] = 1
        return v, "independent"
    m = mol(cfg["mol"])
    if cfg["map"].lower() == "jw":
        na, nb = m.n_active_ab_electrons
        nq = m.n_active_sos
        v[jw_reference_index(nq, na, nb, cfg["utd"]) << (n - nq)] = 1
        return v, "independent"
    return state_of(obj.prepare_reference_state(), n), "own-reference-circuit"


def vsqs_expected(cfg, obj, th, n):
    """VSQS state from its documented definition: reference, exp(-i dt H_init), then per interval exp(-i dt a_i H_init)
    exp(-i dt b_i H_final) [exp(-i dt c_i H_nav)], finally exp(-i dt H_final); every exponential is the first- or second-order
    (symmetric) Trotter product over the operator's terms in the order stored by the ansatz (h_*_list).  Needed because an
    ansatz whose build_circuit delegates to update_var_params cannot be told apart from its fresh build by the differential oracle."""
    if cfg.get("mol"):
        psi = state_of(obj.prepare_reference_state(), n)
    else:
        psi = R.run([{"n": "X", "t": [q]} for q in cfg["refx"]], n)
    order, dt = cfg["order"], cfg["time"] / cfg["iv"]

    def block(psi, lst, t):
        seq = [(w, c, t) for w, c in lst] if order == 1 else [(w, c, t / 2) for w, c in lst] + [(w, c, t / 2) for w, c in reversed(lst)]
        for w, c, tt in seq:
            ang = float(np.real(c)) * tt
            psi = math.cos(ang) * psi - 1j * math.sin(ang) * R.apply_pauli_term(psi, w, n)
        return psi

    stride = 3 if cfg.get("nav") else 2
    psi = block(psi, obj.h_init_list, dt)
    for i in range(cfg["iv"] - 1):
        psi = block(psi, obj.h_init_list, th[stride * i] * dt)
        psi = block(psi, obj.h_final_list, th[stride * i + 1] * dt)
        if cfg.get("nav"):
            psi = block(psi, obj.h_nav_list, th[stride * i + 2] * dt)
    return block(psi, obj.h_final_list, dt)


def adapt_pool_index(cfg, op):
    """Pool index of an add_op record; "kind" s/d selects among the singles / doubles of the UCCGSD pool (singles come first)."""
    pool = _adapt_pool(cfg)
    if op.get("kind") in ("s", "d"):
        from tangelo.toolboxes.ansatz_generator._general_unitary_cc import get_singles_number
        ns = get_singles_number(mol(cfg["mol"]).n_active_sos // 2)
        return op["i"] % ns if op["kind"] == "s" else ns + op["i"] % (len(pool) - ns)
    return op["i"] % len(pool)


def adapt_expected(cfg, obj, adapt_ops, th, n):
    """ADAPT state from its definition, independent of the ansatz object's bookkeeping: reference state, then for every added
    operator k (in the order added) and every Pauli word P_kj of it (term order of the operator, sign s_kj = +-1 as prepared by
    ADAPTSolver) the rotation exp(-i s_kj theta_k P_kj / 2)."""
    psi, _ = reference_state(cfg, obj, n)
    pool = _adapt_pool(cfg)
    for k, i in enumerate(adapt_ops):
        for word, sgn in pool[i].terms.items():
            ang = float(np.real(sgn)) * th[k] / 2
            psi = math.cos(ang) * psi - 1j * math.sin(ang) * R.apply_pauli_term(psi, word, n)
    return psi


def run_history(ctx, case):
    cfg, ops = case["cfg"], case["ops"]
    a = cfg["a"]
    tag = a + (":k>=3" if a == "UpCCGSD" and cfg["k"] >= 3 else "")
    adapt_ops = []
    obj = make(cfg)
    n_adv = obj.n_var_params
    if a == "VSQS" and n_adv != n_params_vsqs(cfg):
        raise Fail(f"VSQS advertises {n_adv} parameters, (intervals-1)*stride = {n_params_vsqs(cfg)}", sig="n_var_params:VSQS")
    labels = {a, f"mol={cfg.get('mol')}", f"map={str(cfg.get('map')).lower()}", f"utd={cfg.get('utd')}"}
    if a == "UpCCGSD":
        labels.add(f"k={cfg['k']}")
    if a == "VSQS":
        labels |= {f"order={cfg['order']}", f"intervals={cfg['iv']}", "h_nav" if cfg.get("nav") else "no-h_nav",
                   "molecule-form" if cfg.get("mol") else "qubit-form"}
    theta, last_state, last_n = None, None, None          # model: parameter vector the circuit must represent
    built = a == "VarCirc"
    patterns, n_updates, support_change, bad_attempt = [], 0, False, False
    prev_was_accept = False

    n_builds_with_ops, pending_after_rebuild = [0], [False]   # ADAPT reach: rebuild with operators present, then add, then non-zero update
    carrier = [None]                                      # caller-owned vector of the "reuse" mode
    aliasing_update = [False]

    def np_or_list(th, as_np):
        return np.array(th, dtype=float) if as_np else list(th)

    def hand_over(op, th, simple=False):
        """Returns (object to pass, mode actually used, call set_var_params first?). Records without "pass" (old replays) use "np"."""
        mode = op.get("pass") or ("numpy" if op.get("np") else "list")
        if simple and mode in ("stored", "set_then_update", "reuse"):       # wrong-length attempts: fresh objects only
            mode = "numpy" if op.get("np") else "list"
        if mode == "stored":
            v = obj.var_params
            if isinstance(v, (list, np.ndarray)) and len(v) == len(th) and not (isinstance(v, np.ndarray) and v.dtype.kind != "f"):
                v[:] = th
                return v, "stored", False
            labels.add("pass=stored:not-available")
            return list(th), "list", False
        if mode == "reuse":
            c = carrier[0]
            if c is None or len(c) != len(th):
                c = carrier[0] = np_or_list(th, op.get("np"))
                labels.add("pass=reuse:new-carrier")
            else:
                c[:] = th
                labels.add("pass=reuse:edited-in-place")
            return c, "reuse", False
        if mode == "set_then_update":
            return np_or_list(th, op.get("np")), mode, True
        if mode == "tuple":
            return tuple(th), mode, False
        return np_or_list(th, mode == "numpy"), mode, False

    def still_holds(vec, th, how):
        got = [float(x) for x in vec]
        if len(got) != len(th) or any(g != t for g, t in zip(got, th)):
            raise Fail(f"{a}.{how} modified the caller's parameter vector: passed {list(th)}, afterwards {got}",
                       sig=f"{a}.{how}:argument-mutated", passed=list(th), afterwards=got)

    def check_equiv(th, how):
        nonlocal last_state, last_n
        fresh = make(cfg, adapt_ops)
        with quiet():
            fresh.build_circuit(list(th))
        n = max(obj.circuit.width, fresh.circuit.width, 1)
        if n > 12:
            raise Skip("wider than 12 qubits")
        got, ref = state_of(obj.circuit, n), state_of(fresh.circuit, n)
        f = fidelity(got, ref)
        if abs(f - 1) > FID_TOL:
            raise Fail(f"{a}: after {how} the circuit's state differs from a fresh build_circuit(theta): fidelity {f:.12f}; "
                       f"theta={list(th)}; variational gates {len(obj.circuit._variational_gates)} vs fresh "
                       f"{len(fresh.circuit._variational_gates)}", sig=f"update-neq-rebuild:{tag}", theta=list(th), fidelity=f, after=how)
        if a == "VSQS":
            fs = fidelity(got, vsqs_expected(cfg, obj, th, n))
            if abs(fs - 1) > 1e-8:
                raise Fail(f"VSQS: after {how} the circuit's state differs from the Trotter product it documents: fidelity {fs:.12f}; "
                           f"theta={list(th)}", sig="vsqs-not-trotter-product", theta=list(th), fidelity=fs, after=how)
        if a == "ADAPT":
            fa = fidelity(got, adapt_expected(cfg, obj, adapt_ops, th, n))
            if abs(fa - 1) > 1e-8:
                raise Fail(f"ADAPT: after {how} the circuit's state differs from the product of word rotations exp(-i s theta_k P/2) of the "
                           f"{len(adapt_ops)} added operators: fidelity {fa:.12f}; theta={list(th)}", sig="adapt-not-product-of-word-rotations",
                           theta=list(th), fidelity=fa, after=how)
        if a in EXCITATION_BASED and len(th) > 0 and all(x == 0.0 for x in th):
            exp, kind = reference_state(cfg, obj, n)
            f0 = fidelity(got, exp)
            labels.add("all-zero->reference:" + kind)
            if abs(f0 - 1) > FID_TOL:
                raise Fail(f"{a}: all-zero parameters do not prepare the reference state (fidelity {f0:.12f}, {kind})",
                           sig=f"zero-not-reference:{a}", after=how)
        last_state, last_n = got, n

    def check_unchanged(how):
        if obj.circuit is None or last_state is None:
            return
        n = max(obj.circuit.width, last_n, 1)
        if n != last_n:
            raise Fail(f"{a}: circuit width changed by a refused {how}", sig=f"rejected-but-modified:{a}.{how}")
        f = fidelity(state_of(obj.circuit, n), last_state)
        if abs(f - 1) > FID_TOL:
            raise Fail(f"{a}: a refused {how} (wrong length) changed the circuit's state (fidelity to previous {f:.12f})",
                       sig=f"rejected-but-modified:{a}.{how}")

    for step, op in enumerate(ops):
        kind = op["op"]
        n = obj.n_var_params
        if kind in ("build", "update"):
            if kind == "update" and not built:
                kind = "build"
            th = expand(op["th"], n, theta)
            vec, mode, set_first = hand_over(op, th)
            with quiet():
                if set_first:
                    obj.set_var_params(vec)
                if kind == "build":
                    obj.build_circuit(vec)
                    built = True
                else:
                    obj.update_var_params(vec)
                    n_updates += 1
            still_holds(vec, th, "build_circuit" if kind == "build" else "update_var_params")
            labels.add(f"pass={mode}")
            labels.add(f"pass={mode}:{kind}")
            if a == "ADAPT":
                if kind == "build" and adapt_ops:
                    n_builds_with_ops[0] += 1
                    pending_after_rebuild[0] = False
                if kind == "update" and pending_after_rebuild[0] and th and all(x != 0.0 for x in th):
                    labels.add("nonzero-update-after-rebuild+add")
                if len(set(len(_adapt_pool(cfg)[i].terms) for i in adapt_ops)) >= 2:
                    labels.add("operators-of-different-word-counts")
            if kind == "update" and mode in ("stored", "set_then_update", "reuse"):
                aliasing_update[0] = True
            if obj.n_var_params != n:
                raise Fail(f"{a}: n_var_params changed from {n} to {obj.n_var_params} by {kind}", sig=f"n_var_params-changed:{a}")
            pat = tuple(x == 0.0 for x in th)
            if prev_was_accept and patterns and len(patterns[-1]) == len(pat) and kind == "update":
                if patterns[-1] != pat:
                    support_change = True
                    labels.add("support-change")
                    labels.add("zero->nonzero" if any(p and not c for p, c in zip(patterns[-1], pat)) else "nonzero->zero")
                else:
                    labels.add("same-support-update")
            patterns.append(pat)
            prev_was_accept = True
            theta = th
            if any(abs(x) > 2 * math.pi for x in th):
                labels.add("theta>2pi")
            if any(0 < abs(x) < 1e-6 for x in th):
                labels.add("theta-tiny")
            if len(set(th)) < len(th):
                labels.add("repeated-values")
            if kind == "build" and any(x == 0.0 for x in th) and not all(x == 0.0 for x in th):
                labels.add("zero-entry-at-build")
            if isinstance(vec, np.ndarray):
                labels.add("numpy-vector")
            labels.add(kind)
            check_equiv(th, f"{kind}#{step}")
        elif kind == "build_kw":
            kws = KEYWORDS[a]
            kw = kws[op["kw"] % len(kws)]
            ctx.np_seed(case)
            with quiet():
                obj.build_circuit(kw) if kw is not None else obj.build_circuit()
            built = True
            if obj.n_var_params != n:
                raise Fail(f"{a}: n_var_params changed from {n} to {obj.n_var_params} by build_circuit({kw!r})", sig=f"n_var_params-changed:{a}")
            th = [float(x) for x in np.asarray(obj.var_params, dtype=float).reshape(-1)]
            if len(th) != n:
                raise Fail(f"{a}: build_circuit({kw!r}) stored {len(th)} parameters, advertised {n}", sig=f"keyword-length:{a}")
            theta = th
            patterns.append(tuple(x == 0.0 for x in th))
            prev_was_accept = True
            labels.add("keyword-build" if kw is not None else "default-build")
            if a == "ADAPT" and adapt_ops:
                n_builds_with_ops[0] += 1
                pending_after_rebuild[0] = False
            check_equiv(th, f"build_circuit({kw!r})#{step}")
        elif kind in ("bad_update", "bad_build"):
            if kind == "bad_update" and not built:
                continue
            m = n + op["d"]
            if m < 0:
                m = 0 if n > 0 else 1
            if m == n:
                continue
            th = expand(op["th"], m, None)
            how = "update_var_params" if kind == "bad_update" else "build_circuit"
            bad_attempt = True
            labels.add(("short-" if m < n else "long-") + how)
            vec, mode, _ = hand_over(op, th, simple=True)
            labels.add(f"pass={mode}:wrong-length")
            try:
                with quiet():
                    if kind == "bad_update":
                        obj.update_var_params(vec)
                    else:
                        obj.build_circuit(vec)
            except (ValueError, AssertionError):
                pass
            else:
                raise Fail(f"{a}.{how} accepted a vector of length {m} while n_var_params = {n}",
                           sig=f"wrong-length-accepted:{a}.{how}", length=m, n_var_params=n)
            if obj.n_var_params != n:
                raise Fail(f"{a}: n_var_params changed from {n} to {obj.n_var_params} by a refused {how}", sig=f"n_var_params-changed:{a}")
            check_unchanged(how)
            prev_was_accept = False
        elif kind == "add_op":
            if not built:
                continue
            pool = _adapt_pool(cfg)
            pi = adapt_pool_index(cfg, op)
            rebuilt_with_ops = bool(adapt_ops) and n_builds_with_ops[0] > 0
            with quiet():
                obj.add_operator(copy.deepcopy(pool[pi]))
            adapt_ops.append(pi)
            labels.add("add:single" if len(pool[pi].terms) <= 4 else "add:double-or-longer")
            if rebuilt_with_ops:
                labels.add("add-after-rebuild-with-operators")
                pending_after_rebuild[0] = True
            if obj.n_var_params != n + 1:
                raise Fail(f"ADAPT: n_var_params {obj.n_var_params} after add_operator, expected {n + 1}", sig="n_var_params:ADAPT.add_operator")
            # the new gates carry a placeholder angle until the next update: no equivalence is claimed here
            theta, prev_was_accept = None, False
            last_n = max(obj.circuit.width, 1)
            last_state = state_of(obj.circuit, last_n)
            labels.add("add_operator")
            if len(adapt_ops) >= 2:
                labels.add("adapt-ops>=2")
        else:
            raise KeyError(kind)
    nontrivial = n_updates >= 1 and (support_change or tag.endswith("k>=3") or bad_attempt or bool(adapt_ops) or aliasing_update[0])
    return nontrivial, labels


# ------------------------------------------------------------------------------------------------ exclusion predicates
# Used only when the corresponding signature is listed as an open finding in known_findings.json (search continues behind it).

def _vsqs_zero_at_build(case):
    cfg = case["cfg"]
    if cfg["a"] != "VSQS":
        return False
    n = n_params_vsqs(cfg)
    prev = None
    for op in case["ops"]:
        if op["op"] in ("build", "update"):
            th = expand(op["th"], n, prev)
            prev = th
            if any(abs(x) < 1e-6 for x in th):
                return True
        elif op["op"] == "build_kw":
            prev = None
    return False


def _has(opname, fam):
    return lambda case: case["cfg"]["a"] == fam and any(o["op"] == opname for o in case["ops"])


EXCLUSIONS = {
    "update-neq-rebuild:UpCCGSD:k>=3": lambda case: case["cfg"]["a"] == "UpCCGSD" and case["cfg"]["k"] >= 3,
    "update-neq-rebuild:VSQS": _vsqs_zero_at_build,
    "exception:IndexError@tangelo/toolboxes/ansatz_generator/vsqs.py:_update_gate_params_for_qu_op": _vsqs_zero_at_build,
    "wrong-length-accepted:VSQS.update_var_params": _has("bad_update", "VSQS"),
    "exception:IndexError@tangelo/toolboxes/ansatz_generator/vsqs.py:update_var_params": _has("bad_update", "VSQS"),
    "wrong-length-accepted:ADAPT.update_var_params": _has("bad_update", "ADAPT"),
    "exception:IndexError@tangelo/toolboxes/ansatz_generator/adapt_ansatz.py:update_var_params": _has("bad_update", "ADAPT"),
}


def _family_part(ctx, fam, name=None, keep=None, frac=1.0):
    cfgs = [c for c in family_configs(fam, ctx.tier) if keep is None or keep(c)]
    max_ops = 6 if ctx.tier == "quick" else 10
    ctx.search(name or fam.lower(), histories(fam, st.sampled_from(cfgs), max_ops), lambda case: run_history(ctx, case),
               exclusions=EXCLUSIONS, frac=frac)


# ------------------------------------------------------------------------------------------------ parts

@part("uccsd", quick=80, thorough=5000)
def p_uccsd(ctx):
    _family_part(ctx, "UCCSD", "uccsd_closed", keep=lambda c: c["mol"] in ("H2", "LiH", "H4"), frac=0.4)
    _family_part(ctx, "UCCSD", "uccsd_rohf", keep=lambda c: c["mol"] == "H3", frac=0.3)
    _family_part(ctx, "UCCSD", "uccsd_uhf", keep=lambda c: c["mol"] == "H4uhf", frac=0.3)


@part("rucc", quick=24, thorough=800)
def p_rucc(ctx):
    _family_part(ctx, "RUCC")


@part("upccgsd", quick=72, thorough=5000)
def p_upccgsd(ctx):
    _family_part(ctx, "UpCCGSD", "upccgsd_k12", keep=lambda c: c["k"] <= 2, frac=0.35)
    _family_part(ctx, "UpCCGSD", "upccgsd_k34", keep=lambda c: c["k"] >= 3, frac=0.65)


@part("uccgd", quick=48, thorough=1500)
def p_uccgd(ctx):
    _family_part(ctx, "UCCGD", "uccgd", keep=lambda c: c["map"] != "scbk", frac=0.45)
    _family_part(ctx, "UCCGD", "uccgd_scbk", keep=lambda c: c["map"] == "scbk", frac=0.55)   # encoding that merges words of different excitations


@part("hea", quick=40, thorough=2500)
def p_hea(ctx):
    _family_part(ctx, "HEA")


@part("qmf", quick=24, thorough=1200)
def p_qmf(ctx):
    _family_part(ctx, "QMF")


@part("qcc", quick=32, thorough=1600)
def p_qcc(ctx):
    _family_part(ctx, "QCC")


@part("ilc", quick=24, thorough=1200)
def p_ilc(ctx):
    _family_part(ctx, "ILC")


@part("puccd", quick=24, thorough=1200)
def p_puccd(ctx):
    _family_part(ctx, "pUCCD")


@part("adapt", quick=64, thorough=3200)
def p_adapt(ctx):
    cfgs = family_configs("ADAPT", ctx.tier)
    max_ops = 9 if ctx.tier == "quick" else 12
    ctx.search("adapt", adapt_histories(st.sampled_from(cfgs), max_ops), lambda case: run_history(ctx, case), exclusions=EXCLUSIONS)


@st.composite
def vsqs_configs(draw, tier):
    iv = draw(st.integers(2, 4))
    order = draw(st.sampled_from([1, 2]))
    time = draw(st.sampled_from([1.0, 0.5, 2.0]))
    if draw(st.integers(0, 2)) == 0:      # molecule form
        m = draw(st.sampled_from(["H2", "H2", "H3"] if tier == "quick" else ["H2", "H3", "H4"]))
        mp = draw(st.sampled_from(["jw", "bk", "scbk", "jkmn"]))
        nq = {"H2": 4, "H3": 6, "H4": 8}[m] - (2 if mp == "scbk" else 0)
        cfg = {"a": "VSQS", "mol": m, "map": mp, "utd": draw(st.booleans()), "iv": iv, "order": order, "time": time}
    else:                                 # qubit-Hamiltonian form
        nq = draw(st.integers(1, 4))
        coeff = dict(complex_coeffs=False)
        cfg = {"a": "VSQS", "mol": None, "nq": nq, "iv": iv, "order": order, "time": time,
               "ham": draw(S.qubit_ops(nq, max_terms=6, **coeff)), "hinit": draw(S.qubit_ops(nq, max_terms=4, **coeff)),
               "refx": sorted(draw(st.lists(st.integers(0, nq - 1), unique=True, max_size=nq)))}
    cfg["nav"] = draw(S.qubit_ops(nq, max_terms=3, complex_coeffs=False)) if draw(st.integers(0, 2)) == 0 else None
    return cfg


@part("vsqs", quick=56, thorough=3000)
def p_vsqs(ctx):
    max_ops = 6 if ctx.tier == "quick" else 10
    ctx.search("vsqs", histories("VSQS", vsqs_configs(ctx.tier), max_ops), lambda case: run_history(ctx, case), exclusions=EXCLUSIONS)


@st.composite
def varcirc_configs(draw, tier):
    c = draw(S.circuits(max_width=4 if tier == "quick" else 5, max_gates=10 if tier == "quick" else 16, min_gates=1,
                        angle=st.floats(-7, 7, allow_nan=False)))
    for g in c["gates"]:
        if g["p"] is not None and draw(st.booleans()):
            g["v"] = True
    return {"a": "VarCirc", "circ": c}


@part("varcirc", quick=60, thorough=4000)
def p_varcirc(ctx):
    max_ops = 6 if ctx.tier == "quick" else 10
    ctx.search("varcirc", histories("VarCirc", varcirc_configs(ctx.tier), max_ops), lambda case: run_history(ctx, case))
