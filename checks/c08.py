"""C08 - variational solver energies are faithful and variational.

VQESolver.energy_estimation(theta) against <psi|H|psi> of the state prepared by the circuit the solver assembles
(reference override + ansatz + projective circuit), simulated by the independent reference simulator; lower bound by
the lowest eigenvalue of the Hamiltonian the solver holds; deflation identity; N / Sz / S^2 expectation values from
operator_expectation under every encoding, spelling and spin-orbital ordering; simulate() consistency.
"""
import math

import numpy as np
from hypothesis import strategies as st

from vlib.runner import part, Fail, Skip
from vlib import refsim as R, refops as O, strategies as S, h_c08 as H

PROPERTY = "C08"
RULE = ("Hypothesis-generated solver configurations: molecule (H2 sto-3g/6-31g, H3, H4 chain/ring/generic, LiH, H2O with frozen "
        "orbitals; drawn bond scaling and atom displacements; charge/spin from admissible sets; RHF/ROHF/UHF; frozen-orbital "
        "lists incl. interior and per-spin lists; <= 8 qubits) or random real qubit Hamiltonian (1-5 qubits) x ansatz "
        "(UCCSD, UpCCGSD k=1-3, UCCGD, HEA, QCC, ILC, QMF, VSQS, pUCCD/HCB, UCC1, UCC3, user variational circuit) x "
        "encoding spelling (jw JW bk BK scbk scBK SCBK jkmn JKMN) x ordering x parameter vector (zeros, single non-zero entry, "
        "cyclic patterns with exact zeros / multiples of pi/4 / values beyond 2pi) x optional reference override (occupation "
        "vector or circuit), projective circuit, penalty terms, 1-2 deflation circuits with drawn coefficient. Oracle = "
        "dense reference simulation of the assembled gate list and dense Pauli matrices of solver.qubit_hamiltonian; "
        "N/Sz/S^2 built from their definitions. Part history: on ONE built solver a generated sequence of steps (energy_estimation at parameters from a small pool incl. the same array object, replacing qubit_hamiltonian, appending/removing deflation circuits, changing deflation_coeff, setting/clearing projective_circuit, operator_expectation in between); after every evaluation the value must equal the oracle of the solver's current configuration. Independent Hamiltonian clause (parts mol_energy, penalty): the matrix of solver.qubit_hamiltonian must equal the molecular Hamiltonian plus the documented penalty sum_k mu_k (O_k - v_k)^2 assembled by the check (Fock-space matrices under JW, own N/Sz/S^2 definitions mapped with complete arguments otherwise), energy_estimation must be its expectation; part penalty makes Sz / S^2 penalties with up_then_down=True (explicit or forced by QCC/ILC under JW) frequent and calls build() again 0-2 times on the same solver (after changing backend_options / initial_var_params) with the same oracle. Part simulate: simulate() is called again on the same solver after re-configurations (own optimal circuit / generated circuit appended as deflation circuit, deflation_coeff changed, Hamiltonian replaced); each reported optimum must equal <psi|H|psi> + deflation of optimal_circuit and energy_estimation(optimal_var_params) under the CURRENT configuration. Non-trivial = parameter vector has a non-zero entry and the prepared "
        "state is not a computational basis state. Distinct = distinct canonical JSON of the case.")
ASSUMPTIONS = ["numpy/scipy dense linear algebra", "reference gate table and Pauli matrices in vlib/refsim.py, Fock-space ladder matrices in vlib/refops.py (self-tested)",
               "PySCF SCF supplies the molecular orbitals; the identities checked hold for any orbital set, so SCF quality is not trusted",
               "encoded N/Sz/S^2 for bk/scbk/jkmn use tangelo.fermion_to_qubit_mapping with complete arguments (faithfulness of the encodings is property C03); for jw the Fock-space matrices are applied to the state directly",
               "only the cirq backend (exact, noiseless, no shots) is exercised; ansatz parameter update == rebuild is property C07",
               "deflation circuits are not wider than the circuit the solver evaluates (overlap with a state on a larger register is not defined by the API)"]
SHARDS = {"quick": 4, "thorough": 16}

TOL = 1e-8
UCC_FAMILY = ("UCCSD", "UpCCGSD", "UCCGD")
MAPPINGS = ["BK", "scbk", "JKMN", "jw", "bk", "JW", "scBK", "SCBK", "jkmn"]
SIG_OPEXP = "operator_expectation:raises-for-molecule-solver"
SIG_REFVEC = "build:ref-state-vector-refused-for-qmf-family"
SIG_QCCPEN = "exception:AttributeError@tangelo/algorithms/variational/vqe_solver.py:build"
SIG_ZERO = "exception:ValueError@tangelo/toolboxes/qubit_mappings/mapping_transform.py:make_up_then_down"


def selftest():
    R.selftest()
    O.selftest()
    H.selftest()
    # Pauli expectation: term-by-term and dense agree
    psi = R.run([{"n": "H", "t": [0]}, {"n": "CNOT", "t": [1], "c": [0]}, {"n": "RY", "t": [2], "p": 0.3}], 3)
    terms = {((0, "X"), (1, "X")): 0.5, ((2, "Z"),): -1.25, (): 0.1}
    a = R.qop_expectation(terms, psi, 3)
    b, _ = H.expectation(terms, psi, 3)
    assert abs(a - b) < 1e-12 and abs(a - (0.5 - 1.25 * math.cos(0.3) + 0.1)) < 1e-12


# ------------------------------------------------------------------------------------------------ case strategies

def n_qubits_for(mapping, n_sos):
    if mapping.upper() == "SCBK":
        return n_sos - 2
    if mapping.upper() == "HCB":
        return n_sos // 2
    return n_sos


SMALL_GATES = ["X", "H", "RY", "RZ", "RX", "CNOT", "CZ", "S", "PHASE", "CRY", "SWAP"]


@st.composite
def small_circuit(draw, width, max_gates=6, variational=False, min_gates=0, fixed=True):
    """circuit case on exactly `width` qubits (n_qubits pinned) from an invertible gate set"""
    c = draw(S.circuits(min_width=width, max_width=width, max_gates=max_gates, min_gates=min_gates, names=SMALL_GATES,
                        max_controls=1, allow_fixed=False, angle=S.angles(big=False)))
    c["nq"] = width if fixed else None
    if variational:
        for g in c["gates"]:
            if g["p"] is not None and draw(st.booleans()):
                g["v"] = True
    return c


@st.composite
def ansatz_specs(draw, names):
    nm = draw(st.sampled_from(names))
    o = {}
    if nm == "UpCCGSD":
        o = {"k": draw(st.sampled_from([1, 2, 2, 3]))}
    elif nm == "HEA":
        o = {"n_layers": draw(st.integers(1, 3)), "rot_type": draw(st.sampled_from(["euler", "real"]))}
    elif nm == "VSQS":
        o = {"intervals": draw(st.sampled_from([2, 3])), "trotter_order": draw(st.sampled_from([1, 2]))}
    return nm, o


CHEAP = ["UCCSD", "UpCCGSD", "HEA", "QMF", "pUCCD", "circuit"]
COSTLY = ["UCCGD", "QCC", "ILC", "VSQS"]
MOL_GROUPS = [(("UCCSD",), 0.18), (("UpCCGSD", "UCCGD"), 0.16), (("HEA", "circuit"), 0.18), (("QCC", "ILC", "QMF"), 0.22),
              (("VSQS",), 0.08), (("pUCCD", "UCC1", "UCC3"), 0.18)]


@st.composite
def mol_solver_cases(draw, names=None, allow_ref=True, allow_proj=True, allow_penalty=True, mappings=None, big=True, mol=None):
    names = names or (CHEAP * 2 + COSTLY + ["UCC1", "UCC3"])
    nm, aopts = draw(ansatz_specs(names))
    if nm in ("UCC1", "UCC3"):
        # HOMO-LUMO problems only, JW with all spin-up first (documented ValueError otherwise)
        mol = draw(H.molecules(families=["H2"], refs=("rhf",), max_active=2, min_active=2))
        mol["basis"] = "sto-3g"
        mol["frozen"] = None
        mapping, utd = draw(st.sampled_from(["jw", "JW"])), True
    else:
        max_act = 4 if (nm in CHEAP and big) else 3
        refs = ("rhf",) if nm == "pUCCD" else (("rhf", "rohf") if nm == "VSQS" else ("rhf", "rohf", "uhf"))
        mol = draw(mol if mol is not None else H.molecules(max_active=max_act, refs=refs, max_mos=(4 if nm == "VSQS" else 7)))
        mapping = draw(st.sampled_from(mappings or MAPPINGS))
        utd = draw(st.booleans())
    info = H.active_info(mol)
    nq = n_qubits_for("HCB" if nm == "pUCCD" else mapping, info["n_sos"])
    case = {"mol": mol, "ansatz": nm, "aopts": aopts, "mapping": mapping, "utd": utd, "theta": draw(H.theta_specs()),
            "ref": None, "proj": None, "penalty": None}
    if nm == "circuit":
        case["aopts"] = {"circuit": draw(small_circuit(nq, max_gates=10, variational=True, min_gates=1))}
    # (QCC / ILC started from an occupation vector are mostly refused for an empty DIS: drawn less often)
    if allow_ref and nm not in ("UCC1", "UCC3", "VSQS", "pUCCD") and draw(st.integers(0, 9 if nm in ("QCC", "ILC") else 3)) == 0:
        # reference override: occupation vector in the same (n_alpha, n_beta) sector, or a preparation circuit
        if draw(st.booleans()) or nm in ("QCC", "ILC", "QMF"):
            n_orb = info["n_sos"] // 2
            la, lb = len(info["act_a"]), len(info["act_b"])
            pa = sorted(draw(st.permutations(list(range(la))))[: info["na"]])
            pb = sorted(draw(st.permutations(list(range(lb))))[: info["nb"]])
            vec = [0] * (2 * n_orb)
            for i in pa:
                vec[2 * i] = 1
            for i in pb:
                vec[2 * i + 1] = 1
            case["ref"] = {"kind": "vector", "vec": vec}
        elif nm != "circuit":
            case["ref"] = {"kind": "circuit", "circuit": draw(small_circuit(nq, max_gates=4))}
    if allow_proj and draw(st.integers(0, 4)) == 0:
        case["proj"] = draw(small_circuit(nq, max_gates=3, min_gates=1))
    if allow_penalty and not mol["uhf"] and nm != "pUCCD" and draw(st.integers(0, 4)) == 0:
        pen = {}
        for k, val in (("N", info["na"] + info["nb"]), ("Sz", (info["na"] - info["nb"]) / 2), ("S^2", 0.75)):
            if draw(st.booleans()):
                pen[k] = [draw(st.sampled_from([0.5, 1.5, 10.0])), draw(st.sampled_from([val, val + 1, 0]))]
        case["penalty"] = pen or {"N": [1.5, info["na"] + info["nb"]]}
    return case


def build_mol_solver(ctx, case, extra=None):
    """VQESolver (built) for a molecule-based case. Documented refusals become Skip."""
    from tangelo.algorithms.variational import VQESolver, BuiltInAnsatze
    mol = H.get_molecule(case["mol"], ctx.rec)
    nm = case["ansatz"]
    opts = {"molecule": mol, "qubit_mapping": case["mapping"], "up_then_down": case["utd"]}
    if nm == "circuit":
        opts["ansatz"] = S.build_circuit(case["aopts"]["circuit"])
    else:
        opts["ansatz"] = getattr(BuiltInAnsatze, nm)
        if case["aopts"]:
            opts["ansatz_options"] = dict(case["aopts"])
    if case.get("ref"):
        opts["ref_state"] = list(case["ref"]["vec"]) if case["ref"]["kind"] == "vector" else S.build_circuit(case["ref"]["circuit"])
    if case.get("proj"):
        opts["projective_circuit"] = S.build_circuit(case["proj"])
    if case.get("penalty"):
        opts["penalty_terms"] = {k: list(v) for k, v in case["penalty"].items()}
    if extra:
        opts.update(extra)
    ctx.np_seed(case)
    try:
        solver = VQESolver(opts)
        solver.build()
    except NotImplementedError as e:
        if "closed-shell" in str(e) or "UHF" in str(e):
            raise Skip(f"{nm}: documented NotImplementedError")
        raise
    except ValueError as e:
        if nm in ("QCC", "ILC") and "The DIS is empty" in str(e):
            raise Skip(f"{nm}: no generator above the gradient threshold (documented ValueError)")
        if nm in ("QCC", "ILC", "QMF") and case.get("ref") and case["ref"]["kind"] == "vector" and "supported reference state" in str(e):
            # documented input ("QMF, QCC, ILC require ref_state to be an array") refused by the solver's own option handling
            raise Fail(f"VQESolver with ansatz {nm} and ref_state={case['ref']['vec']} (occupation vector) cannot be built: {e}",
                       sig=SIG_REFVEC)
        raise
    return mol, solver


def solver_state(solver):
    """State prepared by the circuit the solver evaluates: (reference override) + ansatz (+ projective circuit)."""
    circuits = []
    if solver.ref_state is not None:
        circuits.append(solver.reference_circuit)
    circuits.append(solver.ansatz.circuit)
    if solver.projective_circuit:
        circuits.append(solver.projective_circuit)
    terms = solver.qubit_hamiltonian.terms
    return H.run_circuits(circuits, n=H.op_n_qubits(terms))


def solver_state_with(solver, ref_circuit):
    """State of (explicit reference circuit) + ansatz (+ projective), as operator_expectation assembles it."""
    circuits = [ref_circuit, solver.ansatz.circuit, solver.projective_circuit if solver.projective_circuit else None]
    return H.run_circuits(circuits, n=H.op_n_qubits(solver.qubit_hamiltonian.terms))


def check_energy(solver, theta, what):
    """energy_estimation(theta) == <psi|M(H)|psi> and >= lambda_min(M(H)). Returns (energy, psi, n)."""
    e = solver.energy_estimation(np.array(theta, dtype=float) if len(theta) else [])
    psi, n = solver_state(solver)
    terms = solver.qubit_hamiltonian.terms
    ref, M = H.expectation(terms, psi, n)
    if not np.isfinite(complex(e)) or abs(complex(e) - ref) > TOL:
        raise Fail(f"{what}: energy_estimation = {e!r}, <psi|H|psi> of the assembled circuit = {ref!r}", sig=f"{what}:energy-vs-state",
                   energy=str(e), reference=str(ref))
    if M is not None:
        herm = float(np.max(np.abs(M - M.conj().T)))
        lam = float(np.linalg.eigvalsh((M + M.conj().T) / 2)[0])
    else:
        lam, herm = H.lambda_min(terms)
    if herm < 1e-9 and complex(e).real < lam - TOL:
        raise Fail(f"{what}: energy {e!r} below the lowest eigenvalue {lam!r} of the solver's Hamiltonian", sig=f"{what}:below-lambda-min")
    return complex(e).real, psi, n


def effective_utd(case):
    """QCC / ILC under Jordan-Wigner are documented (RuntimeWarning) to switch to the all-spin-up-first ordering."""
    return bool(case["utd"]) or (case["ansatz"] in ("QCC", "ILC") and case["mapping"].lower() == "jw")


def given_hamiltonian_matrix(mol, case):
    """Dense matrix of the Hamiltonian the solver was GIVEN, assembled here and not read from the solver: the molecular
    Hamiltonian under the case's encoding / ordering plus the documented penalty sum_k mu_k (O_k - v_k)^2, with O_k = N,
    Sz, S^2 from their definitions.  Under Jordan-Wigner (<= 6 qubits) everything comes from Fock-space matrices, for the
    other encodings from fermion_to_qubit_mapping with complete arguments (encoding faithfulness: C03; N, Sz, S^2 conserve
    the scBK symmetries, so encoding a product equals the product of the encodings)."""
    from tangelo.toolboxes.operators import FermionOperator
    from tangelo.toolboxes.qubit_mappings.mapping_transform import fermion_to_qubit_mapping
    n_sos, utd, mapping = mol.n_active_sos, effective_utd(case), case["mapping"]
    nq = n_qubits_for(mapping, n_sos)
    direct = mapping.upper() == "JW" and nq <= 6
    kw = dict(n_spinorbitals=n_sos, n_electrons=mol.n_active_electrons, up_then_down=utd, spin=mol.active_spin)
    hf_terms = mol.fermionic_hamiltonian.terms
    if direct:
        perm = O.up_then_down_perm(n_sos) if utd else list(range(n_sos))
        M = O.fermion_matrix(O.relabel_terms(hf_terms, perm), nq)
    else:
        M = R.qop_matrix(fermion_to_qubit_mapping(mol.fermionic_hamiltonian, mapping, **kw).terms, nq)
    for which, (mu, val) in (case.get("penalty") or {}).items():
        if not mu > 0:
            continue          # documented: a penalty is added only for a positive prefactor
        if direct:
            Mo = {"N": O.number_op, "Sz": O.sz_op, "S^2": O.s2_op}[which]
            Mo = (Mo(nq) if which == "N" else Mo(nq, utd)).toarray()
        else:
            fop = FermionOperator()
            for t, c in H.sym_fermion_terms(which, n_sos // 2).items():
                fop += FermionOperator(t, c)
            Mo = R.qop_matrix(fermion_to_qubit_mapping(fop, mapping, **kw).terms, nq)
        D = Mo - val * np.eye(2 ** nq)
        M = M + mu * (D @ D)
    return M, nq, direct


GIVEN_TOL = 1e-6


def check_given_hamiltonian(mol, solver, case, what, theta=None):
    """solver.qubit_hamiltonian is the Hamiltonian the solver was given; energy_estimation(theta) is its expectation."""
    M, nq, direct = given_hamiltonian_matrix(mol, case)
    terms = solver.qubit_hamiltonian.terms
    if H.op_n_qubits(terms) > nq:
        raise Fail(f"{what}: solver.qubit_hamiltonian addresses {H.op_n_qubits(terms)} qubits, encoding has {nq}", sig=f"{what}:hamiltonian-width")
    Ms = R.qop_matrix(terms, nq)
    scale = max(1.0, float(np.max(np.abs(M))))
    dev = float(np.max(np.abs(Ms - M)))
    # The solver's operator went through openfermion arithmetic, which drops coefficients below 1e-8 at each step; matrix
    # entries add up many such terms (thorough tier: deviations of 5e-8 and 2e-7 on the unchanged tree). A wrongly
    # assembled Hamiltonian or penalty differs by >= 1e-3.
    if dev > GIVEN_TOL * scale:
        raise Fail(f"{what}: solver.qubit_hamiltonian deviates by {dev} from molecular Hamiltonian + documented penalty "
                   f"{case.get('penalty')} [mapping {case['mapping']}, up_then_down {effective_utd(case)}]",
                   sig=f"{what}:hamiltonian-vs-given" + (":penalty" if case.get("penalty") else ""))
    if theta is not None:
        e = solver.energy_estimation(np.array(theta, dtype=float) if len(theta) else [])
        psi, n = solver_state(solver)
        if n == nq:
            ref = complex(np.vdot(psi, M @ psi))
            if abs(complex(e) - ref) > GIVEN_TOL * scale:
                raise Fail(f"{what}: energy_estimation = {e!r}, <psi| H_mol + penalty |psi> = {ref!r} (penalty {case.get('penalty')})",
                           sig=f"{what}:energy-vs-given-hamiltonian")
    return direct


def case_labels(case, theta, psi):
    m = case["mol"]
    out = {f"ansatz={case['ansatz']}", f"mapping={case['mapping'].upper()}", f"utd={case['utd']}",
           "ref=" + ("uhf" if m["uhf"] else ("rhf" if m["spin"] == 0 else "rohf")), f"family={m['family']}"}
    fr = m["frozen"]
    if fr:
        out.add("frozen")
        _, na, nb = H.static_occ(m)
        fa, fb = H.frozen_lists(m)
        if any(i > 0 and (i - 1) not in fa for i in fa) or any(i >= na for i in fa):
            out.add("frozen-interior-or-virtual")
        if m["uhf"] and fa != fb:
            out.add("frozen-per-spin-different")
    if m["uhf"]:
        info = H.active_info(m)
        if info["na"] - info["nb"] != m["spin"]:
            out.add("active-spin!=spin")
            ne = info["na"] + info["nb"]
            if case["mapping"].upper() == "SCBK" and (ne // 2 + (info["na"] - info["nb"]) // 2) % 2 != (ne // 2 + m["spin"] // 2) % 2:
                out.add("scbk-sector-differs-for-molecular-spin")
    if case.get("ref"):
        out.add("ref-override-" + case["ref"]["kind"])
    if case.get("proj"):
        out.add("projective")
    if case.get("penalty"):
        out.add("penalty")
    if any(t == 0.0 for t in theta) and any(t != 0.0 for t in theta):
        out.add("zero-in-theta")
    if theta and all(t == 0.0 for t in theta):
        out.add("theta-all-zero")
    if any(abs(t) > 2 * math.pi for t in theta):
        out.add("theta>2pi")
    return out


def is_refvec_qmf(case):
    return case["ansatz"] in ("QCC", "ILC", "QMF") and bool(case.get("ref")) and case["ref"]["kind"] == "vector"


def is_qcc_penalty(case):
    return case["ansatz"] == "QCC" and bool(case.get("penalty"))


def is_zero_ucc(case):
    """exclusion predicate of the make_up_then_down finding: all-zero parameters for a UCC-type ansatz with
    up_then_down=True (the excitation operator is empty)."""
    th = case["theta"]
    zero = th["mode"] == "zeros" or (th["mode"] == "cycle" and all(v == 0.0 for v in th["vals"]))
    return case["ansatz"] in UCC_FAMILY and case["utd"] and zero


# ------------------------------------------------------------------------------------------------ part 1: molecules

@part("mol_energy", quick=120, thorough=2400)
def mol_energy(ctx):
    def body(case):
        mol, solver = build_mol_solver(ctx, case)
        theta = H.theta_vector(case["theta"], solver.ansatz.n_var_params)
        hterms_before = dict(solver.qubit_hamiltonian.terms)
        e, psi, n = check_energy(solver, theta, "mol")
        # the reference override really is the state the ansatz starts from: for a UCC-type ansatz at theta = 0 under
        # JW the prepared state is the basis state of the requested occupation vector
        if (case.get("ref") and case["ref"]["kind"] == "vector" and case["ansatz"] in UCC_FAMILY and not case.get("proj")
                and case["mapping"].upper() == "JW" and theta and all(t == 0.0 for t in theta)):
            vec = case["ref"]["vec"]
            if case["utd"]:
                vec = vec[0::2] + vec[1::2]
            idx = O.index_of(vec + [0] * (n - len(vec)))
            if abs(abs(psi[idx]) - 1) > TOL:
                raise Fail(f"reference override {case['ref']['vec']}: state at theta=0 is not the requested determinant",
                           sig="mol:ref-override-not-prepared")
        if dict(solver.qubit_hamiltonian.terms) != hterms_before:
            raise Fail("energy_estimation changed solver.qubit_hamiltonian", sig="mol:hamiltonian-changed")
        labels = case_labels(case, theta, psi) | {f"qubits={n}"}
        if case["ansatz"] != "pUCCD" and n_qubits_for(case["mapping"], mol.n_active_sos) <= 8:
            direct = check_given_hamiltonian(mol, solver, case, "mol")
            labels.add("given-hamiltonian-" + ("fock-direct" if direct else "encoded"))
        nontrivial = any(t != 0.0 for t in theta) and not H.is_basis_state(psi)
        return nontrivial, labels

    # one search per ansatz group, so that every built-in ansatz is reached in every run (Hypothesis' choice among
    # 13 names with ~18 examples per shard would leave some of them out)
    for grp, frac in MOL_GROUPS:
        ctx.search("mol_energy[" + "+".join(grp) + "]", mol_solver_cases(names=list(grp), big=True), body, frac=frac,
                   exclusions={SIG_ZERO: is_zero_ucc, SIG_REFVEC: is_refvec_qmf, SIG_QCCPEN: is_qcc_penalty})


# ------------------------------------------------------------------------------------------------ part 2: N, Sz, S^2

SYM_ANSATZE = ["UCCSD", "UCCSD", "UpCCGSD", "UCCGD", "HEA", "QMF", "circuit"]


@st.composite
def sym_cases(draw, mappings, force_asym=False):
    c = draw(mol_solver_cases(names=SYM_ANSATZE if not force_asym else ["UCCSD", "UpCCGSD", "HEA", "QMF"], allow_proj=False,
                              allow_penalty=False, mappings=mappings, big=draw(st.integers(0, 3)) == 0 or force_asym,
                              mol=None if not force_asym else H.molecules(families=["H4-ring", "H4-chain", "H4-rand", "H3"], refs=("uhf",))
                              .filter(lambda m: H.static_occ(m)[1] >= 2 and m["spin"] in (0, 2))))
    c["form"] = draw(st.sampled_from(["str", "str", "str", "fermion", "qubit"]))
    if c["ansatz"] in UCC_FAMILY and draw(st.integers(0, 3)) == 0:
        c["theta"], c["ref"] = {"mode": "zeros"}, None      # reference determinant: physical N, Sz, S^2 are known
    m = c["mol"]
    n_mos, na, nb = H.static_occ(m)
    if m["uhf"] and n_mos <= 4 and na >= 2 and c["ansatz"] != "circuit" and (force_asym or draw(st.integers(0, 2)) == 0):
        # freeze one occupied alpha orbital only: the active spin differs from the molecular spin
        m["frozen"], c["ref"] = [[draw(st.integers(0, na - 1))], []], None
    return c


def encoded_symmetry_op(which, mol, case):
    """Qubit operator of N / Sz / S^2 (term dict from the definition) under the solver's encoding, built with complete
    arguments: number of spin-orbitals, active electrons, active spin, ordering."""
    from tangelo.toolboxes.operators import FermionOperator
    from tangelo.toolboxes.qubit_mappings.mapping_transform import fermion_to_qubit_mapping
    n_sos = mol.n_active_sos
    fop = FermionOperator()
    for t, c in H.sym_fermion_terms(which, n_sos // 2).items():
        fop += FermionOperator(t, c)
    qop = fermion_to_qubit_mapping(fop, case["mapping"], n_spinorbitals=n_sos, n_electrons=mol.n_active_electrons,
                                   up_then_down=case["utd"], spin=mol.active_spin)
    return fop, qop


@part("sym_ops", quick=100, thorough=1600)
def sym_ops(ctx):
    def body(case):
        mol, solver = build_mol_solver(ctx, case)
        info = H.active_info(case["mol"])
        theta = H.theta_vector(case["theta"], solver.ansatz.n_var_params)
        tarr = np.array(theta, dtype=float) if len(theta) else []
        e0, psi, n = check_energy(solver, theta, "sym")
        ham_obj, ham_terms = solver.qubit_hamiltonian, dict(solver.qubit_hamiltonian.terms)
        kw = {}
        if solver.ref_state is not None:
            kw["ref_state"] = solver.reference_circuit     # documented argument: reference state preparation circuit
        jw = case["mapping"].upper() == "JW"
        aufbau = H.aufbau_ok(mol, case["mol"])
        at_reference = (case["ansatz"] in UCC_FAMILY and all(t == 0.0 for t in theta) and not case.get("ref") and aufbau)
        physical = H.determinant_sym_values(info["occ_pos_a"], info["occ_pos_b"])
        labels = case_labels(case, theta, psi) | {f"form={case['form']}"}
        for which in ("N", "Sz", "S^2"):
            fop, qop = encoded_symmetry_op(which, mol, case)
            arg = which if case["form"] == "str" else (fop if case["form"] == "fermion" else qop)
            try:
                val = solver.operator_expectation(arg, tarr, **kw)
            except (ValueError, TypeError, KeyError) as ex:
                raise Fail(f"operator_expectation({which!r} as {case['form']}) raised {type(ex).__name__}: {ex} "
                           f"[mapping={case['mapping']!r}, up_then_down={case['utd']}, uhf={case['mol']['uhf']}]",
                           sig=SIG_OPEXP if not case["mol"]["uhf"] else SIG_OPEXP + ":uhf")
            # the state of the circuit the solver has just evaluated (whether a repeated parameter update reproduces the
            # same circuit is property C07, not re-examined here)
            psi, n = solver_state_with(solver, kw.get("ref_state"))
            ref, _ = H.expectation(qop.terms, psi, n)
            if abs(complex(val) - ref) > TOL:
                raise Fail(f"operator_expectation({which!r}) = {val!r}, the state has {ref!r} under the {case['mapping']} encoding",
                           sig="sym:value-vs-encoded-operator")
            if jw and n <= 8:
                # Jordan-Wigner: qubit p is spin-orbital p, the Fock-space matrix acts on the state directly
                Mf = {"N": O.number_op, "Sz": O.sz_op, "S^2": O.s2_op}[which]
                Mf = Mf(n) if which == "N" else Mf(n, case["utd"])
                direct = complex(np.vdot(psi, Mf @ psi))
                if abs(complex(val) - direct) > TOL:
                    raise Fail(f"JW: operator_expectation({which!r}) = {val!r}, Fock-space value of the state {direct!r}",
                               sig="sym:value-vs-fock-matrix")
                labels.add("jw-direct")
            if at_reference and abs(complex(val) - physical[which]) > 1e-7:
                raise Fail(f"theta=0: reference determinant has {which} = {physical[which]}, operator_expectation gives {val!r}",
                           sig="sym:reference-values")
            if solver.qubit_hamiltonian is not ham_obj or dict(solver.qubit_hamiltonian.terms) != ham_terms:
                raise Fail(f"operator_expectation({which!r}) did not restore solver.qubit_hamiltonian", sig="sym:hamiltonian-not-restored")
        if at_reference:
            labels.add("reference-values-checked")
        check_energy(solver, theta, "sym-after")      # the solver still evaluates its own Hamiltonian afterwards
        return any(t != 0.0 for t in theta) and not H.is_basis_state(psi), labels

    def excl_opexp(case):
        return not (case["mapping"] == "scbk" or (case["mapping"].upper() == "JW" and not case["utd"]))

    # one search per encoding (all its spellings, both orderings), so that each is reached in every run
    excl = None
    for grp in (["JW", "jw"], ["bk", "BK"], ["scBK", "scbk", "SCBK"], ["jkmn", "JKMN"], "scbk-active-spin"):
        if grp == "scbk-active-spin":
            # UHF with one occupied alpha orbital frozen: the scBK sector of the active space differs from the one the
            # molecular spin would give
            ctx.search("sym_ops[scbk-active-spin]", sym_cases(["scbk", "scBK", "SCBK"], force_asym=True), body, frac=0.08, exclusions=excl)
            continue
        ctx.search(f"sym_ops[{grp[0].lower()}]", sym_cases(grp), body, frac=0.18,
                   exclusions={SIG_OPEXP: lambda c: (not c["mol"]["uhf"]) and excl_opexp(c) and c["form"] != "qubit",
                               SIG_OPEXP + ":uhf": lambda c: c["mol"]["uhf"] and c["form"] != "qubit",
                               SIG_ZERO: is_zero_ucc, SIG_REFVEC: is_refvec_qmf})
        excl = {SIG_OPEXP + ":uhf": lambda c: c["form"] != "qubit", SIG_ZERO: is_zero_ucc}

    # solver initialised with a qubit Hamiltonian: the caller supplies orbital / electron numbers explicitly
    @st.composite
    def explicit_cases(draw):
        mol = draw(H.molecules(max_active=3, refs=("rhf", "rohf")))
        return {"mol": mol, "mapping": draw(st.sampled_from(MAPPINGS)), "utd": draw(st.booleans()),
                "n_layers": draw(st.integers(1, 2)), "rot_type": draw(st.sampled_from(["euler", "real"])),
                "theta": draw(H.theta_specs())}

    def body_explicit(case):
        from tangelo.algorithms.variational import VQESolver, BuiltInAnsatze
        from tangelo.toolboxes.qubit_mappings.mapping_transform import fermion_to_qubit_mapping
        mol = H.get_molecule(case["mol"], ctx.rec)
        n_sos, ne, spin = mol.n_active_sos, mol.n_active_electrons, mol.active_spin
        qham = fermion_to_qubit_mapping(mol.fermionic_hamiltonian, case["mapping"], n_spinorbitals=n_sos, n_electrons=ne,
                                        up_then_down=case["utd"], spin=spin)
        nq = n_qubits_for(case["mapping"], n_sos)
        ctx.np_seed(case)
        solver = VQESolver({"qubit_hamiltonian": qham, "ansatz": BuiltInAnsatze.HEA, "qubit_mapping": case["mapping"],
                            "up_then_down": case["utd"],
                            "ansatz_options": {"n_qubits": nq, "n_electrons": ne, "spin": spin, "n_layers": case["n_layers"],
                                               "rot_type": case["rot_type"], "reference_state": "zero"}})
        solver.build()
        theta = H.theta_vector(case["theta"], solver.ansatz.n_var_params)
        e0, psi, n = check_energy(solver, theta, "sym-explicit")
        ham_obj = solver.qubit_hamiltonian
        mcase = {"mapping": case["mapping"], "utd": case["utd"]}
        for which in ("N", "Sz", "S^2"):
            _, qop = encoded_symmetry_op(which, mol, mcase)
            val = solver.operator_expectation(which, np.array(theta), n_active_mos=n_sos // 2, n_active_electrons=ne,
                                              n_active_sos=n_sos, spin=spin)
            ref, _ = H.expectation(qop.terms, psi, n)
            if abs(complex(val) - ref) > TOL:
                raise Fail(f"operator_expectation({which!r}) with explicit arguments = {val!r}, state has {ref!r}",
                           sig="sym-explicit:value-vs-encoded-operator")
            if solver.qubit_hamiltonian is not ham_obj:
                raise Fail("operator_expectation did not restore solver.qubit_hamiltonian", sig="sym:hamiltonian-not-restored")
        return any(t != 0.0 for t in theta) and not H.is_basis_state(psi), {f"mapping={case['mapping'].upper()}", f"utd={case['utd']}"}

    ctx.search("sym_explicit", explicit_cases(), body_explicit, frac=0.2)


# ------------------------------------------------------------------------------------------------ part 3: qubit Hamiltonians

@st.composite
def real_qubit_ops(draw, n, max_terms=8):
    op = draw(S.qubit_ops(n, max_terms=max_terms, complex_coeffs=False))
    if draw(st.booleans()):
        op.append([[], draw(st.floats(-2, 2).map(lambda x: round(x, 4))), 0.0])      # constant term
    # make sure the top qubit is addressed, so that the operator really lives on n qubits
    if not any(q == n - 1 for t, _, _ in op for q, _ in t):
        op.append([[[n - 1, "Z"]], 0.5, 0.0])
    return op


@st.composite
def qham_cases(draw, deflation=False):
    n = draw(st.sampled_from([1, 2, 2, 3, 3, 4, 4, 5]))
    kind = draw(st.sampled_from(["HEA", "HEA", "circuit", "circuit", "VSQS"]))
    if n == 1 and kind == "HEA":
        kind = "circuit"     # HEA needs an entangling layer
    case = {"n": n, "ham": draw(real_qubit_ops(n)), "kind": kind, "theta": draw(H.theta_specs()),
            "mapping": draw(st.sampled_from(["jw", "JW", "bk", "BK", "jkmn"])), "ref": None, "proj": None}
    if kind == "HEA":
        hf = draw(st.booleans()) and n % 2 == 0
        case["aopts"] = {"n_qubits": n, "n_layers": draw(st.integers(1, 3)), "rot_type": draw(st.sampled_from(["euler", "real"])),
                         "reference_state": "HF" if hf else "zero"}
        if hf:
            case["aopts"]["n_electrons"] = draw(st.integers(1, n - 1))
            case["aopts"]["spin"] = case["aopts"]["n_electrons"] % 2
    elif kind == "circuit":
        case["circuit"] = draw(small_circuit(n, max_gates=10, variational=True, min_gates=1))
    else:
        case["h_init"] = [[[[q, "Z"]], draw(st.sampled_from([0.5, -0.5, 1.0, -0.25])), 0.0] for q in range(n)]
        case["vref"] = {"gates": [{"n": "X", "t": [q], "c": None, "p": None} for q in range(n) if draw(st.booleans())], "nq": n}
        case["aopts"] = {"intervals": draw(st.sampled_from([2, 3])), "trotter_order": draw(st.sampled_from([1, 2])),
                         "time": draw(st.sampled_from([1.0, 0.3]))}
    if kind != "VSQS" and draw(st.integers(0, 2)) == 0:
        case["ref"] = draw(small_circuit(n, max_gates=4))
    if draw(st.integers(0, 3)) == 0:
        case["proj"] = draw(small_circuit(n, max_gates=3, min_gates=1))
    if deflation and kind == "circuit" and n >= 2 and draw(st.booleans()):
        # user circuit on the lower n-1 qubits only (width not pinned), reference circuit reaching the top qubit: the
        # ansatz circuit is narrower than the circuit that is evaluated
        case["circuit"] = draw(small_circuit(n - 1, max_gates=8, variational=True, min_gates=1, fixed=False))
        ref = draw(small_circuit(n, max_gates=3))
        ref["gates"].append({"n": draw(st.sampled_from(["X", "H"])), "t": [n - 1], "c": None, "p": None})
        case["ref"] = ref
    if deflation:
        k = draw(st.integers(1, 2))
        case["defl"] = [draw(small_circuit(draw(st.integers(1, n)), max_gates=8, fixed=draw(st.booleans()))) for _ in range(k)]
        if draw(st.integers(0, 2)) == 0:
            case["defl"][0] = {"same_as_ansatz": True, "theta": draw(H.theta_specs())}
        case["coeff"] = draw(st.sampled_from([1.0, 0.5, 2.5, -1.0, 0.0]) | st.floats(-3, 3).map(lambda x: round(x, 4)))
    return case


def build_qham_solver(ctx, case, deflation_circuits=None):
    from tangelo.algorithms.variational import VQESolver, BuiltInAnsatze
    qham = S.build_qubit_op(case["ham"])
    opts = {"qubit_hamiltonian": qham, "qubit_mapping": case["mapping"]}
    if case["kind"] == "HEA":
        opts["ansatz"] = BuiltInAnsatze.HEA
        opts["ansatz_options"] = dict(case["aopts"])
    elif case["kind"] == "circuit":
        opts["ansatz"] = S.build_circuit(case["circuit"])
    else:
        opts["ansatz"] = BuiltInAnsatze.VSQS
        opts["ansatz_options"] = dict(case["aopts"], qubit_hamiltonian=qham, h_init=S.build_qubit_op(case["h_init"]),
                                      reference_state=S.build_circuit(case["vref"]))
    if case.get("ref"):
        opts["ref_state"] = S.build_circuit(case["ref"])
    if case.get("proj"):
        opts["projective_circuit"] = S.build_circuit(case["proj"])
    if deflation_circuits is not None:
        opts["deflation_circuits"] = deflation_circuits
        opts["deflation_coeff"] = case["coeff"]
    ctx.np_seed(case)
    solver = VQESolver(opts)
    solver.build()
    return solver


def qham_labels(case, theta):
    out = {f"kind={case['kind']}", f"n={case['n']}"}
    if case.get("ref"):
        out.add("ref-override-circuit")
    if case.get("proj"):
        out.add("projective")
    if any(t == 0.0 for t in theta) and any(t != 0.0 for t in theta):
        out.add("zero-in-theta")
    return out


@part("qubit_ham", quick=100, thorough=4000)
def qubit_ham(ctx):
    def body(case):
        solver = build_qham_solver(ctx, case)
        theta = H.theta_vector(case["theta"], solver.ansatz.n_var_params)
        e, psi, n = check_energy(solver, theta, "qham")
        return any(t != 0.0 for t in theta) and not H.is_basis_state(psi), qham_labels(case, theta)

    ctx.search("qubit_ham", qham_cases(), body)


# ------------------------------------------------------------------------------------------------ part 4: deflation

def deflation_circuits_for(case, solver_plain, n):
    """Tangelo circuits and reference states phi_k of the deflation circuits of the case."""
    circs, phis = [], []
    for d in case["defl"]:
        if d.get("same_as_ansatz"):
            # a circuit of the same structure as the ansatz at other parameters (the usual use: a previous optimum)
            th = H.theta_vector(d["theta"], solver_plain.ansatz.n_var_params)
            solver_plain.ansatz.update_var_params(np.array(th, dtype=float) if len(th) else [])
            c = solver_plain.ansatz.circuit.copy()
        else:
            c = S.build_circuit(d)
        phi, _ = H.run_circuits([c], n=n)
        circs.append(c)
        phis.append(phi)
    return circs, phis


def check_deflation(ctx, case, build, what):
    plain = build(None)
    theta = H.theta_vector(case["theta"], plain.ansatz.n_var_params)
    tarr = np.array(theta, dtype=float) if len(theta) else []
    n_h = H.op_n_qubits(plain.qubit_hamiltonian.terms)
    circs, _ = deflation_circuits_for(case, plain, max(n_h, plain.ansatz.circuit.width))
    e_plain, psi_p, n_p = check_energy(plain, theta, what)
    defl = build(circs)
    e_defl = defl.energy_estimation(tarr)
    psi, n = solver_state(defl)
    n = max([n] + [c.width for c in circs])
    psi, _ = H.run_circuits([defl.reference_circuit if defl.ref_state is not None else None, defl.ansatz.circuit,
                             defl.projective_circuit if defl.projective_circuit else None], n=n)
    phis = [H.run_circuits([c], n=n)[0] for c in circs]
    overlap = sum(abs(np.vdot(phi, psi)) ** 2 for phi in phis)
    expect = case["coeff"] * overlap
    # plain energy of the very state the deflated solver prepared
    e_state, _ = H.expectation(defl.qubit_hamiltonian.terms, psi, n)
    tol = TOL * max(1.0, abs(case["coeff"]))
    widths = f"deflation widths {[c.width for c in circs]}, ansatz width {defl.ansatz.circuit.width}, full circuit width {n}"
    if abs((e_defl - e_state.real) - expect) > tol:
        narrow = defl.ansatz.circuit.width < n
        raise Fail(f"E_defl - <psi|H|psi> = {e_defl - e_state.real!r}, coeff * sum |<phi_k|psi>|^2 = {expect!r} (coeff {case['coeff']}, {widths})",
                   sig=f"{what}:deflation-identity" + (":ansatz-narrower-than-circuit" if narrow else ""))
    labels = {f"n_defl={len(circs)}"}
    same_state = n_p == n and float(np.max(np.abs(psi_p - psi))) <= TOL
    if same_state:
        # the solver without deflation circuits, same options and parameters
        if abs((e_defl - e_plain) - expect) > tol:
            raise Fail(f"E_defl - E_plain = {e_defl - e_plain!r}, coeff * sum |<phi_k|psi>|^2 = {expect!r} ({widths})", sig=f"{what}:deflation-identity-vs-plain-solver")
        labels.add("plain-solver-compared")
    else:
        labels.add("plain-solver-state-differs(C07)")     # repeated parameter updates not reproducing the circuit: property C07
    if any(c.width < defl.ansatz.circuit.width for c in circs):
        labels.add("narrow-deflation")
    if defl.ansatz.circuit.width < n:
        labels.add("ansatz-narrower-than-circuit")
    if any(d.get("same_as_ansatz") for d in case["defl"]):
        labels.add("deflation=ansatz-structure")
    if overlap > 1e-6:
        labels.add("overlap>0")
    if overlap > 0.5:
        labels.add("overlap>0.5")
    if case["coeff"] < 0:
        labels.add("negative-coeff")
    return theta, psi, overlap, labels


@part("deflation", quick=80, thorough=3000)
def deflation(ctx):
    def body(case):
        theta, psi, overlap, labels = check_deflation(ctx, case, lambda dc: build_qham_solver(ctx, case, dc), "defl")
        return (any(t != 0.0 for t in theta) and not H.is_basis_state(psi) and overlap > 1e-9), labels | qham_labels(case, theta)

    ctx.search("deflation_qham", qham_cases(deflation=True), body, frac=0.75,
               exclusions={"defl:deflation-identity:ansatz-narrower-than-circuit":
                           lambda c: c["kind"] == "circuit" and c["circuit"].get("nq") is None})

    # molecule-based solvers (small active spaces), incl. reference override as in the documented excited-state recipe
    @st.composite
    def mol_defl_cases(draw):
        c = draw(mol_solver_cases(names=["UCCSD", "UpCCGSD", "HEA", "QMF", "pUCCD"], allow_proj=False, allow_penalty=False, big=False))
        k = draw(st.integers(1, 2))
        info = H.active_info(c["mol"])
        nq = n_qubits_for("HCB" if c["ansatz"] == "pUCCD" else c["mapping"], info["n_sos"])
        c["defl"] = [draw(st.one_of(st.fixed_dictionaries({"same_as_ansatz": st.just(True), "theta": H.theta_specs()}),
                                    small_circuit(draw(st.integers(max(1, nq - 1), nq)), max_gates=6))) for _ in range(k)]
        c["coeff"] = draw(st.sampled_from([1.0, 0.5, 2.5, -1.0]))
        return c

    def body_mol(case):
        theta, psi, overlap, labels = check_deflation(ctx, case, lambda dc: build_mol_solver(ctx, case, None if dc is None else
                                                      {"deflation_circuits": dc, "deflation_coeff": case["coeff"]})[1], "defl-mol")
        return (any(t != 0.0 for t in theta) and not H.is_basis_state(psi) and overlap > 1e-9), labels | case_labels(case, theta, psi)

    ctx.search("deflation_mol", mol_defl_cases(), body_mol, frac=0.25, exclusions={SIG_ZERO: is_zero_ucc, SIG_REFVEC: is_refvec_qmf})


# ------------------------------------------------------------------------------------------------ part 5: simulate()

@part("simulate", quick=32, thorough=320)
def simulate(ctx):
    @st.composite
    def cases(draw):
        nm = draw(st.sampled_from(["UCCSD", "UCC1", "UCC3", "pUCCD", "QMF", "HEA"]))
        mol = draw(H.molecules(families=["H2"], refs=("rhf",), max_active=2, min_active=2))
        mol["basis"], mol["frozen"] = "sto-3g", None
        c = {"mol": mol, "ansatz": nm, "aopts": {}, "mapping": draw(st.sampled_from(MAPPINGS)), "utd": draw(st.booleans()),
             "ref": None, "proj": None, "penalty": None, "defl": None}
        if nm in ("UCC1", "UCC3"):
            c["mapping"], c["utd"] = "jw", True
        if nm == "HEA":
            c["aopts"] = {"n_layers": 1, "rot_type": "real"}
        nq = n_qubits_for("HCB" if nm == "pUCCD" else c["mapping"], 4)
        if draw(st.booleans()):
            c["defl"] = [draw(small_circuit(nq, max_gates=5))]
            c["coeff"] = draw(st.sampled_from([1.0, 0.4]))
        # simulate() again on the same solver after a re-configuration (mostly one that raises the objective)
        c["again"] = [draw(st.one_of(
            st.fixed_dictionaries({"op": st.just("defl_optimal"), "coeff": st.sampled_from([1.5, 0.7, 3.0])}),
            st.fixed_dictionaries({"op": st.just("defl_circuit"), "circuit": small_circuit(nq, max_gates=5), "coeff": st.sampled_from([1.5, 0.7])}),
            st.fixed_dictionaries({"op": st.just("coeff"), "v": st.sampled_from([2.5, 4.0, 0.0])}),
            st.fixed_dictionaries({"op": st.just("ham"), "shift": st.sampled_from([1.5, 0.5, -0.5]), "extra": real_qubit_ops(nq, max_terms=3)})))
            for _ in range(draw(st.sampled_from([1, 1, 2, 0])))]
        return c

    def body(case):
        from tangelo.toolboxes.operators import QubitOperator
        extra = {"initial_var_params": "ones" if case["ansatz"] in ("UCCSD", "HEA", "UCC1", "UCC3", "pUCCD") else None}
        if case["defl"]:
            extra.update({"deflation_circuits": [S.build_circuit(d) for d in case["defl"]], "deflation_coeff": case["coeff"]})
        mol, solver = build_mol_solver(ctx, case, {k: v for k, v in extra.items() if v is not None})
        labels = {f"ansatz={case['ansatz']}", f"mapping={case['mapping'].upper()}", "deflation" if case["defl"] else "plain"}
        nontrivial = False

        def run(tag):
            """simulate() and compare with the solver's CURRENT configuration"""
            e = solver.simulate()
            if e != solver.optimal_energy:
                raise Fail(f"{tag}: simulate() return value differs from optimal_energy", sig="simulate:return-vs-attribute")
            terms = solver.qubit_hamiltonian.terms
            dcs = list(solver.deflation_circuits)
            n = max([H.op_n_qubits(terms), solver.optimal_circuit.width] + [c.width for c in dcs])
            psi, n = H.run_circuits([solver.optimal_circuit], n=n)
            ref, _ = H.expectation(terms, psi, n)
            pen = sum(solver.deflation_coeff * abs(np.vdot(H.run_circuits([c], n=n)[0], psi)) ** 2 for c in dcs)
            if abs(e - (ref.real + pen)) > TOL * max(1.0, abs(solver.deflation_coeff)):
                raise Fail(f"{tag}: simulate() = {e!r}; optimal_circuit gives <H> + deflation = {ref.real + pen!r} with the current "
                           f"configuration ({len(dcs)} deflation circuit(s), coeff {solver.deflation_coeff})", sig=f"simulate:energy-vs-optimal-circuit{tag}")
            e_again = solver.energy_estimation(solver.optimal_var_params)
            if abs(e_again - e) > TOL * max(1.0, abs(solver.deflation_coeff)):
                raise Fail(f"{tag}: simulate() = {e!r} but energy_estimation(optimal_var_params) = {e_again!r}", sig=f"simulate:energy-vs-estimation{tag}")
            lam, herm = H.lambda_min(terms)
            if herm < 1e-9 and all(solver.deflation_coeff >= 0 for _ in dcs) and e - pen < lam - TOL:
                raise Fail(f"{tag}: optimised energy {e - pen!r} below lambda_min {lam!r}", sig="simulate:below-lambda-min")
            return e, psi

        e, psi = run("")
        nontrivial = not H.is_basis_state(psi)
        for step in case["again"]:
            if step["op"] == "defl_optimal":
                solver.deflation_circuits = list(solver.deflation_circuits) + [solver.optimal_circuit]
                solver.deflation_coeff = step["coeff"]
            elif step["op"] == "defl_circuit":
                solver.deflation_circuits.append(S.build_circuit(step["circuit"]))
                solver.deflation_coeff = step["coeff"]
            elif step["op"] == "coeff":
                solver.deflation_coeff = step["v"]
            else:
                solver.qubit_hamiltonian = solver.qubit_hamiltonian + S.build_qubit_op(step["extra"]) * 0.1 + QubitOperator((), step["shift"])
            e_new, psi = run(":second-simulate")
            labels.add("again=" + step["op"])
            if e_new > e + 1e-6:
                labels.add("objective-rose")
            e = e_new
        return nontrivial, labels

    ctx.search("simulate", cases(), body)


# ------------------------------------------------------------------------------------------------ part 6: histories on one solver

@st.composite
def history_cases(draw, molecule_based):
    """One solver configuration plus a generated sequence of steps on that single solver object. Steps are plain records:
       {"op": "E", "i": k, "same": bool}        energy_estimation(theta_k) (same=True: the very array object used before)
       {"op": "ham", "j": k}                    solver.qubit_hamiltonian = k-th operator (0 = the one it was built with)
       {"op": "defl_add", "c": k, "inplace": b} append the k-th circuit to deflation_circuits (in place or by assignment)
       {"op": "defl_pop"}                       remove the last deflation circuit
       {"op": "coeff", "v": x}                  solver.deflation_coeff = x
       {"op": "proj", "c": k | None}            set / clear solver.projective_circuit
       {"op": "opexp", "j": k, "i": m}          operator_expectation(k-th operator, theta_m) (swaps the Hamiltonian temporarily)"""
    if molecule_based:
        base = draw(mol_solver_cases(names=["UCCSD", "HEA", "UpCCGSD", "pUCCD", "QMF"], allow_ref=False, allow_proj=False,
                                     allow_penalty=False, big=False))
        info = H.active_info(base["mol"])
        nq = n_qubits_for("HCB" if base["ansatz"] == "pUCCD" else base["mapping"], info["n_sos"])
    else:
        base = draw(qham_cases())
        base["ref"], base["proj"] = None, None
        nq = base["n"]
    pool = [draw(H.theta_specs()) for _ in range(draw(st.integers(1, 3)))]
    hams = [draw(real_qubit_ops(nq, max_terms=5)) for _ in range(2)]
    circs = [draw(small_circuit(draw(st.integers(max(1, nq - 1), nq)), max_gates=5, min_gates=1)) for _ in range(3)]

    def change():
        k = draw(st.integers(0, 6))
        if k <= 1:
            return {"op": "ham", "j": draw(st.integers(0, 2))}
        if k == 2:
            return {"op": "defl_add", "c": draw(st.integers(0, 2)), "inplace": draw(st.booleans())}
        if k == 3:
            return {"op": "defl_pop"}
        if k == 4:
            return {"op": "coeff", "v": draw(st.sampled_from([1.0, 0.5, 2.5, -1.0, 0.0]))}
        if k == 5:
            return {"op": "proj", "c": draw(st.sampled_from([0, 1, 2, None]))}
        return {"op": "opexp", "j": draw(st.integers(0, 2)), "i": draw(st.integers(0, len(pool) - 1))}

    steps = []
    for _ in range(draw(st.integers(1, 5))):
        # a round: evaluate, re-configure the solver, evaluate again - mostly at the same parameters
        i = draw(st.integers(0, len(pool) - 1))
        steps.append({"op": "E", "i": i, "same": False})
        for _ in range(draw(st.integers(0, 2))):
            steps.append(change())
        j = i if draw(st.integers(0, 2)) > 0 else draw(st.integers(0, len(pool) - 1))
        steps.append({"op": "E", "i": j, "same": draw(st.booleans())})
    return {"base": base, "mol_based": molecule_based, "pool": pool, "hams": hams, "circs": circs, "steps": steps}


@part("history", quick=72, thorough=2400)
def history(ctx):
    def body(case):
        base = case["base"]
        if case["mol_based"]:
            _, solver = build_mol_solver(ctx, base)
        else:
            solver = build_qham_solver(ctx, base)
        n_par = solver.ansatz.n_var_params
        thetas = [np.array(H.theta_vector(sp, n_par), dtype=float) for sp in case["pool"]]
        ham_ops = [solver.qubit_hamiltonian] + [S.build_qubit_op(h) for h in case["hams"]]
        circs = [S.build_circuit(c) for c in case["circs"]]
        # model of the configuration the solver is in
        m_ham, m_defl, m_coeff, m_proj = 0, [], solver.deflation_coeff, None
        labels, last_E, changed_since, stale_window = set(), {}, {}, False
        nontrivial = False
        for pos, st_ in enumerate(case["steps"]):
            op = st_["op"]
            if op == "ham":
                solver.qubit_hamiltonian = ham_ops[st_["j"]]
                m_ham = st_["j"]
            elif op == "defl_add":
                if st_["inplace"]:
                    solver.deflation_circuits.append(circs[st_["c"]])
                else:
                    solver.deflation_circuits = list(solver.deflation_circuits) + [circs[st_["c"]]]
                m_defl = m_defl + [st_["c"]]
            elif op == "defl_pop":
                if m_defl:
                    solver.deflation_circuits.pop()
                    m_defl = m_defl[:-1]
            elif op == "coeff":
                solver.deflation_coeff = st_["v"]
                m_coeff = st_["v"]
            elif op == "proj":
                solver.projective_circuit = None if st_["c"] is None else circs[st_["c"]]
                m_proj = st_["c"]
            elif op == "opexp":
                th = thetas[st_["i"]]
                val = solver.operator_expectation(ham_ops[st_["j"]], th)
                n = max(H.op_n_qubits(ham_ops[st_["j"]].terms), H.op_n_qubits(solver.qubit_hamiltonian.terms))
                psi, n = H.run_circuits([solver.ansatz.circuit, solver.projective_circuit if solver.projective_circuit else None], n=n)
                ref, _ = H.expectation(ham_ops[st_["j"]].terms, psi, n)
                if abs(complex(val) - ref) > TOL:
                    raise Fail(f"step {pos}: operator_expectation = {val!r}, state has {ref!r}", sig="history:operator-expectation")
                if solver.qubit_hamiltonian is not ham_ops[m_ham]:
                    raise Fail(f"step {pos}: operator_expectation did not restore solver.qubit_hamiltonian", sig="history:hamiltonian-not-restored")
                labels.add("op=opexp")
            if op != "E":
                if op != "opexp":
                    for k in changed_since:
                        changed_since[k] = True
                    labels.add("op=" + op)
                continue
            # ---- energy evaluation: oracle from the solver's current configuration
            i = st_["i"]
            th = thetas[i] if st_["same"] else thetas[i].copy()
            e = solver.energy_estimation(th)
            if solver.qubit_hamiltonian is not ham_ops[m_ham] or len(solver.deflation_circuits) != len(m_defl) or solver.deflation_coeff != m_coeff:
                raise Fail(f"step {pos}: energy_estimation altered the solver configuration", sig="history:configuration-altered")
            terms = solver.qubit_hamiltonian.terms
            dcs = list(solver.deflation_circuits)
            n = max([H.op_n_qubits(terms), solver.ansatz.circuit.width] + [c.width for c in dcs]
                    + ([solver.projective_circuit.width] if solver.projective_circuit else []))
            psi, n = H.run_circuits([solver.ansatz.circuit, solver.projective_circuit if solver.projective_circuit else None], n=n)
            ref, _ = H.expectation(terms, psi, n)
            pen = sum(solver.deflation_coeff * abs(np.vdot(H.run_circuits([c], n=n)[0], psi)) ** 2 for c in dcs)
            expect = ref.real + pen
            if not np.isfinite(complex(e)) or abs(complex(e) - expect) > TOL * max(1.0, abs(m_coeff)):
                repeat = i in last_E and changed_since.get(i, False)
                raise Fail(f"step {pos}: energy_estimation = {e!r}; current configuration (Hamiltonian #{m_ham}, {len(dcs)} deflation "
                           f"circuit(s), coeff {m_coeff}, projective {m_proj}) gives {expect!r}"
                           + (f"; value of the earlier evaluation at the same parameters: {last_E[i]!r}" if i in last_E else ""),
                           sig="history:energy-vs-current-configuration" + (":repeat-after-reconfiguration" if repeat else ""))
            if not dcs:
                lam, herm = H.lambda_min(terms)
                if herm < 1e-9 and complex(e).real < lam - TOL:
                    raise Fail(f"step {pos}: energy {e!r} below lambda_min {lam!r} of the current Hamiltonian", sig="history:below-lambda-min")
            if i in last_E and changed_since.get(i, False):
                labels.add("same-theta-after-reconfiguration")
                if abs(last_E[i] - expect) > 1e-6:
                    labels.add("same-theta-after-reconfiguration:energy-differs")
                    nontrivial = True
                if st_["same"]:
                    labels.add("same-array-object")
            elif i in last_E:
                labels.add("same-theta-unchanged-configuration")
            # only the immediately preceding evaluation matters for a one-entry memory, but track all
            last_E[i] = expect
            changed_since[i] = False
            if dcs:
                labels.add("deflation-active")
            if solver.projective_circuit:
                labels.add("projective-active")
            if m_ham:
                labels.add("hamiltonian-replaced")
        labels.add("mol-based" if case["mol_based"] else "qham-based")
        labels.add(f"steps={min(len(case['steps']), 12)}")
        return nontrivial, labels

    ctx.search("history_qham", history_cases(False), body, frac=0.7)
    ctx.search("history_mol", history_cases(True), body, frac=0.3, exclusions={SIG_ZERO: is_zero_ucc})


# ------------------------------------------------------------------------------------------------ part 7: penalty terms, re-builds

@st.composite
def penalty_cases(draw):
    nm = draw(st.sampled_from(["UCCSD", "HEA", "QCC", "circuit", "ILC", "UpCCGSD", "QMF"]))
    c = draw(mol_solver_cases(names=[nm], allow_ref=False, allow_proj=False, allow_penalty=False, big=draw(st.integers(0, 4)) == 0,
                              mappings=["JW", "jw", "scbk", "BK", "JKMN", "jw", "bk", "scBK", "jkmn"],
                              mol=H.molecules(max_active=3 if nm in ("QCC", "ILC") else 4, refs=("rhf", "rohf"))))
    c["utd"] = draw(st.sampled_from([True, True, False]))
    info = H.active_info(c["mol"])
    ne, sz = info["na"] + info["nb"], (info["na"] - info["nb"]) / 2
    pen = {}
    kinds = draw(st.sampled_from([["Sz"], ["S^2"], ["Sz", "S^2"], ["N", "Sz"], ["N", "Sz", "S^2"], ["N"], []]))
    for k in kinds:
        val = {"N": ne, "Sz": sz, "S^2": sz * (sz + 1)}[k]
        pen[k] = [draw(st.sampled_from([2.0, 0.5, 1.5, 10.0])), draw(st.sampled_from([val, val + 1, 0, 0.75]))]
    c["penalty"] = pen or None
    # further calls of build() on the same solver, each after re-configuring what build() picks up
    c["rebuilds"] = [draw(st.sampled_from(["backend_options", "initial_var_params", "nothing"])) for _ in range(draw(st.integers(0, 2)))]
    return c


@part("penalty", quick=56, thorough=1600)
def penalty(ctx):
    def body(case):
        mol, solver = build_mol_solver(ctx, case)
        theta = H.theta_vector(case["theta"], solver.ansatz.n_var_params)
        direct = check_given_hamiltonian(mol, solver, case, "penalty", theta)
        psi, n = solver_state(solver)
        labels = case_labels(case, theta, psi) | {"given-hamiltonian-" + ("fock-direct" if direct else "encoded")}
        for k in (case.get("penalty") or {}):
            labels.add("penalty=" + k)
        if case.get("penalty") and effective_utd(case) and any(k in case["penalty"] for k in ("Sz", "S^2")):
            labels.add("spin-penalty-with-up_then_down")
        for i, what in enumerate(case["rebuilds"]):
            if what == "backend_options":
                solver.backend_options = {"target": "cirq", "n_shots": None, "noise_model": None}
            elif what == "initial_var_params":
                solver.initial_var_params = np.array(theta, dtype=float) if len(theta) else solver.initial_var_params
            ctx.np_seed(case)
            solver.build()
            th = H.theta_vector(case["theta"], solver.ansatz.n_var_params)
            check_given_hamiltonian(mol, solver, case, "penalty-rebuild", th)       # after build() number i + 2
            labels.add(f"rebuild:{what}")
            labels.add(f"builds={i + 2}")
        if H.is_basis_state(psi):
            labels.add("basis-state")
        return bool(case.get("penalty")), labels        # the Hamiltonian comparison does not depend on the state

    ctx.search("penalty", penalty_cases(), body, exclusions={SIG_ZERO: is_zero_ucc})
