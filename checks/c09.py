"""C09 - circuit transformations preserve the implemented operation.

Every transformation is applied to generated circuits (plain gate records) and the result is compared with an
independent dense reference unitary (vlib/refsim.py) built from the *case data*, never from the object that was handed
to Tangelo.  Out-of-place forms are additionally checked for "input unchanged" (full snapshot) and for aliasing between
output and input gate objects.
"""
from math import pi
import numpy as np
from hypothesis import strategies as st

from vlib.runner import part, Fail, Skip
from vlib import refsim as R, strategies as S

PROPERTY = "C09"
RULE = ("Hypothesis-generated circuits over the invertible gate set (H,X,Y,Z,S,T,RX,RY,RZ,PHASE,CNOT,CX,CY,CZ,CH,CRX,CRY,CRZ,"
        "CPHASE,XX,SWAP,CSWAP; 1-3 controls; int and float angles: random in [-4pi,4pi], k*pi, k*pi/2, 2*pi*k+eps with "
        "eps down to 1e-9, values around the thresholds, up to 1e3) into which inverse pairs (exact, shifted by 2pi/4pi, "
        "shifted by eps), repeated rotations on the same qubits and interleaved gates on disjoint qubits are inserted on "
        "purpose; thresholds {0,1e-6,1e-3,0.1,random}; index patterns with gaps / unordered placement / fixed width "
        "larger than used. Transformations: Gate.inverse, Gate.__eq__, Circuit.inverse/copy/+/*, remove_small_rotations, "
        "merge_rotations, remove_redundant_gates, simplify (function and method forms, remove_qubits on/off), split, "
        "stack, trim_qubits, reindex_qubits, trim_trivial_circuit; decompose_gate_to_cliffords is swept exhaustively over "
        "RX/RY/RZ/PHASE x k*pi/2 (k in [-16,16]) x offsets x abs_tol. Oracle: reference unitaries compared up to a "
        "global phase (1e-8; dropped rotations within #dropped*threshold/2). Non-trivial = the transformation changed "
        "the gate list, or the circuit has a controlled rotation with |angle|>pi, or index gaps / several unentangled "
        "parts / an equal-comparing pair of distinct gate records. Distinct = distinct canonical JSON of (search, case).")
ASSUMPTIONS = ["numpy linear algebra", "reference gate table in vlib/refsim.py (self-tested against scipy expm); SDAG = diag(1,-i)",
               "merge_rotations / remove_small_rotations are exercised on numeric parameters only (documented)",
               "Gate.__eq__ rounds angles to 7 decimals: gates that compare equal may differ by 1e-7 in angle, so equal gates / "
               "cancelled pairs are compared within 5e-8 per pair (1e-6 for single gates)",
               "reindex_qubits on a circuit with unused indices is read as: i-th smallest tracked index -> new_indices[i]",
               "trim_trivial_circuit is compared within 2e-5 (its documented bit-flip tolerance atol=1e-5)"]
SHARDS = {"quick": 4, "thorough": 16}

ROT3 = ("CRX", "CRY", "CRZ")
EPS = [0.0, 1e-9, -1e-9, 4e-8, -4e-8, 2e-7, -2e-7, 1e-4, -1e-4, 5e-4, -5e-4, 0.05, -0.05]
THRESHOLDS = [0, 1e-6, 1e-3, 1e-3, 0.1]


# ------------------------------------------------------------------------------------------------ generators (plain data)

@st.composite
def ang(draw):
    kind = draw(st.integers(0, 12))
    if kind <= 2:
        return draw(S.angles())
    if kind <= 5:
        return 2 * pi * draw(st.integers(-4, 4)) + draw(st.sampled_from(EPS))
    if kind <= 7:
        return pi * draw(st.integers(-8, 8))
    if kind == 8:
        return draw(st.integers(-8, 8)) * pi / 2
    if kind == 9:
        return draw(st.sampled_from([1e-7, 5e-7, 1e-4, 9e-4, 1.1e-3, 0.05, 0.09, 0.11])) * draw(st.sampled_from([1, -1]))
    if kind == 10:
        return draw(st.integers(-7, 7))          # python int parameters are legal
    return draw(st.floats(-4 * pi, 4 * pi, allow_nan=False))


def gq(g):
    return list(g["t"]) + list(g["c"] or [])


def rec_inverse(g):
    """Generator-side helper only (never used as an oracle)."""
    h = {"n": g["n"], "t": list(g["t"]), "c": list(g["c"]) if g["c"] else None, "p": g["p"]}
    if g["n"] == "S":
        h.update(n="PHASE", p=-pi / 2)
    elif g["n"] == "T":
        h.update(n="PHASE", p=-pi / 4)
    elif g["p"] is not None:
        h["p"] = -g["p"]
    if g.get("v"):
        h["v"] = True
    return h


@st.composite
def companion(draw, g):
    kind = draw(st.integers(0, 7))
    h = rec_inverse(g)
    if kind == 0:
        return h
    if kind == 1 and h["p"] is not None:
        h["p"] = h["p"] + 2 * pi * draw(st.sampled_from([-2, -1, 1, 2]))
        return h
    if kind == 2 and h["p"] is not None:
        h["p"] = h["p"] + draw(st.sampled_from(EPS))
        return h
    if kind == 3:
        return {"n": g["n"], "t": list(g["t"]), "c": list(g["c"]) if g["c"] else None, "p": g["p"]}
    if kind == 4 and g["p"] is not None:
        return {"n": g["n"], "t": list(g["t"]), "c": list(g["c"]) if g["c"] else None, "p": draw(ang())}
    if kind == 5:
        if g["n"] in ("CNOT", "CX"):
            h["n"] = "CX" if g["n"] == "CNOT" else "CNOT"
        elif len(g["t"]) == 2:
            h["t"] = list(reversed(h["t"]))
        return h
    if kind == 6 and h["p"] is not None:
        h["v"] = True
        return h
    return h


@st.composite
def gate9(draw, width, max_controls=3):
    g = draw(S.gate_recs(width, max_controls=max_controls, angle=ang()))
    if g["p"] is not None and draw(st.integers(0, 5)) == 0:
        g["v"] = True
    return g


@st.composite
def circuits9(draw, max_width=5, max_gates=14, min_width=1, min_gates=0):
    width = draw(st.integers(min_width, max_width))
    base = draw(st.lists(gate9(width), min_size=min_gates, max_size=max(min_gates, max_gates // 2 + 1)))
    out = []
    for g in base:
        out.append(g)
        if draw(st.integers(0, 9)) <= 3:
            continue
        free = [q for q in range(width) if q not in gq(g)]
        n_between = draw(st.integers(0, 2)) if free else 0
        for _ in range(n_between):          # interleaved gates on disjoint qubits
            h = draw(gate9(len(free), max_controls=2))
            h["t"] = [free[q] for q in h["t"]]
            h["c"] = [free[q] for q in h["c"]] if h["c"] else None
            out.append(h)
        out.append(draw(companion(g)))
    out = out[:max_gates]
    nq = None
    if draw(st.integers(0, 3)) == 0:
        used = 1 + max([max(gq(g)) for g in out], default=-1)
        nq = draw(st.integers(max(used, 1), max(used, 1) + 2))
    return {"gates": out, "nq": nq}


@st.composite
def layout_circuits(draw, max_total=6, max_blocks=3, max_block_gates=4, slack=2, sparse=False):
    """Several blocks on disjoint, unordered, gappy index sets, gates interleaved.
    sparse=True: at most max_total (<=4) used qubits scattered over indices 0..12 (index sets such as {0, 8} or {2, 9},
    whose python-set iteration order is not ascending)."""
    nb = draw(st.integers(1, max_blocks))
    widths = []
    for _ in range(nb):
        w = draw(st.integers(1, 3))
        if sum(widths) + w <= max_total:
            widths.append(w)
    if not widths:
        widths = [1]
    total = sum(widths)
    span = 13 if sparse else total + draw(st.integers(0, slack))
    slots = list(draw(st.permutations(list(range(span)))))[:total]
    gates, off = [], 0
    for bi, w in enumerate(widths):
        idx = slots[off:off + w]
        off += w
        for h in draw(st.lists(gate9(w, max_controls=2), min_size=1 if bi == 0 else 0, max_size=max_block_gates)):
            h["t"] = [idx[q] for q in h["t"]]
            h["c"] = [idx[q] for q in h["c"]] if h["c"] else None
            gates.append(h)
    order = draw(st.permutations(list(range(len(gates)))))
    gates = [gates[i] for i in order]
    nq = None
    if draw(st.integers(0, 3)) == 0:
        used = 1 + max([max(gq(g)) for g in gates], default=-1)
        nq = draw(st.integers(max(used, 1), max(used, 1) + 2))
    return {"gates": gates, "nq": nq}


# ------------------------------------------------------------------------------------------------ reference helpers

def n_used(recs):
    return 1 + max([max(gq(g)) for g in recs], default=-1)


def out_recs(c):
    return S.circuit_to_recs(list(c))


def snap(c):
    """Full serialisation of a Tangelo circuit (values and types)."""
    return {"gates": [[g.name, list(g.target), None if g.control is None else list(g.control), repr(g.parameter),
                       type(g.parameter).__name__, bool(g.is_variational)] for g in c],
            "width": c.width, "size": c.size, "counts": dict(c.counts), "counts_n": {str(k): v for k, v in c.counts_n_qubit.items()},
            "nq": c._qubits_simulated, "var": c.is_variational}


def poke(c):
    """Mutate every gate object of an *output* circuit in place (to reveal objects shared with the input)."""
    for g in c:
        g.parameter = 12345.678
        g.target.append(991)
        if g.control is not None:
            g.control.append(992)
        g.is_variational = not g.is_variational
        g.name = "POKED"


def phase_dist(A, B):
    """min over phase candidates of the spectral norm ||A - ph B||; +1/-1 always included."""
    cands = [1.0 + 0j, -1.0 + 0j]
    tr = np.trace(B.conj().T @ A)
    if abs(tr) > 1e-12:
        cands.append(tr / abs(tr))
    k = np.argmax(np.abs(B))
    if abs(A.flat[k]) > 1e-12 and abs(B.flat[k]) > 1e-12:
        ph = A.flat[k] / B.flat[k]
        cands.append(ph / abs(ph))
    return float(min(np.linalg.norm(A - ph * B, 2) for ph in cands))


def has_ctrl_rot(recs):
    return any(g["n"] in ROT3 for g in recs)


def big_ctrl_rot(recs):
    return any(g["n"] in ROT3 and abs(g["p"]) > pi for g in recs)


def input_class(recs):
    return "ctrl-rot" if has_ctrl_rot(recs) else "no-ctrl-rot"


def components(recs):
    """Connected components (sorted index lists) of the 'acts on common qubits' relation; independent of Tangelo."""
    parent = {}

    def find(a):
        while parent[a] != a:
            parent[a] = parent[parent[a]]
            a = parent[a]
        return a
    for g in recs:
        qs = gq(g)
        for q in qs:
            parent.setdefault(q, q)
        for q in qs[1:]:
            parent[find(q)] = find(qs[0])
    comps = {}
    for q in parent:
        comps.setdefault(find(q), []).append(q)
    return sorted(sorted(v) for v in comps.values())


def remap(recs, mapping):
    out = []
    for g in recs:
        out.append({"n": g["n"], "t": [mapping[q] for q in g["t"]], "c": [mapping[q] for q in g["c"]] if g["c"] else None,
                    "p": g["p"]})
    return out


def separated_pair(recs):
    """Two gates on identical (target, control) lists with >=1 gate on disjoint qubits (and nothing else) in between."""
    for i, g in enumerate(recs):
        qs = set(gq(g))
        for j in range(i + 1, len(recs)):
            h = recs[j]
            if (h["t"], h["c"]) == (g["t"], g["c"]):
                if j > i + 1:
                    return True
                break
            if qs & set(gq(h)):
                break
    return False


def compressed(*rec_lists):
    """Relabel (order-preserving) the indices used by any of the gate lists to 0..k-1, so that circuits living on large
    sparse indices can be compared on k qubits (idle qubits act as the identity). Returns (k, remapped lists)."""
    used = sorted({q for recs in rec_lists for g in recs for q in gq(g)})
    mp = {q: i for i, q in enumerate(used)}
    return len(used), [remap(recs, mp) for recs in rec_lists]


def sparse_label(recs):
    used = {q for g in recs for q in gq(g)}
    return {"sparse-index>=8"} if any(q >= 8 for q in used) else set()


def base_labels(case):
    recs = case["gates"]
    out = set()
    if separated_pair(recs):
        out.add("same-qubits-pair-across-interleaved-gates")
    if has_ctrl_rot(recs):
        out.add("ctrl-rot")
    if big_ctrl_rot(recs):
        out.add("ctrl-rot>pi")
    if any(g["p"] is not None and abs(g["p"]) > 2 * pi for g in recs):
        out.add("angle>2pi")
    if any(g["c"] and len(g["c"]) > 1 for g in recs):
        out.add("multi-control")
    if any(isinstance(g["p"], int) for g in recs):
        out.add("int-angle")
    used = {q for g in recs for q in gq(g)}
    w = max(n_used(recs), case.get("nq") or 0)
    if len(used) < w:
        out.add("idle-qubit")
    if used and sorted(used) != list(range(len(used))):
        out.add("index-gaps")
    if case.get("nq"):
        out.add("fixed-width")
        if case["nq"] > n_used(recs):
            out.add("fixed-width>used")
    return out


def check_unchanged(c, before, what):
    now = snap(c)
    if now != before:
        diff = [(i, a, b) for i, (a, b) in enumerate(zip(before["gates"], now["gates"])) if a != b][:3]
        raise Fail(f"{what}: the input circuit was modified by an out-of-place transformation; first differing gates "
                   f"(index, before, after): {diff}; meta before={ {k: v for k, v in before.items() if k != 'gates'} } "
                   f"after={ {k: v for k, v in now.items() if k != 'gates'} }", sig=f"{what}:input-mutated")


def check_no_alias(c, before, outs, what):
    for o in outs:
        poke(o)
    if snap(c) != before:
        raise Fail(f"{what}: output shares gate objects / index lists with its input (mutating the output changed the input)",
                   sig=f"{what}:aliasing")


def selftest():
    R.selftest()
    # controlled rotations are 4pi-periodic, plain rotations are 2pi-periodic up to phase: the oracle must see this
    I4 = np.eye(4)
    crz = R.unitary([{"n": "CRZ", "t": [1], "c": [0], "p": 2 * pi}], 2)
    assert not R.equal_up_to_phase(crz, I4)[0] and phase_dist(crz, I4) > 1.0
    assert R.equal_up_to_phase(R.unitary([{"n": "CRZ", "t": [1], "c": [0], "p": 4 * pi}], 2), I4)[0]
    assert R.equal_up_to_phase(R.unitary([{"n": "RZ", "t": [1], "c": None, "p": 2 * pi}], 2), I4)[0]
    assert abs(phase_dist(R.unitary([{"n": "RX", "t": [0], "c": None, "p": 2 * pi + 0.02}], 1), np.eye(2)) - 2 * np.sin(0.005)) < 1e-12
    assert components([{"n": "H", "t": [4], "c": None}, {"n": "CX", "t": [0], "c": [2]}, {"n": "X", "t": [2], "c": None}]) == [[0, 2], [4]]
    assert np.allclose(SDAG @ R.base_matrix("S"), np.eye(2))


# ------------------------------------------------------------------------------------------------ part 1: gates

@st.composite
def gate_pairs(draw):
    width = draw(st.integers(1, 4))
    g = draw(gate9(width))
    kind = draw(st.integers(0, 9))
    h = {"n": g["n"], "t": list(g["t"]), "c": list(g["c"]) if g["c"] else None, "p": g["p"]}
    if g.get("v"):
        h["v"] = True
    if kind <= 2 and g["p"] is not None:
        h["p"] = g["p"] + 2 * pi * draw(st.integers(-3, 3)) + draw(st.sampled_from([0.0, 0.0, 1e-9, -4e-8, 4e-8, 9e-8, 2e-7, 1e-3]))
    elif kind == 3 and g["p"] is not None:
        h["p"] = g["p"] + draw(st.sampled_from(EPS))
    elif kind == 4:
        if g["n"] in ("CNOT", "CX"):
            h["n"] = "CX" if g["n"] == "CNOT" else "CNOT"
        elif g["p"] is not None:
            h["p"] = -g["p"]
    elif kind == 5:
        h["v"] = not g.get("v", False)
    elif kind == 6:
        h = draw(gate9(width))
    elif kind == 7 and g["p"] is not None:
        h["p"] = 2 * pi * draw(st.integers(-3, 3)) - g["p"]
    return {"g": g, "h": h}


def gsnap(g):
    return [g.name, list(g.target), None if g.control is None else list(g.control), repr(g.parameter), bool(g.is_variational)]


@part("gates", quick=1600, thorough=200000)
def gates_part(ctx):

    def body_eq(case):
        g, h = case["g"], case["h"]
        G, Hh = S.build_gate(g), S.build_gate(h)
        eq = (G == Hh)
        ne = (G != Hh)
        if eq == ne:
            raise Fail(f"== and != agree ({eq}) for {G!r} vs {Hh!r}", sig="gate_eq:ne-inconsistent")
        labels = {"equal" if eq else "unequal"}
        same_rec = (g == h)
        if g["n"] in ROT3:
            labels.add("ctrl-rot")
        if not eq:
            return False, labels
        n = max(n_used([g]), n_used([h]))
        ok, d = R.equal_up_to_phase(R.gate_unitary(g, n), R.gate_unitary(h, n), 1e-6)
        if not ok:
            raise Fail(f"{G!r} == {Hh!r} is True but the two gates differ by {d:.3g} (max entry, best global phase)",
                       sig=f"gate_eq:equal-gates-differ:{input_class([g])}", distance=d)
        if not same_rec:
            labels.add("equal-distinct-records")
            if g["p"] is not None and abs(g["p"] - h["p"]) > 1:
                labels.add("equal-shifted-by-period")
        return (not same_rec) or big_ctrl_rot([g]), labels

    def body_inv(case):
        g = case["g"]
        G = S.build_gate(g)
        before = gsnap(G)
        inv = G.inverse()
        n = max(n_used([g]), 1)
        irec = S.gate_to_rec(inv)
        prod = R.gate_unitary(irec, n) @ R.gate_unitary(g, n)
        ok, d = R.equal_up_to_phase(prod, np.eye(2 ** n), 1e-8)
        if not ok:
            raise Fail(f"{G!r}.inverse() = {inv!r}: inverse*gate differs from identity by {d:.3g}", sig=f"gate_inverse:not-adjoint:{g['n']}")
        if gsnap(G) != before:
            raise Fail(f"Gate.inverse modified the gate: {before} -> {gsnap(G)}", sig="gate_inverse:input-mutated")
        inv.target.append(991)
        if inv.control is not None:
            inv.control.append(992)
        if gsnap(G) != before:
            raise Fail("Gate.inverse output shares index lists with the input gate", sig="gate_inverse:aliasing")
        if bool(inv.is_variational) != bool(g.get("v", False)):
            raise Fail("Gate.inverse dropped/added the variational flag", sig="gate_inverse:variational-flag")
        labels = {g["n"]}
        return True, labels

    # exclusion predicates are only used for signatures listed as open known findings (search continues behind them)
    ctx.search("gate_eq", gate_pairs(), body_eq, frac=0.6,
               exclusions={"gate_eq:equal-gates-differ:ctrl-rot": lambda case: case["g"]["n"] in ROT3})
    ctx.search("gate_inverse", gate_pairs(), body_inv, frac=0.4)


# ------------------------------------------------------------------------------------------------ part 2: inverse/copy/+/*

@part("algebra", quick=1200, thorough=150000)
def algebra_part(ctx):
    from tangelo.linq import Circuit
    mw, mg = (5, 14) if ctx.tier == "quick" else (6, 24)

    def body_inverse(case):
        c = S.build_circuit(case)
        before = snap(c)
        inv = c.inverse()
        ri = out_recs(inv)
        n = max(c.width, inv.width, n_used(ri), n_used(case["gates"]))
        prod = R.unitary(ri, n) @ R.unitary(case["gates"], n)
        ok, d = R.equal_up_to_phase(prod, np.eye(2 ** n), 1e-8)
        if not ok:
            raise Fail(f"circuit.inverse(): U(inverse)*U(circuit) differs from identity by {d:.3g}", sig="circuit_inverse:not-adjoint")
        check_unchanged(c, before, "circuit_inverse")
        check_no_alias(c, before, [inv], "circuit_inverse")
        return len(case["gates"]) >= 2, base_labels(case)

    def body_copy(case):
        c = S.build_circuit(case)
        before = snap(c)
        cp = c.copy()
        rc = out_recs(cp)
        n = max(c.width, cp.width, n_used(rc))
        ok, d = R.equal_up_to_phase(R.unitary(rc, n), R.unitary(case["gates"], n), 1e-8)
        if not ok:
            raise Fail(f"copy() implements a different operation (distance {d:.3g})", sig="copy:action")
        check_unchanged(c, before, "copy")
        check_no_alias(c, before, [cp], "copy")
        return len(case["gates"]) >= 1, base_labels(case)

    def body_add(case):
        a, b = S.build_circuit(case["a"]), S.build_circuit(case["b"])
        ba, bb = snap(a), snap(b)
        s = a + b
        rs = out_recs(s)
        n = max(a.width, b.width, s.width, n_used(rs))
        ref = R.unitary(case["b"]["gates"], n) @ R.unitary(case["a"]["gates"], n)
        ok, d = R.equal_up_to_phase(R.unitary(rs, n), ref, 1e-8)
        if not ok:
            raise Fail(f"a + b does not implement U(b)U(a) (distance {d:.3g})", sig="add:action")
        check_unchanged(a, ba, "add")
        check_unchanged(b, bb, "add")
        poke(s)
        if snap(a) != ba or snap(b) != bb:
            raise Fail("a + b shares gate objects with an operand", sig="add:aliasing")
        return len(case["a"]["gates"]) >= 1 and len(case["b"]["gates"]) >= 1, base_labels(case["a"]) | base_labels(case["b"])

    def body_mul(case):
        c = S.build_circuit(case["c"])
        before = snap(c)
        k = case["k"]
        m = (c * k) if case["side"] == "l" else (k * c)
        rm = out_recs(m)
        n = max(c.width, m.width, n_used(rm))
        ref = np.linalg.matrix_power(R.unitary(case["c"]["gates"], n), k)
        ok, d = R.equal_up_to_phase(R.unitary(rm, n), ref, 1e-8)
        if not ok:
            raise Fail(f"circuit * {k} does not implement U^{k} (distance {d:.3g})", sig="mul:action")
        check_unchanged(c, before, "mul")
        # repetitions must not share gate objects with each other or with the input
        gl = list(m)
        if len({id(g) for g in gl}) != len(gl):
            raise Fail("circuit * k repeats the same gate object", sig="mul:aliasing")
        check_no_alias(c, before, [m], "mul")
        return len(case["c"]["gates"]) >= 1 and k >= 2, base_labels(case["c"]) | {f"k={k}"}

    circ = circuits9(mw, mg)
    small = circuits9(mw, mg // 2)
    ctx.search("circuit_inverse", circ, body_inverse, frac=0.4)
    ctx.search("copy", circ, body_copy, frac=0.15)
    ctx.search("add", st.fixed_dictionaries({"a": small, "b": small}), body_add, frac=0.25)
    ctx.search("mul", st.fixed_dictionaries({"c": small, "k": st.integers(1, 3), "side": st.sampled_from(["l", "r"])}), body_mul, frac=0.2)


# ------------------------------------------------------------------------------------------------ part 3: simplification passes

PASS_SEARCHES = [("small", "fn"), ("small", "method"), ("merge", "fn"), ("merge", "method"),
                 ("redundant", "fn"), ("redundant", "method"), ("simplify", "fn"), ("simplify", "method")]


@st.composite
def pass_cases(draw, op, form, mw, mg):
    case = {"circ": draw(circuits9(mw, mg, min_gates=1)), "op": op, "form": form}
    if op in ("small", "simplify"):
        case["thr"] = draw(st.one_of(st.sampled_from(THRESHOLDS), st.floats(0, 0.5, allow_nan=False)))
    if op != "merge":
        case["rq"] = draw(st.booleans())
    return case


def run_pass(case):
    import tangelo.linq.circuit as TC
    op, form = case["op"], case["form"]
    what = {"small": "remove_small_rotations", "merge": "merge_rotations", "redundant": "remove_redundant_gates", "simplify": "simplify"}[op]
    kw = {}
    if "thr" in case:
        kw["param_threshold"] = case["thr"]
    if "rq" in case:
        kw["remove_qubits"] = case["rq"]
    c = S.build_circuit(case["circ"])
    before = snap(c)
    if form == "fn":
        out = getattr(TC, what)(c, **kw)
    else:
        getattr(c, what)(**kw)
        out = c
    return c, before, out, f"{what}_{form}"


def pass_body(case):
    recs = case["circ"]["gates"]
    op, form = case["op"], case["form"]
    c, before, out, what = run_pass(case)
    ro = out_recs(out)
    n = max(before["width"], out.width, n_used(ro), n_used(recs))
    Uin, Uout = R.unitary(recs, n), R.unitary(ro, n)
    removed = len(recs) - len(ro)
    if removed < 0:
        raise Fail(f"{what}: output has more gates ({len(ro)}) than input ({len(recs)})", sig=f"{what}:grew")
    thr = case.get("thr", 0)
    cls = input_class(recs)
    if op == "merge":
        ok, d = R.equal_up_to_phase(Uout, Uin, 1e-8)
        bound = 1e-8
    elif op == "redundant":
        bound = 1e-8 + 5e-8 * removed
        d = phase_dist(Uout, Uin)
        ok = d <= bound
    else:
        bound = removed * thr / 2 + 5e-8 * removed + 1e-8
        d = phase_dist(Uout, Uin)
        ok = d <= bound
    if not ok:
        raise Fail(f"{what}({ {k: v for k, v in case.items() if k in ('thr', 'rq')} }): result differs from the input circuit by {d:.3g} "
                   f"(up to global phase; allowed {bound:.3g}; {removed} gate(s) removed). in={recs} out={ro}",
                   sig=f"{what}:action:{cls}", distance=d, bound=bound)
    if op == "merge" and any(g.get("v") for g in recs) != any(g.get("v") for g in ro):
        raise Fail(f"{what}: variational flag of the circuit changed ({any(g.get('v') for g in recs)} -> {any(g.get('v') for g in ro)})",
                   sig=f"{what}:variational-flag")
    if form == "fn":
        check_unchanged(c, before, what)
        check_no_alias(c, before, [out], what)
    labels = base_labels(case["circ"])
    changed = removed > 0 or [(g["n"], g["t"], g["c"], g["p"]) for g in ro] != [(g["n"], g["t"], g["c"], g["p"]) for g in recs]
    if changed:
        labels.add("changed")
    if removed:
        labels.add("removed-gates")
        if "same-qubits-pair-across-interleaved-gates" in labels:
            labels.add("removed-gates+pair-across-interleaved-gates")
    if "thr" in case:
        labels.add("thr=" + (str(thr) if thr in THRESHOLDS else "random"))
    if case.get("rq"):
        labels.add("remove_qubits")
    if out.width < before["width"]:
        labels.add("narrower-output")
    return changed or big_ctrl_rot(recs) or "index-gaps" in labels, labels


@part("passes", quick=4000, thorough=600000)
def passes_part(ctx):
    mw, mg = (5, 14) if ctx.tier == "quick" else (6, 24)
    names = {"small": "remove_small_rotations", "merge": "merge_rotations", "redundant": "remove_redundant_gates", "simplify": "simplify"}
    for op, form in PASS_SEARCHES:
        # used only if the signature is listed as an open known finding: continue the search on circuits without controlled rotations
        excl = {f"{names[op]}_{form}:action:ctrl-rot": lambda case: has_ctrl_rot(case["circ"]["gates"])}
        ctx.search(f"{op}_{form}", pass_cases(op, form, mw, mg), pass_body, frac=1.0 / len(PASS_SEARCHES), exclusions=excl)


# ------------------------------------------------------------------------------------------------ part 4: split/stack/trim/reindex

def model_tracked(case):
    """Indices the circuit tracks: range(nq) for fixed width, else the used indices."""
    used = {q for g in case["gates"] for q in gq(g)}
    if case.get("nq"):
        used |= set(range(case["nq"]))
    return sorted(used)


@part("layout", quick=2000, thorough=200000)
def layout_part(ctx):
    from tangelo.linq import stack as stack_fn
    mt = 6 if ctx.tier == "quick" else 7

    def body_split(case):
        recs = case["circ"]["gates"]
        c = S.build_circuit(case["circ"])
        before = snap(c)
        parts = c.split(trim_qubits=case["trim"])
        comps = components(recs)
        if len(parts) != len(comps):
            raise Fail(f"split returned {len(parts)} circuits, the circuit has {len(comps)} unentangled parts {comps}", sig="split:count")
        if sum(p.size for p in parts) != len(recs):
            raise Fail("split lost or duplicated gates", sig="split:gate-count")
        refs = []
        for comp in comps:
            sub = [g for g in recs if set(gq(g)) <= set(comp)]
            refs.append((comp, sub))
        unused = list(range(len(refs)))
        for p in parts:
            rp = out_recs(p)
            hit = None
            for j in unused:
                comp, sub = refs[j]
                if case["trim"]:
                    k = len(comp)
                    if max(p.width, n_used(rp)) != k:
                        continue
                    ref = R.unitary(remap(sub, {q: i for i, q in enumerate(comp)}), k)
                    got = R.unitary(rp, k)
                else:
                    if {q for g in rp for q in gq(g)} != set(comp):
                        continue
                    nn, (sub_c, rp_c) = compressed(sub, rp)
                    ref, got = R.unitary(sub_c, nn), R.unitary(rp_c, nn)
                if R.equal_up_to_phase(got, ref, 1e-8)[0]:
                    hit = j
                    break
            if hit is None:
                raise Fail(f"split(trim_qubits={case['trim']}): part {rp} (width {p.width}) matches none of the remaining reference "
                           f"parts {[refs[j] for j in unused]}", sig=f"split:action:trim={case['trim']}")
            unused.remove(hit)
        check_unchanged(c, before, "split")
        check_no_alias(c, before, parts, "split")
        labels = base_labels(case["circ"]) | {f"parts={min(len(comps), 3)}", f"trim={case['trim']}"} | sparse_label(recs)
        return len(comps) >= 2 or "index-gaps" in labels, labels

    def body_stack(case):
        cs = [S.build_circuit(x) for x in case["circs"]]
        befores = [snap(c) for c in cs]
        out = stack_fn(*cs) if case["form"] == "fn" else cs[0].stack(*cs[1:])
        ref, off = [], 0
        for x in case["circs"]:
            used = sorted({q for g in x["gates"] for q in gq(g)})
            ref += remap(x["gates"], {q: off + i for i, q in enumerate(used)})
            off += len(used)
        ro = out_recs(out)
        n = max(off, out.width, n_used(ro))
        ok, d = R.equal_up_to_phase(R.unitary(ro, n), R.unitary(ref, n), 1e-8)
        if not ok:
            raise Fail(f"stack: result {ro} is not the tensor product of the trimmed inputs {ref} (distance {d:.3g})", sig="stack:action")
        for c, b in zip(cs, befores):
            check_unchanged(c, b, "stack")
        poke(out)
        if any(snap(c) != b for c, b in zip(cs, befores)):
            raise Fail("stack output shares gate objects with an input", sig="stack:aliasing")
        labels = set().union(*[base_labels(x) for x in case["circs"]]) | {f"n_circuits={len(cs)}"}
        return len(cs) >= 2 and sum(1 for x in case["circs"] if x["gates"]) >= 2, labels

    def body_trim(case):
        recs = case["gates"]
        c = S.build_circuit(case)
        c.trim_qubits()
        used = sorted({q for g in recs for q in gq(g)})
        ref = remap(recs, {q: i for i, q in enumerate(used)})
        ro = out_recs(c)
        if max(c.width, n_used(ro)) > max(len(used), 8):
            raise Fail(f"trim_qubits: result still uses index {max(c.width, n_used(ro)) - 1} with {len(used)} qubits in use", sig="trim_qubits:not-compact")
        n = max(len(used), c.width, n_used(ro))
        ok, d = R.equal_up_to_phase(R.unitary(ro, n), R.unitary(ref, n), 1e-8)
        if not ok:
            raise Fail(f"trim_qubits: {recs} became {ro}, expected the order-preserving relabelling {ref} (distance {d:.3g})", sig="trim_qubits:action")
        labels = base_labels(case) | sparse_label(recs)
        return bool(labels & {"index-gaps", "idle-qubit"}) and len(recs) >= 1, labels

    def body_reindex(case):
        recs = case["circ"]["gates"]
        c = S.build_circuit(case["circ"])
        tracked = model_tracked(case["circ"])
        new = case["new"][:len(tracked)]
        c.reindex_qubits(list(new))
        ref = remap(recs, {q: new[i] for i, q in enumerate(tracked)})
        ro = out_recs(c)
        n, (ro_c, ref_c) = compressed(ro, ref)          # compare on the indices that occur (idle qubits = identity)
        if n > 9:
            raise Fail(f"reindex_qubits({new}): result {ro} and expected {ref} use {n} different indices", sig="reindex_qubits:index-set")
        ok, d = R.equal_up_to_phase(R.unitary(ro_c, n), R.unitary(ref_c, n), 1e-8)
        if not ok:
            sparse = bool(sparse_label(recs)) and not case["circ"].get("nq")
            raise Fail(f"reindex_qubits({new}): {recs} became {ro}, expected {ref}: i-th smallest tracked index -> new_indices[i] "
                       f"(distance {d:.3g})", sig="reindex_qubits:action" + (":sparse-index>=8" if sparse else ""))
        labels = base_labels(case["circ"]) | sparse_label(recs)
        if any(x >= len(tracked) for x in new):
            labels.add("new-index-beyond-N")
        if list(new) != sorted(new):
            labels.add("unordered-map")
        return len(recs) >= 1 and list(new) != tracked, labels

    @st.composite
    def reindex_cases(draw, sparse=False):
        circ = draw(layout_circuits(max_total=4, sparse=True) if sparse else layout_circuits(max_total=5, slack=1))
        L = len(model_tracked(circ))
        M = L + draw(st.sampled_from([0, 0, 1, 2]))
        if sparse and not circ["nq"]:
            M = max(M, draw(st.sampled_from([L, 9, 13])))
        new = list(draw(st.permutations(list(range(M)))))[:L]
        return {"circ": circ, "new": new}

    def mixed(dense, sparse):
        return st.one_of(dense, dense, sparse)

    @st.composite
    def stack_cases(draw):
        m = draw(st.integers(1, 3))
        mtot = {1: 5, 2: 3, 3: 2}[m]
        return {"circs": [draw(layout_circuits(max_total=mtot, max_blocks=2, slack=1, sparse=draw(st.integers(0, 3)) == 0)) for _ in range(m)],
                "form": draw(st.sampled_from(["fn", "method"]))}

    sp = layout_circuits(max_total=4, sparse=True)       # <=4 used qubits on indices 0..12
    ctx.search("split", st.fixed_dictionaries({"circ": mixed(layout_circuits(max_total=mt), sp), "trim": st.booleans()}), body_split, frac=0.3)
    ctx.search("stack", stack_cases(), body_stack, frac=0.2)
    ctx.search("trim_qubits", mixed(layout_circuits(max_total=mt), sp), body_trim, frac=0.2)
    ctx.search("reindex_qubits", reindex_cases(), body_reindex, frac=0.15)
    # own search: a defect that needs sparse large indices cannot hide the dense search (and vice versa)
    ctx.search("reindex_sparse", reindex_cases(sparse=True), body_reindex, frac=0.15,
               exclusions={"reindex_qubits:action:sparse-index>=8":
                           lambda case: not case["circ"].get("nq") and bool(sparse_label(case["circ"]["gates"]))})


# ------------------------------------------------------------------------------------------------ part 5: trim_trivial_circuit

TRIVIAL_1Q = ["X", "Y", "Z", "RX", "RY", "RZ", "H", "S"]


@st.composite
def trivial_cases(draw):
    """Mostly single-qubit components with 1-2 gates (what trim_trivial_circuit inspects) next to entangled blocks."""
    nb = draw(st.integers(1, 5))
    span = nb + draw(st.integers(0, 2))
    blocks = draw(st.integers(0, 1))
    slots = list(draw(st.permutations(list(range(span + 2 * blocks)))))
    gates = []
    odd_pi = st.integers(-3, 3).map(lambda k: (2 * k + 1) * pi)
    a = st.one_of(odd_pi, odd_pi, ang(), st.integers(-4, 4).map(lambda k: k * pi))
    for b in range(nb):
        q = slots[b]
        for _ in range(draw(st.integers(0, 3))):
            nm = draw(st.sampled_from(TRIVIAL_1Q))
            gates.append({"n": nm, "t": [q], "c": None, "p": draw(a) if nm in S.PARAM else None})
    if blocks:
        idx = slots[nb:nb + 2]
        for h in draw(st.lists(gate9(2, max_controls=1), min_size=1, max_size=3)):
            h["t"] = [idx[q] for q in h["t"]]
            h["c"] = [idx[q] for q in h["c"]] if h["c"] else None
            gates.append(h)
    # keep the per-qubit order of single-qubit blocks, interleave blocks arbitrarily
    keys = draw(st.lists(st.integers(0, 50), min_size=len(gates), max_size=len(gates)))
    byq = {}
    for g in gates:
        byq.setdefault(tuple(sorted(gq(g))), []).append(g)
    order = sorted(range(len(gates)), key=lambda i: (keys[i], i))
    seq, ptr = [], {k: 0 for k in byq}
    for i in order:
        k = tuple(sorted(gq(gates[i])))
        seq.append(byq[k][ptr[k]])
        ptr[k] += 1
    nq = None
    if draw(st.integers(0, 3)) == 0:
        used = 1 + max([max(gq(g)) for g in seq], default=-1)
        nq = draw(st.integers(max(used, 1), max(used, 1) + 1))
    return {"gates": seq, "nq": nq}


@part("trim_trivial", quick=400, thorough=50000)
def trim_trivial_part(ctx):
    from tangelo.toolboxes.operators.trim_trivial_qubits import trim_trivial_circuit

    def body(case):
        recs = case["gates"]
        c = S.build_circuit(case)
        before = snap(c)
        n = c.width
        if n == 0:
            raise Skip("empty circuit")
        tc, states = trim_trivial_circuit(c)
        if any(q < 0 or q >= n or s not in (0, 1) for q, s in states.items()):
            raise Fail(f"trim_trivial_circuit: bad trim states {states} for width {n}", sig="trim_trivial:states")
        kept = [q for q in range(n) if q not in states]
        rt = out_recs(tc)
        k = len(kept)
        if max(tc.width, n_used(rt)) > k:
            raise Fail(f"trim_trivial_circuit: trimmed circuit uses {max(tc.width, n_used(rt))} qubits but only {k} qubits were kept "
                       f"(states={states})", sig="trim_trivial:width")
        psi_small = R.run(rt, k).reshape([2] * k) if k else np.array(1.0 + 0j)
        full = np.zeros([2] * n, dtype=complex)
        idx = [slice(None)] * n
        for q, s in states.items():
            idx[q] = s
        full[tuple(idx)] = psi_small          # kept qubits keep their relative order
        ref = R.run(recs, n)
        ok, d = R.equal_up_to_phase(full.reshape(-1), ref, 2e-5)
        if not ok:
            raise Fail(f"trim_trivial_circuit: (trimmed circuit)|0> x |{states}> differs from circuit|0> by {d:.3g}; circuit={recs} trimmed={rt}",
                       sig="trim_trivial:state")
        check_unchanged(c, before, "trim_trivial")
        labels = base_labels(case) | {f"trimmed={min(len(states), 3)}"}
        if any(s == 1 for s in states.values()):
            labels.add("trimmed-in-|1>")
        used = {q for g in recs for q in gq(g)}
        if any(q in used for q in states):
            labels.add("trimmed-a-used-qubit")
        return any(q in used for q in states) and k >= 1, labels

    ctx.search("trim_trivial", trivial_cases(), body)


# ------------------------------------------------------------------------------------------------ part 6: Clifford decomposition

SDAG = np.diag([1, -1j]).astype(complex)
CLIFF_EPS = [0.0, 1e-9, -1e-9, 4e-5, -4e-5, 4e-7, -4e-7, 3e-4, -3e-4]


def clifford_items():
    items = []
    for nm in ("RX", "RY", "RZ", "PHASE"):
        for k in range(-16, 17):
            for e in CLIFF_EPS:
                for tol in (None, 1e-6):
                    items.append({"n": nm, "k": k, "eps": e, "abs_tol": tol, "q": (k + 16) % 3})
    return items


@part("clifford", quick=1, thorough=1)
def clifford_part(ctx):
    from tangelo.linq import Gate
    from tangelo.linq.gate import CLIFFORD_GATES
    from tangelo.linq.helpers.circuits.clifford_circuits import decompose_gate_to_cliffords

    def body(case):
        theta = case["k"] * pi / 2 + case["eps"]
        tol = 1e-4 if case["abs_tol"] is None else case["abs_tol"]
        q = case["q"]
        g = Gate(case["n"], q, parameter=theta)
        kw = {} if case["abs_tol"] is None else {"abs_tol": case["abs_tol"]}
        inside = abs(case["eps"]) <= tol / 2
        outside = abs(case["eps"]) >= 2 * tol
        try:
            dec = decompose_gate_to_cliffords(g, **kw)
        except ValueError as e:
            if inside:
                raise Fail(f"decompose_gate_to_cliffords refuses {case['n']}({case['k']}*pi/2{case['eps']:+g}) = {theta!r} although it is "
                           f"within abs_tol={tol} of a Clifford angle: {str(e)[:80]}", sig="decompose_cliffords:refuses-clifford-angle")
            raise Skip("ValueError: not a Clifford angle (documented)")
        if outside:
            raise Fail(f"decompose_gate_to_cliffords accepted {case['n']}({theta!r}), {abs(case['eps'])} away from a Clifford angle with abs_tol={tol}",
                       sig="decompose_cliffords:accepts-non-clifford")
        if not isinstance(dec, list):
            raise Fail(f"decomposition of a rotation gate is not a list: {dec!r}", sig="decompose_cliffords:type")
        U = np.eye(2, dtype=complex)
        for d in dec:
            if d.name not in CLIFFORD_GATES or d.control is not None or list(d.target) != [q] or d.parameter != "":
                raise Fail(f"decomposition contains {d!r}: not a plain Clifford gate on qubit {q}", sig="decompose_cliffords:non-clifford-gate")
            U = (SDAG if d.name == "SDAG" else R.base_matrix(d.name)) @ U
        dist = phase_dist(U, R.base_matrix(case["n"], theta))      # spectral norm at the best global phase
        if dist > abs(case["eps"]) / 2 + 1e-8:
            raise Fail(f"Clifford decomposition of {case['n']}({case['k']}*pi/2{case['eps']:+g}) = {[d.name for d in dec]} differs from the "
                       f"rotation by {dist:.3g} (up to phase)", sig=f"decompose_cliffords:unitary:{case['n']}:{case['k'] % 4}")
        return True, {case["n"], f"k mod 4={case['k'] % 4}", "empty" if not dec else "non-empty"}

    ctx.sweep("clifford", clifford_items(), body)
