"""C10 - mid-circuit measurement and classical control follow the Born rule (cirq backend).

Oracle: vlib/h_c10.py (branch-enumerating interpreter on top of vlib/refsim.py), plus an independent dephasing
density-matrix evolution for the unconditioned distribution of MEASURE-only circuits.
"""
from collections import Counter

import numpy as np
from hypothesis import strategies as st

from vlib.runner import part, Fail, Skip
from vlib import refsim as R, strategies as S, h_c10 as H

PROPERTY = "C10"
RULE = ("Hypothesis-generated circuits (<=4 qubits, <=10 quick / <=14 thorough unitary gates from the C01 gate generator plus an optional "
        "H/RY layer, angles incl. 0/pi/2pi so that "
        "impossible outcomes occur) with MEASURE gates at arbitrary positions and CMEASURE gates controlled by a dictionary "
        "(nested up to depth 2 quick / 3 thorough), a stateless function (lookup table or repeat-until-success) or a "
        "ClassicalControl subclass whose state is the history of outcomes of the shot; optional initial statevector. "
        "Every outcome string of the reference branch tree is requested (exact mode), or n_shots in {1..10^4} are sampled. "
        "Oracle = independent branch-enumerating Born-rule interpreter (vlib/h_c10.py). Non-trivial = some measurement has both "
        "outcomes possible (conditional p > 1e-9) and a later unitary gate acts on the measured qubit or the outcome selects "
        "different gate lists. Distinct = distinct canonical JSON of (part, circuit, control program, initial state, mode).")
ASSUMPTIONS = ["numpy linear algebra", "reference gate table vlib/refsim.py and branch interpreter vlib/h_c10.py (self-tested)",
               "only the cirq backend is exercised (qulacs, the other backend with CMEASURE support, is not installed)",
               "outcomes with conditional probability in [1e-30, 1e-9) carry no claim (neither success nor refusal is required)",
               "function / class controls are drawn from three families defined in vlib/h_c10.py (table, repeat-until-success, "
               "outcome-history class); arbitrary Python control code is not explored",
               "sampled modes are statistical checks (exact two-sided binomial tail < 1e-12 per outcome) with the numpy global RNG pinned per case",
               "noise models together with measurements are not exercised (C19)"]
SHARDS = {"quick": 4, "thorough": 16}


def selftest():
    H.selftest()


# ----------------------------------------------------------------------------------------------------- helpers

def stat_bad(f, p, N):
    from vlib.stats import binomial_ok      # exact two-sided binomial tail (a Gaussian band is invalid for small N*p)
    return not binomial_ok(f * N, N, p)


def check_counts(freqs, N, keylen, sig, what):
    tot = 0
    for k, f in freqs.items():
        if set(k) - {"0", "1"} or (keylen is not None and len(k) != keylen):
            raise Fail(f"{what}: bad key {k!r}", sig=sig + ":key")
        c = f * N
        if abs(c - round(c)) > 1e-6:
            raise Fail(f"{what}: frequency {f} of {k} is not a multiple of 1/{N}", sig=sig + ":granularity")
        tot += round(c)
    if tot != N:
        raise Fail(f"{what}: counts sum to {tot}, expected {N}", sig=sig + ":total")


def check_sampled(obs, ref, N, prob_of, sig, what):
    """obs: observed frequencies; ref: {key: probability} for the enumerated keys; prob_of(key) gives the exact
    probability of a key that was observed but not enumerated (None = key is not a possible outcome at all)."""
    for k in set(obs) | set(ref):
        f = float(obs.get(k, 0.0))
        p = ref.get(k)
        if p is None:
            p = prob_of(k)
            if p is None or p < 1e-20:
                raise Fail(f"{what}: observed outcome {k} (frequency {f}) is impossible (p={p})", sig=sig + ":support")
        if stat_bad(f, p, N):
            raise Fail(f"{what}: outcome {k} has frequency {f}, probability {p}, N={N} (exact binomial tail < 1e-12)", sig=sig + ":dist")


def check_exact_freqs(freqs, p, n, sig, what, prefix=""):
    for k, f in freqs.items():
        if not k.startswith(prefix) or len(k) != n + len(prefix) or set(k) - {"0", "1"}:
            raise Fail(f"{what}: bad key {k!r}", sig=sig + ":key")
        if abs(float(f) - p[int(k[len(prefix):], 2)]) > 1e-7:
            raise Fail(f"{what}: frequency of {k} is {f}, reference {p[int(k[len(prefix):], 2)]}", sig=sig + ":freq")
    for i, pi_ in enumerate(p):
        if pi_ > 1e-7 and prefix + R.bitstr(i, n) not in freqs:
            raise Fail(f"{what}: outcome {prefix + R.bitstr(i, n)} with p={pi_} missing", sig=sig + ":missing")


def check_trace(gates, leaf, sig, what):
    ref = leaf["applied"]
    gates = list(gates)
    if len(gates) != len(ref) or not all(H.same_gate(a, b) for a, b in zip(gates, ref)):
        raise Fail(f"{what} for outcomes {leaf['b']!r}: got [{H.gates_str(gates)}], the outcomes select [{H.trace_str(ref)}]", sig=sig)


def growth(case):
    """Does some execution insert a gate list containing a measurement while outer measurements are still pending?
    (this is when the simulator's bookkeeping lists grow in the middle)"""
    found = []

    def go(todo, ctrl, hist, depth):
        todo = list(todo)
        while todo and not found and depth < 10:
            g = todo.pop(0)
            if g["n"] not in H.MEAS:
                continue
            for r in "01":
                ins, h2 = H.inserted(g, ctrl, hist, r)
                if any(x["n"] in H.MEAS for x in ins) and any(x["n"] in H.MEAS for x in todo):
                    found.append(1)
                    return
                go(ins + todo, ctrl, h2, depth + 1)
            return
    go(case["gates"], case.get("ctrl"), "", 0)
    return bool(found)


def case_labels(case, leaves, n):
    out = set()
    gs = case["gates"]
    mpos = [i for i, g in enumerate(gs) if g["n"] in H.MEAS]
    if mpos and mpos[0] == 0:
        out.add("meas-first")
    if mpos and mpos[-1] == len(gs) - 1:
        out.add("meas-last")
    qs = [gs[i]["t"][0] for i in mpos]
    if len(set(qs)) < len(qs):
        out.add("repeat-same-qubit")
    out.add(f"top-meas={min(len(mpos), 4)}")
    recs = H.all_recs(case)
    if any(g["n"] == "CMEASURE" and g.get("d") is not None for g in recs):
        out.add("ctrl-dict")
    if case.get("ctrl"):
        out.add("ctrl-" + case["ctrl"]["kind"])
        if any(g["n"] == "CMEASURE" and g.get("d") is not None for g in recs):
            out.add("circuit-control+dictionary-gate")      # both styles in one circuit: the gate's dictionary wins for that gate
    dd = H.dict_depth(gs)
    if dd:
        out.add(f"dict-depth={dd}")
    if case.get("init") is not None:
        out.add("init-" + case["init"]["kind"])
    st_ = Counter(l["status"] for l in leaves)
    for k in ("dead", "fuzzy", "trunc"):
        if st_.get(k):
            out.add("has-" + k + "-branch")
    out.add(f"alive-branches={min(st_.get('alive', 0), 16) if st_.get('alive', 0) < 16 else '16+'}")
    ml = max([len(l["b"]) for l in leaves], default=0)
    out.add(f"path-meas={ml if ml < 6 else '6+'}")
    if len({len(l["b"]) for l in leaves if l["status"] == "alive"}) > 1:
        out.add("variable-length-outcomes")
    if case.get("ctrl") or any(g["n"] == "CMEASURE" for g in gs):
        if growth(case):
            out.add("precirc-growth")
    used = {q for g in recs for q in g["t"] + (g.get("c") or [])}
    if len(used) < n:
        out.add("idle-qubit")
    return out


def prepare(case, cap_meas):
    n = H.width_of(case)
    init = S.build_statevector(case.get("init"), n)
    leaves = H.walk(case, n, init, cap_meas=cap_meas)
    return n, init, leaves


def pad(b, n_meas):
    return b + "0" * max(0, n_meas - len(b))


def iv(init):
    return None if init is None else init.copy()


# Watchdog against non-termination.  Every generated program terminates by construction (the reference bounds the number
# of measurements per shot before Tangelo is called), so a Tangelo call that executes control programs and is still
# running after the limit has selected gates other than those the outcomes select (e.g. a control that keeps re-inserting
# measurements).  "sim": limit of the first trip for simulations, "syn": for generate_applied_gates (no simulation, ms
# scale); after the first trip of a part all limits drop to "after" so that shrinking stays cheap, and after MAX_TRIPS
# trips the remaining (shrink) candidates are not evaluated any more.  This is not a per-case time budget.
WATCHDOG = {"sim": 60.0, "syn": 20.0, "after": 1.5, "trips": 0}
MAX_TRIPS = 25


def watchdog_reset():
    WATCHDOG["trips"] = 0


class _NoTermination(BaseException):
    pass


def _alarm(signum, frame):
    raise _NoTermination()


def guarded(kind, what, fn, *a, **kw):
    """fn(*a, **kw) under the watchdog.  Nests inside an outer ITIMER_REAL guard (vlib.runner's per-case guard): the
    outer timer's remaining time is saved and re-armed on exit; if the outer timer would fire first it is left alone."""
    import signal, time
    limit = WATCHDOG["after"] if WATCHDOG["trips"] else WATCHDOG[kind]
    outer_left, outer_interval = signal.getitimer(signal.ITIMER_REAL)
    if 0 < outer_left <= limit:
        return fn(*a, **kw)
    t0 = time.monotonic()
    old = signal.signal(signal.SIGALRM, _alarm)
    signal.setitimer(signal.ITIMER_REAL, limit)
    try:
        return fn(*a, **kw)
    except _NoTermination:
        WATCHDOG["trips"] += 1
        raise Fail(f"{what} did not terminate within {limit} s (watchdog): the control programs of the case are finite",
                   sig=f"{what}:no-termination")
    finally:
        signal.setitimer(signal.ITIMER_REAL, 0)
        signal.signal(signal.SIGALRM, old)
        if outer_left > 0:
            signal.setitimer(signal.ITIMER_REAL, max(outer_left - (time.monotonic() - t0), 0.05), outer_interval)


def tripped_out():
    """True once the watchdog has fired MAX_TRIPS times in this part: the search is in its shrink phase on a
    non-terminating case, further candidates are skipped so that the run finishes."""
    return WATCHDOG["trips"] >= MAX_TRIPS


def sim(be, *a, **kw):
    return guarded("sim", "simulate", _sim, be, *a, **kw)


def applied_gates_of(circ, **kw):
    """tangelo.linq.generate_applied_gates under the watchdog (it executes the control programs too)."""
    from tangelo.linq import generate_applied_gates
    return guarded("syn", "generate_applied_gates", generate_applied_gates, circ, **kw)


def _sim(be, *a, **kw):
    """be.simulate(...).  Exceptions that surface from third-party code called by Tangelo (cirq, numpy) are attributed
    to the Tangelo frame that made the call; exceptions raised by Tangelo itself pass through unchanged.  (vlib.runner does this itself except when the
    innermost frame has a relative file name, e.g. 'numpy/random/mtrand.pyx', which it mistakes for harness code.)"""
    import os, traceback
    from vlib import runner
    try:
        return be.simulate(*a, **kw)
    except Exception as e:
        tb = traceback.extract_tb(e.__traceback__)
        last = [f for f in tb if os.path.isabs(f.filename)][-1]
        if os.path.realpath(last.filename).startswith(runner.REPO + os.sep):
            raise          # raised by Tangelo itself: callers decide (documented refusals) or the runner classifies it
        for f in reversed(tb):
            fn = os.path.realpath(f.filename) if os.path.isabs(f.filename) else ""
            if fn.startswith(runner.REPO + os.sep):
                raise Fail(f"unexpected {type(e).__name__} below Tangelo: {e}",
                           sig=f"exception:{type(e).__name__}@{os.path.relpath(fn, runner.REPO)}:{f.name}",
                           traceback=traceback.format_exc()[-1500:])
        raise


def get_cirq(n_shots=None):
    from tangelo.linq import get_backend
    be = get_backend("cirq", n_shots=n_shots)
    if be.backend_info()["statevector_order"] != "lsq_first":
        raise Fail("cirq advertises " + str(be.backend_info()), sig="cirq:order")
    return be


def expect_zero_prob_error(case, n, init, b, n_meas_fixed, sig):
    """A requested outcome string of probability zero must be refused with the documented ValueError (exact mode)."""
    circ = H.build_circuit(case)     # fresh objects: a refused run leaves the control object un-finalised
    be = get_cirq()
    want = pad(b, n_meas_fixed) if n_meas_fixed is not None else b
    try:
        sim(be, circ, desired_meas_result=want, return_statevector=True, initial_statevector=iv(init))
    except ValueError as e:
        if "zero" not in str(e):
            raise
        return
    raise Fail(f"outcome string {want!r} has probability 0 but the simulation returned a state "
               f"(recorded probability {circ.success_probabilities.get(want)})", sig=sig + ":zero-prob-accepted")


# ----------------------------------------------------------------------------------------------------- collapse function

@part("collapse_fn", quick=300, thorough=6000)
def collapse_fn(ctx):
    """collapse_statevector_to_desired_measurement for both index orders against a direct projection."""
    from tangelo.linq.target.backend import collapse_statevector_to_desired_measurement as collapse

    @st.composite
    def cases(draw):
        n = draw(st.integers(1, 4))
        return {"n": n, "q": draw(st.integers(0, n - 1)), "r": draw(st.integers(0, 1)),
                "order": draw(st.sampled_from(["lsq_first", "msq_first"])), "sv": draw(S.statevectors(n, allow_none=False))}

    def body(case):
        n, q, r = case["n"], case["q"], case["r"]
        psi = S.build_statevector(case["sv"], n)        # qubit 0 = most significant bit of the index ("lsq_first")
        v, p = H.project(psi, q, r, n)
        arg = psi if case["order"] == "lsq_first" else R.reverse_order(psi)
        keep = arg.copy()
        if p < 1e-30:
            try:
                collapse(arg, q, r, case["order"])
            except ValueError:
                return False, ("zero-prob-refused", case["order"])
            raise Fail("zero-probability projection accepted", sig="collapse:zero-prob-accepted")
        if p < 1e-9:
            return False, ("fuzzy",)
        got, gp = collapse(arg, q, r, case["order"])
        got = np.asarray(got).reshape(-1)
        if case["order"] == "msq_first":
            got = R.reverse_order(got)
        if np.max(np.abs(arg - keep)) > 0:
            raise Fail("input statevector modified", sig="collapse:mutates-input")
        if abs(gp - p) > 1e-9:
            raise Fail(f"probability {gp}, reference {p}", sig=f"collapse:{case['order']}:probability")
        if np.max(np.abs(got - v / np.sqrt(p))) > 1e-8:
            raise Fail(f"collapsed state differs from P_r psi/||P_r psi|| (qubit {q}, result {r}, n={n})", sig=f"collapse:{case['order']}:state")
        return (1e-9 < p < 1 - 1e-9), (case["order"], f"n={n}")

    ctx.search("collapse_fn", cases(), body)


# ----------------------------------------------------------------------------------------------------- MEASURE, exact

@part("meas_exact", quick=220, thorough=9000)
def meas_exact(ctx):
    watchdog_reset()
    mw, mu, mm = (4, 10, 4) if ctx.tier == "quick" else (4, 14, 5)

    @st.composite
    def cases(draw):
        c = draw(H.measure_cases(mw, mu, mm))
        c["rsv"] = draw(st.integers(0, 3)) > 0
        c["save"] = draw(st.booleans())
        return c

    def body(case):
        n, init, leaves = prepare(case, 10)
        circ = H.build_circuit(case)
        if circ.width != n:
            raise Fail(f"Circuit.width={circ.width}, expected {n}", sig="width")
        n_meas = sum(g["n"] == "MEASURE" for g in case["gates"])
        be = get_cirq()
        alive = [l for l in leaves if l["status"] == "alive"]
        slack = sum(l["p"] for l in leaves if l["status"] == "fuzzy")
        mix_t = np.zeros(2 ** n)
        for l in alive:
            b = l["b"]
            try:
                f, sv = sim(be, circ, desired_meas_result=b, return_statevector=case["rsv"], initial_statevector=iv(init),
                                    save_mid_circuit_meas=case["save"])
            except ValueError as e:
                raise Fail(f"outcome string {b!r} has probability {l['p']} but was refused: {e}", sig="meas_exact:alive-branch-refused")
            p = R.probs(l["psi"])
            if case["rsv"]:
                sv = np.asarray(sv).reshape(-1)
                if sv.shape != l["psi"].shape or np.max(np.abs(sv - l["psi"])) > 1e-8:
                    raise Fail(f"post-measurement state for {b!r} differs from the normalised projection "
                               f"(max dev {np.max(np.abs(sv - l['psi'])) if sv.shape == l['psi'].shape else 'shape'})",
                               sig="meas_exact:state", got=[str(x) for x in sv[:8]], ref=[str(x) for x in l["psi"][:8]])
            elif sv is not None:
                raise Fail("statevector returned although not requested", sig="meas_exact:rsv")
            check_exact_freqs(f, p, n, "meas_exact:final", f"final distribution of branch {b!r}")
            pt = circ.success_probabilities.get(b)
            if pt is None or abs(pt - l["p"]) > 1e-9:
                raise Fail(f"success_probabilities[{b!r}]={pt}, Born probability {l['p']}", sig="meas_exact:probability")
            check_exact_freqs(be.all_frequencies, p, n, "meas_exact:all_frequencies", f"all_frequencies of branch {b!r}", prefix=b)
            mid = be.mid_circuit_meas_freqs
            if set(mid) != {b} or abs(mid[b] - 1) > 1e-7:
                raise Fail(f"mid_circuit_meas_freqs={mid} for requested outcomes {b!r}", sig="meas_exact:mid")
            for k, v in f.items():
                mix_t[int(k, 2)] += pt * v
        for l in leaves:
            if l["status"] == "dead":
                expect_zero_prob_error(case, n, init, l["b"], n_meas, "meas_exact")
        # over all outcome strings: probabilities sum to one, weighted branch distributions = unconditioned distribution
        rec = circ.success_probabilities
        extra = set(rec) - {l["b"] for l in alive}
        if extra:
            raise Fail(f"success_probabilities has unexpected keys {sorted(extra)}", sig="meas_exact:probability-keys")
        tot = sum(rec[l["b"]] for l in alive)
        if abs(tot - 1) > 1e-7 + slack:
            raise Fail(f"branch probabilities sum to {tot}", sig="meas_exact:sum")
        dd = H.dephased_density_diag(case["gates"], n, init)
        dev = float(np.max(np.abs(mix_t - dd)))
        if dev > 1e-6 + slack:
            raise Fail(f"sum_b p_b dist_b differs from the dephased density evolution by {dev}", sig="meas_exact:mixture")
        return any(l["nontrivial"] for l in leaves), case_labels(case, leaves, n) | {f"rsv={case['rsv']}", f"save={case['save']}"}

    ctx.search("meas_exact", cases(), body)


# ----------------------------------------------------------------------------------------------------- MEASURE, sampled

@part("meas_sampled", quick=140, thorough=5000)
def meas_sampled(ctx):
    watchdog_reset()
    mw, mu, mm = (4, 8, 3) if ctx.tier == "quick" else (4, 12, 4)

    @st.composite
    def cases(draw):
        c = draw(H.measure_cases(mw, mu, mm))
        c["mode"] = draw(st.sampled_from(["save", "desired", "dm", "one", "save", "desired"]))
        c["shots"] = 1 if c["mode"] == "one" else draw(st.sampled_from([100, 2000, 7, 1] if c["mode"] != "desired" else [50, 1000, 1, 5]))
        c["pick"] = draw(st.integers(0, 63))
        c["rsv"] = draw(st.booleans())
        return c

    def body(case):
        n, init, leaves = prepare(case, 10)
        circ = H.build_circuit(case)
        n_meas = sum(g["n"] == "MEASURE" for g in case["gates"])
        N, mode = case["shots"], case["mode"]
        alive = [l for l in leaves if l["status"] == "alive"]
        mix, _ = H.mixture(leaves, n)
        ref_final = {R.bitstr(i, n): float(mix[i]) for i in range(2 ** n) if mix[i] > 0}
        ref_mid = {l["b"]: l["p"] for l in alive}
        ref_all = {}
        for l in alive:
            for i, x in enumerate(R.probs(l["psi"])):
                if x > 0:
                    ref_all[l["b"] + R.bitstr(i, n)] = l["p"] * float(x)

        def p_mid(k):
            return H.follow(case, n, init, k)["p"] if len(k) == n_meas else None

        def p_all(k):
            if len(k) != n_meas + n:
                return None
            l = H.follow(case, n, init, k[:n_meas])
            return None if l["psi"] is None else l["p"] * float(R.probs(l["psi"])[int(k[n_meas:], 2)])

        def p_fin(k):
            return float(H.dephased_density_diag(case["gates"], n, init)[int(k, 2)]) if len(k) == n else None

        be = get_cirq(N)
        lab = {f"mode={mode}", f"shots={N}"}
        if mode == "desired":
            cand = [l for l in alive if l["p"] >= 0.02]
            if not cand:
                mode = "save"
                lab.add("desired-fallback-save")
        ctx.np_seed(case)
        if mode == "dm":
            f, _ = sim(be, circ, initial_statevector=iv(init))
            check_counts(f, N, n, "meas_sampled:dm", "unconditioned run")
            check_sampled(f, ref_final, N, p_fin, "meas_sampled:dm", "unconditioned run (density-matrix path)")
        elif mode == "save":
            f, sv = sim(be, circ, initial_statevector=iv(init), save_mid_circuit_meas=True)
            if sv is not None:
                raise Fail("statevector returned although not requested", sig="meas_sampled:rsv")
            allf, mid = be.all_frequencies, be.mid_circuit_meas_freqs
            check_counts(allf, N, n_meas + n, "meas_sampled:all", "all_frequencies")
            check_counts(mid, N, n_meas, "meas_sampled:mid", "mid_circuit_meas_freqs")
            check_counts(f, N, n, "meas_sampled:final", "returned frequencies")
            # the two marginals are exact marginals of the joint histogram
            m1, m2 = Counter(), Counter()
            for k, v in allf.items():
                m1[k[:n_meas]] += round(v * N)
                m2[k[n_meas:]] += round(v * N)
            if {k: round(v * N) for k, v in mid.items()} != dict(m1) or {k: round(v * N) for k, v in f.items()} != dict(m2):
                raise Fail(f"mid/final histograms are not the marginals of all_frequencies: all={allf} mid={mid} final={f}", sig="meas_sampled:marginals")
            check_sampled(allf, ref_all, N, p_all, "meas_sampled:all", "all_frequencies")
            check_sampled(mid, ref_mid, N, p_mid, "meas_sampled:mid", "mid_circuit_meas_freqs")
            check_sampled(f, ref_final, N, p_fin, "meas_sampled:final", "returned frequencies")
        elif mode == "desired":
            l = cand[case["pick"] % len(cand)]
            b = l["b"]
            f, sv = sim(be, circ, desired_meas_result=b, return_statevector=case["rsv"], initial_statevector=iv(init))
            if case["rsv"]:
                sv = np.asarray(sv).reshape(-1)
                if sv.shape != l["psi"].shape or np.max(np.abs(sv - l["psi"])) > 1e-8:
                    raise Fail(f"state returned for requested outcomes {b!r} with n_shots={N} differs from the branch state", sig="meas_sampled:desired:state")
            allf, mid = be.all_frequencies, be.mid_circuit_meas_freqs
            check_counts(allf, N, n_meas + n, "meas_sampled:desired:all", "all_frequencies")
            check_counts(mid, N, n_meas, "meas_sampled:desired:mid", "mid_circuit_meas_freqs")
            pb = {R.bitstr(i, n): float(x) for i, x in enumerate(R.probs(l["psi"])) if x > 0}
            if set(mid) == {b}:
                # every shot was conditioned on b: n_shots draws from the branch distribution
                K = N
                lab.add("desired:all-shots-conditioned")
            else:
                # shots were drawn from the joint law and the returned histogram is the post-selected part
                K = round(mid.get(b, 0.0) * N)
                lab.add("desired:post-selected")
                check_sampled(allf, ref_all, N, p_all, "meas_sampled:desired:all", "all_frequencies (unconditioned shots)")
                check_sampled(mid, ref_mid, N, p_mid, "meas_sampled:desired:mid", "mid_circuit_meas_freqs (unconditioned shots)")
            cond = {k[n_meas:]: round(v * N) for k, v in allf.items() if k[:n_meas] == b}
            if sum(cond.values()) != K:
                raise Fail(f"all_frequencies={allf} inconsistent with mid_circuit_meas_freqs={mid}", sig="meas_sampled:desired:marginals")
            if K == 0:
                if f:
                    raise Fail(f"no shot produced {b!r} but frequencies {f} were returned", sig="meas_sampled:desired:postselect")
                lab.add("desired:no-success")
            else:
                check_counts(f, K, n, "meas_sampled:desired", "conditioned histogram")
                if {k: round(v * K) for k, v in f.items()} != cond:
                    raise Fail(f"returned frequencies {f} are not the shots of all_frequencies={allf} that carry {b!r}", sig="meas_sampled:desired:postselect")
                check_sampled(f, pb, K, lambda k: None, "meas_sampled:desired", f"conditioned histogram on {b!r}")
            lab.add("desired-p<0.2" if l["p"] < 0.2 else "desired-p>=0.2")
        else:   # one shot, statevector of that shot
            f, sv = sim(be, circ, initial_statevector=iv(init), save_mid_circuit_meas=True, return_statevector=True)
            mid = be.mid_circuit_meas_freqs
            check_counts(mid, 1, n_meas, "meas_sampled:one:mid", "mid_circuit_meas_freqs")
            check_counts(f, 1, n, "meas_sampled:one:final", "returned frequencies")
            b = next(iter(mid))
            l = H.follow(case, n, init, b)
            if l["p"] < 1e-20:
                raise Fail(f"single shot produced the impossible outcomes {b!r}", sig="meas_sampled:one:support")
            if l["p"] > 1e-7:
                sv = np.asarray(sv).reshape(-1)
                if np.max(np.abs(sv - l["psi"])) > 1e-7:
                    raise Fail(f"state of the single shot with outcomes {b!r} differs from the branch state", sig="meas_sampled:one:state")
                x = next(iter(f))
                if R.probs(l["psi"])[int(x, 2)] < 1e-12:
                    raise Fail(f"final sample {x} impossible in branch {b!r}", sig="meas_sampled:one:final-support")
        return any(l["nontrivial"] for l in leaves), case_labels(case, leaves, n) | lab

    ctx.search("meas_sampled", cases(), body,
               exclusions={s: (lambda c: c.get("init") is not None and c["mode"] in ("save", "desired"))
                           for s in ("meas_sampled:all:support", "meas_sampled:all:dist", "meas_sampled:desired:all:support",
                                     "meas_sampled:desired:all:dist")})


# ----------------------------------------------------------------------------------------------------- CMEASURE, exact

def cm_bounds(tier):
    # width, unitary gates, top-level measurement gates, dictionary depth, cap on measurements per path, cap on paths
    return (4, 10, 3, 2, 8, 32) if tier == "quick" else (4, 12, 4, 3, 10, 64)


@part("cmeas_exact", quick=260, thorough=10000)
def cmeas_exact(ctx):
    watchdog_reset()
    mw, mu, mm, dp, cap, mp = cm_bounds(ctx.tier)

    @st.composite
    def cases(draw):
        c = draw(H.cmeasure_cases(mw, mu, mm, dp).filter(lambda c: H.bounded(c, cap, mp)))
        c["rsv"] = draw(st.integers(0, 3)) > 0
        c["save"] = draw(st.booleans())
        return c

    def body(case):
        if tripped_out():
            return False, ("not-run:after-watchdog-trips",)
        n, init, leaves = prepare(case, cap)
        circ = H.build_circuit(case)
        if circ.width != n:
            raise Fail(f"Circuit.width={circ.width}, expected {n}", sig="width")
        be = get_cirq()
        ctrl_obj = circ._cmeasure_control
        is_cls = bool(case.get("ctrl")) and case["ctrl"]["kind"] == "class_hist"
        alive = [l for l in leaves if l["status"] == "alive"]
        slack = sum(l["p"] for l in leaves if l["status"] in ("fuzzy", "trunc"))
        mix_t = np.zeros(2 ** n)
        for l in alive:
            b = l["b"]
            # the gates selected by these outcomes, without simulation
            check_trace(applied_gates_of(circ, desired_meas_result=b), l, "cmeas:generate_applied_gates", "generate_applied_gates")
            nlog = len(ctrl_obj.log) if is_cls else 0
            try:
                f, sv = sim(be, circ, desired_meas_result=b, return_statevector=case["rsv"], initial_statevector=iv(init),
                                    save_mid_circuit_meas=case["save"])
            except ValueError as e:
                raise Fail(f"outcome string {b!r} has probability {l['p']} but was refused: {e}", sig="cmeas_exact:alive-branch-refused")
            check_trace(circ.applied_gates, l, "cmeas_exact:applied_gates", "applied_gates")
            p = R.probs(l["psi"])
            if case["rsv"]:
                sv = np.asarray(sv).reshape(-1)
                if sv.shape != l["psi"].shape or np.max(np.abs(sv - l["psi"])) > 1e-8:
                    raise Fail(f"post-measurement state for {b!r} differs from the branch state "
                               f"(max dev {np.max(np.abs(sv - l['psi'])) if sv.shape == l['psi'].shape else 'shape'})",
                               sig="cmeas_exact:state", got=[str(x) for x in sv[:8]], ref=[str(x) for x in l["psi"][:8]])
            elif sv is not None:
                raise Fail("statevector returned although not requested", sig="cmeas_exact:rsv")
            check_exact_freqs(f, p, n, "cmeas_exact:final", f"final distribution of branch {b!r}")
            pt = circ.success_probabilities.get(b)
            if pt is None or abs(pt - l["p"]) > 1e-9:
                raise Fail(f"success_probabilities[{b!r}]={pt}, Born probability {l['p']}", sig="cmeas_exact:probability")
            check_exact_freqs(be.all_frequencies, p, n, "cmeas_exact:all_frequencies", f"all_frequencies of branch {b!r}", prefix=b)
            if case["save"]:      # attribute documented under save_mid_circuit_meas=True
                mid = be.mid_circuit_meas_freqs
                if set(mid) != {b} or abs(mid[b] - 1) > 1e-7:
                    raise Fail(f"mid_circuit_meas_freqs={mid} for requested outcomes {b!r}", sig="cmeas_exact:mid")
            if is_cls:
                if len(ctrl_obj.log) != nlog + 1 or ctrl_obj.log[-1] != l["hist"] or ctrl_obj.history != "":
                    raise Fail(f"control object after one run with outcomes {b!r}: log grew by {len(ctrl_obj.log) - nlog}, last entry "
                               f"{ctrl_obj.log[-1:]} (expected {l['hist']!r}), pending history {ctrl_obj.history!r}", sig="cmeas_exact:finalize")
            for k, v in f.items():
                mix_t[int(k, 2)] += pt * v
        for l in leaves:
            if l["status"] == "dead":
                expect_zero_prob_error(case, n, init, l["b"], None, "cmeas_exact")
        rec = circ.success_probabilities
        extra = set(rec) - {l["b"] for l in alive}
        if extra:
            raise Fail(f"success_probabilities has unexpected keys {sorted(extra)}", sig="cmeas_exact:probability-keys")
        tot = sum(rec[l["b"]] for l in alive)
        if abs(tot - 1) > 1e-7 + slack:
            raise Fail(f"branch probabilities sum to {tot}", sig="cmeas_exact:sum")
        mix, _ = H.mixture(leaves, n)
        dev = float(np.max(np.abs(mix_t - mix)))
        if dev > 1e-6 + slack:
            raise Fail(f"sum_b p_b dist_b differs from the reference mixture by {dev}", sig="cmeas_exact:mixture")
        # all-ones default of generate_applied_gates (finite for every family except repeat-until-success on "1")
        if not (case.get("ctrl") and case["ctrl"]["kind"] == "func_rus"):
            ones = H.walk(case, 0, script="1" * 64, quantum=False)[0]
            if ones["status"] == "alive":
                check_trace(applied_gates_of(circ), ones, "cmeas:generate_applied_gates:default", "generate_applied_gates(default outcomes)")
        return any(l["nontrivial"] for l in leaves), case_labels(case, leaves, n) | {f"rsv={case['rsv']}"}

    ctx.search("cmeas_exact", cases(), body,
               exclusions={"cmeas_exact:mid": lambda c: c["save"],
                           "cmeas:generate_applied_gates": growth, "cmeas_exact:alive-branch-refused": growth,
                           "cmeas_exact:applied_gates": growth})


# ----------------------------------------------------------------------------------------------------- CMEASURE, sampled

@part("cmeas_sampled", quick=120, thorough=4000)
def cmeas_sampled(ctx):
    watchdog_reset()
    mw, mu, mm, dp, cap, mp = cm_bounds(ctx.tier)
    cap = cap + 4

    @st.composite
    def cases(draw):
        c = draw(H.cmeasure_cases(mw, min(mu, 8), mm, dp).filter(lambda c: H.bounded(c, cap, 4 * mp)))
        c["mode"] = draw(st.sampled_from(["shots", "desired", "shots", "one", "shots"]))
        c["shots"] = 1 if c["mode"] == "one" else draw(st.sampled_from([60, 300, 10, 1] if ctx.tier == "quick" else [100, 1000, 10, 1]))
        c["pick"] = draw(st.integers(0, 63))
        c["rsv"] = draw(st.booleans())
        return c

    def body(case):
        if tripped_out():
            return False, ("not-run:after-watchdog-trips",)
        n, init, leaves = prepare(case, cap)
        N, mode = case["shots"], case["mode"]
        alive = [l for l in leaves if l["status"] == "alive"]
        by_b = {l["b"]: l for l in alive}
        trunc = sum(l["p"] for l in leaves if l["status"] == "trunc")
        lab = {f"mode={mode}", f"shots={N}"}
        if mode != "desired" and trunc > 1e-3:
            # a repeat-until-success loop that (almost) never succeeds: the shot loop would not terminate in reasonable time
            return False, case_labels(case, leaves, n) | {"not-run:rus-success-too-unlikely"}
        circ = H.build_circuit(case)
        ctrl_obj = circ._cmeasure_control
        is_cls = bool(case.get("ctrl")) and case["ctrl"]["kind"] == "class_hist"
        be = get_cirq(N)
        mix, _ = H.mixture(leaves, n)
        ref_final = {R.bitstr(i, n): float(mix[i]) for i in range(2 ** n) if mix[i] > 0}
        ref_mid = {l["b"]: l["p"] for l in alive}
        ref_all = {}
        for l in alive:
            for i, x in enumerate(R.probs(l["psi"])):
                if x > 0:
                    ref_all[l["b"] + R.bitstr(i, n)] = l["p"] * float(x)
        cache = {}

        def leaf_of(b):
            if b not in cache:
                cache[b] = by_b.get(b) or H.follow(case, n, init, b)
            return cache[b]

        def p_mid(k):
            l = leaf_of(k)
            return l["p"] if (l["status"] == "alive" and l["b"] == k) else None

        def p_all(k):
            if len(k) < n:
                return None
            l = leaf_of(k[:len(k) - n])
            if l["status"] != "alive" or l["b"] != k[:len(k) - n] or l["psi"] is None:
                return None
            return l["p"] * float(R.probs(l["psi"])[int(k[len(k) - n:], 2)])

        rest = sum(l["p"] for l in leaves if l["status"] in ("trunc", "fuzzy"))

        def p_fin(k):
            # a final outcome outside the enumerated branches can only come from the (tiny) mass not enumerated
            return rest if len(k) == n else None

        if mode == "desired":
            cand = alive
            if not cand:
                return False, case_labels(case, leaves, n) | {"not-run:no-alive-branch"}
            l = cand[case["pick"] % len(cand)]
            b = l["b"]
            ctx.np_seed(case)
            try:
                f, sv = sim(be, circ, desired_meas_result=b, return_statevector=case["rsv"], initial_statevector=iv(init))
            except ValueError as e:
                raise Fail(f"outcome string {b!r} has probability {l['p']} but was refused: {e}", sig="cmeas_sampled:alive-branch-refused")
            check_trace(circ.applied_gates, l, "cmeas_sampled:applied_gates", "applied_gates")
            if case["rsv"]:
                sv = np.asarray(sv).reshape(-1)
                if sv.shape != l["psi"].shape or np.max(np.abs(sv - l["psi"])) > 1e-8:
                    raise Fail(f"state returned for requested outcomes {b!r} with n_shots={N} differs from the branch state", sig="cmeas_sampled:desired:state")
            pt = circ.success_probabilities.get(b)
            if pt is None or abs(pt - l["p"]) > 1e-9 or set(circ.success_probabilities) != {b}:
                raise Fail(f"success_probabilities={circ.success_probabilities}, Born probability of {b!r} is {l['p']}", sig="cmeas_sampled:desired:probability")
            check_counts(f, N, n, "cmeas_sampled:desired", "conditioned run")
            check_sampled(f, {R.bitstr(i, n): float(x) for i, x in enumerate(R.probs(l["psi"])) if x > 0}, N, lambda k: None,
                          "cmeas_sampled:desired", f"conditioned run on {b!r}")
            if set(be.mid_circuit_meas_freqs) != {b} or any(not k.startswith(b) for k in be.all_frequencies):
                raise Fail(f"all_frequencies / mid_circuit_meas_freqs do not carry the requested outcomes {b!r}", sig="cmeas_sampled:desired:keys")
            if is_cls and (len(ctrl_obj.log) != N or set(ctrl_obj.log) != {l["hist"]}):
                raise Fail(f"control object log after {N} shots on {b!r}: {Counter(ctrl_obj.log)} (expected {N} x {l['hist']!r})", sig="cmeas_sampled:finalize")
            return any(x["nontrivial"] for x in leaves), case_labels(case, leaves, n) | lab

        ctx.np_seed(case)
        f, sv = sim(be, circ, initial_statevector=iv(init), return_statevector=(mode == "one"))
        allf, mid = be.all_frequencies, be.mid_circuit_meas_freqs
        check_counts(allf, N, None, "cmeas_sampled:all", "all_frequencies")
        check_counts(mid, N, None, "cmeas_sampled:mid", "mid_circuit_meas_freqs")
        check_counts(f, N, n, "cmeas_sampled:final", "returned frequencies")
        m1, m2 = Counter(), Counter()
        for k, v in allf.items():
            m1[k[:len(k) - n]] += round(v * N)
            m2[k[len(k) - n:]] += round(v * N)
        if {k: round(v * N) for k, v in mid.items()} != dict(m1) or {k: round(v * N) for k, v in f.items()} != dict(m2):
            raise Fail(f"mid/final histograms are not the marginals of all_frequencies: all={allf} mid={mid} final={f}", sig="cmeas_sampled:marginals")
        # every observed outcome string must be a complete, possible path of the program
        for b in mid:
            l = leaf_of(b)
            if l["status"] != "alive" or l["b"] != b or l["p"] < 1e-20:
                raise Fail(f"observed outcome string {b!r} is not a possible complete run of the program (status {l['status']}, p={l['p']})",
                           sig="cmeas_sampled:mid:support")
        # the gates applied in the last shot are those selected by that shot's outcomes
        ag = list(circ.applied_gates)
        b_last = "".join(g.parameter for g in ag if g.name in H.MEAS and isinstance(g.parameter, str))
        if b_last not in mid:
            raise Fail(f"applied_gates carries outcomes {b_last!r}, which no shot produced (observed {sorted(mid)})", sig="cmeas_sampled:applied_gates:outcomes")
        check_trace(ag, leaf_of(b_last), "cmeas_sampled:applied_gates", "applied_gates of the last shot")
        # recorded probabilities of the observed strings
        rec = circ.success_probabilities
        if set(rec) != set(mid):
            raise Fail(f"success_probabilities keys {sorted(rec)} != observed outcome strings {sorted(mid)}", sig="cmeas_sampled:probability-keys")
        for b in mid:
            if abs(rec[b] - leaf_of(b)["p"]) > 1e-9:
                raise Fail(f"success_probabilities[{b!r}]={rec[b]}, Born probability {leaf_of(b)['p']}", sig="cmeas_sampled:probability")
        # per-shot bookkeeping of the control object
        if is_cls:
            want = Counter()
            for b, v in mid.items():
                want[leaf_of(b)["hist"]] += round(v * N)
            if len(ctrl_obj.log) != N or Counter(ctrl_obj.log) != want or ctrl_obj.history != "":
                raise Fail(f"control object log {dict(Counter(ctrl_obj.log))} after {N} shots, the shots' outcomes imply {dict(want)}", sig="cmeas_sampled:finalize")
        # frequencies are draws from the branch probabilities
        check_sampled(mid, ref_mid, N, p_mid, "cmeas_sampled:mid", "mid_circuit_meas_freqs")
        check_sampled(allf, ref_all, N, p_all, "cmeas_sampled:all", "all_frequencies")
        if trunc < 1e-12:
            check_sampled(f, ref_final, N, p_fin, "cmeas_sampled:final", "returned frequencies")
        if mode == "one":
            l = leaf_of(b_last)
            if l["p"] > 1e-7:
                sv = np.asarray(sv).reshape(-1)
                if sv.shape != l["psi"].shape or np.max(np.abs(sv - l["psi"])) > 1e-7:
                    raise Fail(f"state of the single shot with outcomes {b_last!r} differs from the branch state", sig="cmeas_sampled:one:state")
        return any(x["nontrivial"] for x in leaves), case_labels(case, leaves, n) | lab

    ctx.search("cmeas_sampled", cases(), body,
               exclusions={"cmeas_sampled:applied_gates": growth, "cmeas_sampled:alive-branch-refused": growth})
