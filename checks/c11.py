"""C11 - circuit metadata stays consistent under any operation history (model-based operation-history check).

A history is plain data: an initial pool of circuits (gate records + declared n_qubits) and a list of operation records.
The interpreter applies every operation both to the Tangelo objects and to a reference model (python lists of gate
records + declared width + tracked indices, updated by the documented meaning of the operation).  After every step, for
every circuit of the pool:
  * the gate list of the object (names, index lists, parameter values AND types, variational flags) equals the model's
    -> this is what makes read-only operations (translate, simulate, depth, inverse, copy, +, *, stack, split,
       function-form passes) observable: the model of their operands does not change;
  * size, counts, counts_n_qubit, is_variational, is_mixed_state, depth() equal the values recomputed from
    list(circuit); width >= max index + 1 and width == model width.
"""
from math import pi
from collections import Counter
import numpy as np
from hypothesis import strategies as st

from vlib.runner import part, Fail, Skip
from vlib import strategies as S

PROPERTY = "C11"
RULE = ("Hypothesis-generated operation histories (4-25 steps quick, up to 40 thorough) over a pool of 1-3 small circuits "
        "(<=5 qubits, <=8 gates each at start; gates incl. MEASURE, variational flags, multi-controlled CNOT/CX, string "
        "parameters; n_qubits None / 0 / fixed >= used). Operations: add_gate (valid, and out-of-range on fixed width -> must "
        "raise and change nothing), +, *k (k<=0 must raise), copy, inverse, trim_qubits, reindex_qubits (also wrong length), "
        "split, stack (function/method), remove_small_rotations / merge_rotations / remove_redundant_gates / simplify "
        "(function and method forms), depth, str/serialize, translate_circuit to cirq/sympy/ionq/projectq/qdk, simulate on "
        "cirq and sympy, writing a parameter through _variational_gates. Oracle: reference model + metadata recomputed from "
        "list(circuit) after every step for every circuit in the pool. Second part: Gate(...) / add_gate / Circuit(...) with "
        "negative, fractional, bool, string, None, duplicate, out-of-range indices or wrong number of targets must raise. "
        "Non-trivial history = >=4 executed steps with >=1 in-place rewrite followed later by >=1 read-only operation. "
        "Distinct = distinct canonical JSON of the history.")
ASSUMPTIONS = ["the gate-level effect of the simplification passes is not modelled here (C09 checks it): after a pass the model takes "
               "the resulting gate list from the object; after merge_rotations/simplify also the declared width (not documented)",
               "reindex_qubits maps the i-th smallest tracked index to new_indices[i]; on fixed-width circuits only permutations of "
               "range(N) are used (documented: new_index < N)",
               "operations are applied only where documented to work: numeric passes/inverse-based passes are not applied to circuits "
               "with string parameters or MEASURE gates; documented refusals (ValueError / AttributeError) are counted and the "
               "circuit must still be unchanged afterwards",
               "only cirq, sympy, ionq-json, projectq-text and qdk writers run here (qiskit/qulacs/braket/pennylane/stim/openqasm "
               "are not installed); CMEASURE is not generated",
               "sympy simulation is limited to width <= 3 and <= 6 gates"]
SHARDS = {"quick": 4, "thorough": 16}

ROT = {"RX", "RY", "RZ", "PHASE", "CRX", "CRY", "CRZ", "CPHASE", "XX"}
INVERTIBLE = {"H", "X", "Y", "Z", "S", "T", "RX", "RY", "RZ", "CH", "PHASE", "CNOT", "CX", "CY", "CZ", "CRX", "CRY", "CRZ",
              "CPHASE", "XX", "SWAP", "CSWAP"}
FORMATS = ["cirq", "sympy", "ionq", "projectq", "qdk"]
MAX_SIZE = 20
MAX_POOL = 6


# ------------------------------------------------------------------------------------------------ strategies (plain data)

ANG = st.one_of(st.floats(-7, 7, allow_nan=False), st.integers(-8, 8).map(lambda k: k * pi / 4),
                st.sampled_from([0.0, 1e-4, -1e-4, 2 * pi, -2 * pi, 4 * pi, 1e-9]), st.integers(-3, 3))


@st.composite
def gate11(draw, width, symbolic=False, measure=True, vrate=1):
    kind = draw(st.integers(0, 11))
    if kind == 0 and measure:
        return {"n": "MEASURE", "t": [draw(st.integers(0, width - 1))], "c": None, "p": None}
    if kind <= 2 and width >= 3:
        # multi-controlled CNOT / CX (what the cirq / qdk writers special-case)
        qs = list(draw(st.permutations(list(range(width)))))
        nc = draw(st.integers(2, min(3, width - 1)))
        return {"n": draw(st.sampled_from(["CNOT", "CNOT", "CX"])), "t": [qs[0]], "c": qs[1:1 + nc], "p": None}
    g = draw(S.gate_recs(width, angle=ANG))
    if g["p"] is not None:
        r = draw(st.integers(0, 5))
        if symbolic and g["n"] != "XX" and r <= 3:
            g["p"] = draw(st.sampled_from(["theta", "phi", "a0", "a1"]))
            g["v"] = True
        elif r <= vrate:
            g["v"] = True
    return g


MERGEABLE = ("RX", "RY", "RZ", "PHASE", "CRX", "CRY", "CRZ", "CPHASE")


def numeric_rot(g):
    return g["n"] in MERGEABLE and g["p"] is not None and not isinstance(g["p"], str)


@st.composite
def with_runs(draw, gates, max_gates):
    """Follow some numeric rotations by 1-2 more rotations with the same name/target/control and independently drawn
    variational flags (fixed->variational, variational->fixed, three in a row; int and float parameters)."""
    out = []
    for g in gates:
        out.append(g)
        if numeric_rot(g) and draw(st.integers(0, 2)) == 0:
            for _ in range(draw(st.integers(1, 2))):
                h = {"n": g["n"], "t": list(g["t"]), "c": list(g["c"]) if g["c"] else None, "p": draw(ANG)}
                if draw(st.booleans()):
                    h["v"] = True
                out.append(h)
    return out[:max_gates]


@st.composite
def circ11(draw, max_width=5, max_gates=8, allow_fixed=True):
    width = draw(st.integers(1, max_width))
    symbolic = draw(st.integers(0, 4)) == 0
    measure = draw(st.integers(0, 2)) == 0
    vrate = draw(st.sampled_from([-1, -1, 0, 1, 3]))      # -1: no variational gate except inside the inserted runs
    gates = draw(st.lists(gate11(width, symbolic, measure, vrate), min_size=0, max_size=max_gates))
    gates = draw(with_runs(gates, max_gates + 2))
    used = 1 + max([max(gq(g)) for g in gates], default=-1)
    k = draw(st.integers(0, 5))
    nq = None if (k <= 2 or (k > 3 and not allow_fixed)) else (0 if k == 3 else draw(st.integers(max(used, 1), max(used, 1) + 2)))
    return {"gates": gates, "nq": nq}


IDX = st.integers(0, MAX_POOL - 1)
THR = st.sampled_from([0, 1e-6, 1e-3, 0.1, 1.0])
FORM = st.sampled_from(["fn", "method"])


MERGE_FOCUS = ("add_like", "add_like", "merge", "merge", "merge", "small", "copy", "depth", "set_param", "trim", "add_gate", "show")


def op11(max_width=5, formats=None, backends=None, focus=None):
    fd = st.fixed_dictionaries
    formats = formats or FORMATS
    main_formats = [f for f in ("cirq", "sympy", "qdk") if f in formats] or formats
    backends = backends or ["cirq", "cirq", "cirq", "sympy"]
    alts = [
        ("add_gate", fd({"op": st.just("add_gate"), "i": IDX, "g": gate11(max_width)})),
        ("add_gate", fd({"op": st.just("add_gate"), "i": IDX, "g": gate11(max_width, symbolic=True)})),
        ("add_like", fd({"op": st.just("add_like"), "i": IDX, "p": ANG, "v": st.booleans()})),
        ("add_like", fd({"op": st.just("add_like"), "i": IDX, "p": ANG, "v": st.booleans()})),
        ("add", fd({"op": st.just("add"), "i": IDX, "j": IDX})),
        ("mul", fd({"op": st.just("mul"), "i": IDX, "k": st.sampled_from([1, 2, 2, 3, 0, -1]), "side": st.sampled_from(["l", "r"])})),
        ("copy", fd({"op": st.just("copy"), "i": IDX})),
        ("inverse", fd({"op": st.just("inverse"), "i": IDX})),
        ("trim", fd({"op": st.just("trim"), "i": IDX})),
        ("reindex", fd({"op": st.just("reindex"), "i": IDX, "perm": st.permutations(list(range(8))), "extra": st.sampled_from([0, 0, 0, 1, 2]),
            "badlen": st.sampled_from([0, 0, 0, 0, 1, -1])})),
        ("split", fd({"op": st.just("split"), "i": IDX, "trim": st.booleans()})),
        ("stack", fd({"op": st.just("stack"), "i": IDX, "js": st.lists(IDX, min_size=0, max_size=2), "form": FORM})),
        ("small", fd({"op": st.just("small"), "i": IDX, "form": FORM, "thr": THR, "rq": st.booleans()})),
        ("merge", fd({"op": st.just("merge"), "i": IDX, "form": FORM})),
        ("redundant", fd({"op": st.just("redundant"), "i": IDX, "form": FORM, "rq": st.booleans()})),
        ("simplify", fd({"op": st.just("simplify"), "i": IDX, "form": FORM, "thr": THR, "rq": st.booleans()})),
        ("depth", fd({"op": st.just("depth"), "i": IDX})),
        ("show", fd({"op": st.just("show"), "i": IDX})),
        ("translate", fd({"op": st.just("translate"), "i": IDX, "fmt": st.sampled_from(formats)})),
        ("translate", fd({"op": st.just("translate"), "i": IDX, "fmt": st.sampled_from(main_formats)})),
        ("simulate", fd({"op": st.just("simulate"), "i": IDX, "backend": st.sampled_from(backends)})),
        ("set_param", fd({"op": st.just("set_param"), "i": IDX, "k": st.integers(0, 5), "val": st.one_of(st.floats(-7, 7, allow_nan=False), st.just("beta"))})),
    ]
    if focus:
        # one alternative per occurrence of the name in `focus` (repeats = weight)
        byname = {}
        for nm, a in alts:
            byname.setdefault(nm, a)
        return st.one_of(*[byname[n] for n in focus])
    return st.one_of(*[a for _, a in alts])


@st.composite
def histories(draw, max_ops, formats=None, backends=None, allow_fixed=True, focus=None):
    pool = draw(st.lists(circ11(allow_fixed=allow_fixed), min_size=1, max_size=3))
    n_ops = draw(st.integers(4, max_ops))        # drawn explicitly: plain st.lists is heavily biased towards short lists
    ops = draw(st.lists(op11(formats=formats, backends=backends, focus=focus), min_size=n_ops, max_size=n_ops))
    return {"pool": pool, "ops": ops}


# ------------------------------------------------------------------------------------------------ reference model

class Reject(Exception):
    """The model says the operation must be refused."""


def gq(g):
    return list(g["t"]) + list(g["c"] or [])


def norm(g):
    return {"n": g["n"], "t": list(g["t"]), "c": list(g["c"]) if g.get("c") else None, "p": g.get("p"), "v": bool(g.get("v", False))}


def key(g):
    p = g["p"]
    return (g["n"], tuple(g["t"]), tuple(g["c"]) if g["c"] else None, repr(p), type(p).__name__, bool(g["v"]))


def obj_recs(c):
    out = []
    for g in list(c):
        p = g.parameter
        out.append({"n": g.name, "t": list(g.target), "c": list(g.control) if g.control is not None else None,
                    "p": None if (isinstance(p, str) and p == "") else p, "v": g.is_variational})
    return out


def m_width(m):
    return max(m["tracked"]) + 1 if m["tracked"] else 0


def m_add_gate(m, g):
    qs = gq(g)
    if m["nq"] and any(q >= m["nq"] for q in qs):
        raise Reject("index beyond fixed width")
    m["gates"].append(norm(g))
    m["tracked"] |= set(qs)


def m_new(gates, nq):
    m = {"gates": [], "nq": nq, "tracked": set(range(nq)) if nq else set()}
    for g in gates:
        m_add_gate(m, g)
    return m


def m_copy(m):
    return {"gates": [norm(g) for g in m["gates"]], "nq": m["nq"], "tracked": set(m["tracked"])}


def m_add(a, b):
    nq = max(m_width(a), m_width(b)) if (a["nq"] or b["nq"]) else None
    return m_new(a["gates"] + b["gates"], nq)


def g_inverse(g):
    if g["n"] not in INVERTIBLE:
        raise Reject("not invertible")
    h = norm(g)
    if g["n"] in ("S", "T"):
        h["n"], h["p"] = "PHASE", (-pi / 2 if g["n"] == "S" else -pi / 4)
        return h
    if g["p"] is None:
        return h
    if isinstance(g["p"], str):
        raise Reject("string parameter")
    h["p"] = -g["p"]
    return h


def m_remap(m, mapping):
    for g in m["gates"]:
        g["t"] = [mapping[q] for q in g["t"]]
        if g["c"]:
            g["c"] = [mapping[q] for q in g["c"]]


def m_trim(m):
    used = sorted({q for g in m["gates"] for q in gq(g)})
    m_remap(m, {q: i for i, q in enumerate(used)})
    m["tracked"] = set(range(len(used)))


def m_reindex(m, new):
    tracked = sorted(m["tracked"])
    if len(new) != len(tracked):
        raise Reject("length mismatch")
    m_remap(m, {q: new[i] for i, q in enumerate(tracked)})
    m["tracked"] = set(new)


def components(gates):
    parent = {}

    def find(a):
        while parent[a] != a:
            parent[a] = parent[parent[a]]
            a = parent[a]
        return a
    for g in gates:
        qs = gq(g)
        for q in qs:
            parent.setdefault(q, q)
        for q in qs[1:]:
            parent[find(q)] = find(qs[0])
    comps = {}
    for q in parent:
        comps.setdefault(find(q), []).append(q)
    return sorted(sorted(v) for v in comps.values())


def has_str(m):
    return any(isinstance(g["p"], str) for g in m["gates"])


def has_meas(m):
    return any(g["n"] in ("MEASURE", "CMEASURE") for g in m["gates"])


def ref_depth(gates):
    last, d = {}, 0
    for g in gates:
        lvl = 1 + max([last.get(q, 0) for q in gq(g)])
        for q in gq(g):
            last[q] = lvl
        d = max(d, lvl)
    return d


# ------------------------------------------------------------------------------------------------ invariant

def check_circuit(c, m, opname, role, step):
    """All metadata of object c against values recomputed from list(c), and list(c) against the model m."""
    recs = obj_recs(c)
    where = f"step {step} ({opname}), {role}"
    if [key(g) for g in recs] != [key(g) for g in m["gates"]]:
        diff = [(i, a, b) for i, (a, b) in enumerate(zip([key(g) for g in m["gates"]], [key(g) for g in recs])) if a != b][:3]
        raise Fail(f"{where}: gate list differs from the reference model (len {len(recs)} vs model {len(m['gates'])}); first "
                   f"differences (index, model, object): {diff}", sig=f"{opname}:{role}:gates-changed")
    names = Counter(g["n"] for g in recs)
    nq = Counter(len(gq(g)) for g in recs)
    used = 1 + max([max(gq(g)) for g in recs], default=-1)
    checks = [("size", c.size, len(recs)), ("counts", dict(c.counts), dict(names)), ("counts_n_qubit", dict(c.counts_n_qubit), dict(nq)),
              ("is_variational", bool(c.is_variational), any(g["v"] for g in recs)),
              ("is_mixed_state", bool(c.is_mixed_state), any(g["n"] in ("MEASURE", "CMEASURE") for g in recs)),
              ("depth", c.depth(), ref_depth(recs))]
    for nm, got, exp in checks:
        if got != exp:
            raise Fail(f"{where}: {nm} = {got!r} but the current gate list gives {exp!r}; gates={recs}", sig=f"{opname}:{role}:meta-{nm}")
    n_var = sum(1 for g in recs if g["v"])
    if len(c._variational_gates) != n_var or any(vg is not g for vg, g in zip(c._variational_gates, [g for g in list(c) if g.is_variational])):
        raise Fail(f"{where}: _variational_gates does not list the {n_var} variational gate objects of the circuit in order",
                   sig=f"{opname}:{role}:meta-variational_gates")
    if c.width < used:
        raise Fail(f"{where}: width {c.width} < max index + 1 = {used}", sig=f"{opname}:{role}:meta-width-too-small")
    if c.width != m_width(m):
        raise Fail(f"{where}: width {c.width}, reference model {m_width(m)} (declared n_qubits {m['nq']}, gates {recs})",
                   sig=f"{opname}:{role}:meta-width")


# ------------------------------------------------------------------------------------------------ interpreter

INPLACE = {"add_gate", "add_like", "trim", "reindex", "small_method", "merge_method", "redundant_method", "simplify_method", "set_param"}


def run_history(case, ctx):
    import tangelo.linq.circuit as TC
    from tangelo.linq import Circuit, translate_circuit, get_backend, stack as stack_fn

    pool = []          # list of [object, model]
    labels = set()
    executed = []

    known = set()

    def check_all(opname, operands):
        ids = {id(o) for o in operands}
        for c, m in pool:
            role = "operand" if id(c) in ids else ("bystander" if id(c) in known else "result")
            check_circuit(c, m, opname, role, len(executed))
        known.update(id(c) for c, _ in pool)

    def push(c, m):
        pool.append([c, m])
        if len(pool) > MAX_POOL:
            pool.pop(0)

    for x in case["pool"]:
        m = m_new(x["gates"], x["nq"])
        pool.append([S.build_circuit(x), m])
    check_all("constructor", [c for c, _ in pool])

    for op in case["ops"]:
        name = op["op"]
        i = op["i"] % len(pool)
        c, m = pool[i]
        operands = [c]
        opname = name

        def expect_refusal(fn, exc, why):
            try:
                fn()
            except exc:
                labels.add(f"refused:{opname}:{why}")
                return
            raise Fail(f"{opname}: expected {exc.__name__ if isinstance(exc, type) else exc} ({why}) but the call succeeded",
                       sig=f"{opname}:not-rejected:{why}")

        if name == "add_gate":
            g = op["g"]
            G = S.build_gate(g)
            try:
                mm = m_copy(m)
                m_add_gate(mm, g)
            except Reject:
                opname = "add_gate_out_of_range"
                expect_refusal(lambda: c.add_gate(G), ValueError, "out-of-range")
            else:
                if len(mm["gates"]) > MAX_SIZE:
                    labels.add("skipped:too-big")
                    continue
                c.add_gate(G)
                pool[i][1] = mm

        elif name == "add_like":
            # one more rotation on exactly the qubits of the circuit's latest numeric rotation (builds mergeable runs)
            last = next((g for g in reversed(m["gates"]) if numeric_rot(g)), None)
            if last is None or len(m["gates"]) >= MAX_SIZE:
                labels.add("skipped:add_like")
                continue
            g = {"n": last["n"], "t": list(last["t"]), "c": list(last["c"]) if last["c"] else None, "p": op["p"], "v": op["v"]}
            c.add_gate(S.build_gate(g))
            m_add_gate(m, g)

        elif name == "add":
            j = op["j"] % len(pool)
            operands.append(pool[j][0])
            if len(m["gates"]) + len(pool[j][1]["gates"]) > MAX_SIZE:
                labels.add("skipped:too-big")
                continue
            mm = m_add(m, pool[j][1])
            push(c + pool[j][0], mm)

        elif name == "mul":
            k = op["k"]
            if k <= 0:
                opname = "mul_nonpositive"
                expect_refusal(lambda: (c * k) if op["side"] == "l" else (k * c), ValueError, "k<=0")
            else:
                if len(m["gates"]) * k > MAX_SIZE:
                    labels.add("skipped:too-big")
                    continue
                mm = m_new(m["gates"] * k, m["nq"])
                push((c * k) if op["side"] == "l" else (k * c), mm)

        elif name == "copy":
            push(c.copy(), m_new(m["gates"], m["nq"]))

        elif name == "inverse":
            try:
                inv = [g_inverse(g) for g in reversed(m["gates"])]
            except Reject as r:
                opname = "inverse_refused"
                expect_refusal(lambda: c.inverse(), AttributeError, str(r))
            else:
                push(c.inverse(), m_new(inv, m["nq"]))

        elif name == "trim":
            ret = c.trim_qubits()
            if ret is not c:
                raise Fail("trim_qubits does not return the circuit itself", sig="trim:return")
            m_trim(m)

        elif name == "reindex":
            L = len(m["tracked"])
            if m["nq"]:
                new = [q for q in op["perm"] if q < L]            # permutation of range(N) (documented: new_index < N)
            else:
                new = [q for q in op["perm"] if q < min(L + op["extra"], 8)][:L]    # indices stay < 8 (see ASSUMPTIONS)
            if op["badlen"] == 1:
                new = new + [max(new, default=-1) + 1]
            elif op["badlen"] == -1 and new:
                new = new[:-1]
            try:
                mm = m_copy(m)
                m_reindex(mm, new)
            except Reject:
                opname = "reindex_wrong_length"
                expect_refusal(lambda: c.reindex_qubits(list(new)), ValueError, "length")
            else:
                c.reindex_qubits(list(new))
                pool[i][1] = mm

        elif name == "split":
            parts = c.split(trim_qubits=op["trim"])
            comps = components(m["gates"])
            if len(parts) != len(comps):
                raise Fail(f"split returned {len(parts)} circuits for {len(comps)} unentangled parts", sig="split:count")
            models = []
            for comp in comps:
                sub = [norm(g) for g in m["gates"] if set(gq(g)) <= set(comp)]
                mm = m_new(sub, None)
                if op["trim"]:
                    m_trim(mm)
                models.append(mm)
            for p in parts:
                ks = [key(g) for g in obj_recs(p)]
                hit = next((mm for mm in models if [key(g) for g in mm["gates"]] == ks), None)
                if hit is None:
                    raise Fail(f"split(trim_qubits={op['trim']}): returned part {obj_recs(p)} is none of the expected parts "
                               f"{[mm['gates'] for mm in models]}", sig="split:part-mismatch")
                models.remove(hit)
                push(p, hit)

        elif name == "stack":
            js = [j % len(pool) for j in op["js"]]
            cs, ms = [c] + [pool[j][0] for j in js], [m] + [pool[j][1] for j in js]
            if sum(len(x["gates"]) for x in ms) > MAX_SIZE or sum(len({q for g in x["gates"] for q in gq(g)}) for x in ms) > 7:
                labels.add("skipped:too-big")
                continue
            operands = cs
            opname = f"stack_{op['form']}"
            out = stack_fn(*cs) if op["form"] == "fn" else cs[0].stack(*cs[1:])
            tm = []
            for x in ms:
                y = m_copy(x)
                m_trim(y)
                tm.append(y)
            r = tm[0]
            for y in tm[1:]:
                w = m_width(r)
                z = m_copy(y)
                m_reindex(z, list(range(w, w + m_width(y))))
                r = m_add(r, z)
            push(out, r)

        elif name in ("small", "merge", "redundant", "simplify"):
            form = op["form"]
            opname = f"{name}_{form}"
            if has_str(m) or (name in ("redundant", "simplify") and has_meas(m)):
                labels.add(f"skipped:inapplicable:{name}")
                continue
            what = {"small": "remove_small_rotations", "merge": "merge_rotations", "redundant": "remove_redundant_gates", "simplify": "simplify"}[name]
            kw = {}
            if "thr" in op:
                kw["param_threshold"] = op["thr"]
            if "rq" in op:
                kw["remove_qubits"] = op["rq"]
            old_w = m_width(m)
            if name in ("merge", "simplify"):
                mg = m["gates"]
                for a, b in zip(mg, mg[1:]):
                    if numeric_rot(a) and numeric_rot(b) and (a["n"], a["t"], a["c"]) == (b["n"], b["t"], b["c"]) and a["v"] != b["v"]:
                        labels.add(f"{name}:run-" + ("variational-then-fixed" if a["v"] else "fixed-then-variational"))
                        if sum(1 for g in mg if g["v"]) == 1:
                            labels.add(f"{name}:run-with-the-only-variational-gate")
            if form == "fn":
                out = getattr(TC, what)(c, **kw)
            else:
                if getattr(c, what)(**kw) is not None:
                    labels.add("method-returns-value")
                out = c
            new_gates = obj_recs(out)
            if len(new_gates) > len(m["gates"]):
                raise Fail(f"{opname}: gate list grew", sig=f"{opname}:grew")
            # gate-level effect is C09's business: take the result's gates; width as documented
            if name in ("small", "redundant"):
                try:
                    mm = m_new(new_gates, None if op["rq"] else old_w)
                except Reject:
                    raise Fail(f"{opname}: result contains indices beyond the input width {old_w}", sig=f"{opname}:index-beyond-width")
                if op["rq"]:
                    labels.add("remove_qubits")
            else:
                mm = m_new(new_gates, None)
                mm["nq"], mm["tracked"] = out._qubits_simulated, set(out._qubit_indices)     # width after merge/simplify: undocumented
                labels.add("width-resynced")
            if form == "fn":
                push(out, mm)                    # the input must be untouched: its model is unchanged
            else:
                pool[i][1] = mm

        elif name == "depth":
            c.depth()

        elif name == "show":
            str(c), c.serialize(), list(c), c.counts, c.counts_n_qubit, c.applied_gates, c.success_probabilities

        elif name == "translate":
            fmt = op["fmt"]
            opname = f"translate_{fmt}"
            if has_str(m) and fmt != "sympy":
                labels.add("skipped:inapplicable:translate-symbolic")
                continue
            try:
                translate_circuit(c, fmt)
                labels.add(f"translated:{fmt}")
            except ValueError:
                labels.add(f"refused:translate_{fmt}:unsupported-gate")
            if fmt in ("cirq", "qdk") and any(g["n"] == "CNOT" and g["c"] and len(g["c"]) > 1 for g in m["gates"]):
                labels.add(f"multi-controlled-CNOT->{fmt}")
            if fmt == "sympy" and has_str(m):
                labels.add("string-parameter->sympy")

        elif name == "simulate":
            be_name = op["backend"]
            opname = f"simulate_{be_name}"
            mixed = has_meas(m)
            if be_name == "cirq":
                if has_str(m):
                    labels.add("skipped:inapplicable:simulate-symbolic")
                    continue
                be = get_backend("cirq", n_shots=3 if mixed else None)
            else:
                if m_width(m) > 3 or len(m["gates"]) > 6:
                    labels.add("skipped:sympy-too-big")
                    continue
                be = get_backend("sympy")
            ctx.np_seed(case)
            try:
                be.simulate(c)
                labels.add(f"simulated:{be_name}" + (":mixed" if mixed else ""))
            except ValueError:
                labels.add(f"refused:simulate_{be_name}")

        elif name == "set_param":
            var = [g for g in m["gates"] if g["v"]]
            if not var:
                labels.add("skipped:no-variational-gate")
                continue
            k = op["k"] % len(var)
            if len(c._variational_gates) != len(var):
                raise Fail(f"_variational_gates has {len(c._variational_gates)} entries, the circuit has {len(var)} variational gates",
                           sig="set_param:variational_gates-length")
            c._variational_gates[k].parameter = op["val"]
            var[k]["p"] = op["val"]

        else:
            raise AssertionError(name)

        executed.append(opname)
        check_all(opname, operands)

    # non-trivial: >=4 executed steps, an in-place rewrite followed later by a read-only operation
    first_inplace = next((k for k, o in enumerate(executed) if o in INPLACE or o.endswith("_method")), None)
    nontrivial = len(executed) >= 4 and first_inplace is not None and any(
        not (o in INPLACE or o.endswith("_method")) for o in executed[first_inplace + 1:])
    labels |= {f"op:{o}" for o in executed}
    if any(x["nq"] == 0 for x in case["pool"]):
        labels.add("n_qubits=0")
    if any(x["nq"] for x in case["pool"]):
        labels.add("fixed-width")
    labels.add(f"steps>={min(len(executed) // 5 * 5, 20)}")
    return nontrivial, labels


def _all_gates(case):
    return [g for x in case["pool"] for g in x["gates"]] + [o["g"] for o in case["ops"] if o["op"] == "add_gate"]


def _uses(case, fmt):
    return any((o["op"] == "translate" and o["fmt"] == fmt) or (o["op"] == "simulate" and o["backend"] == fmt) for o in case["ops"])


def _mc_cnot(case):
    return any(g["n"] == "CNOT" and g["c"] and len(g["c"]) > 1 for g in _all_gates(case))


# predicates used only when the corresponding signature is listed as an open known finding (search continues behind it)
EXCLUSIONS = {
    "add_gate_out_of_range:operand:gates-changed": lambda case: any(x["nq"] for x in case["pool"]),
    "translate_cirq:operand:gates-changed": lambda case: _mc_cnot(case) and _uses(case, "cirq"),
    "simulate_cirq:operand:gates-changed": lambda case: _mc_cnot(case) and _uses(case, "cirq"),
    "translate_qdk:operand:gates-changed": lambda case: _mc_cnot(case) and _uses(case, "qdk"),
    "translate_sympy:operand:gates-changed": lambda case: any(isinstance(g["p"], str) for g in _all_gates(case)) and _uses(case, "sympy"),
    "simulate_sympy:operand:gates-changed": lambda case: any(isinstance(g["p"], str) for g in _all_gates(case)) and _uses(case, "sympy"),
    "merge_fn:operand:gates-changed": lambda case: any(o["op"] in ("merge", "simplify") for o in case["ops"]),
}


@part("history", quick=1200, thorough=300000)
def history_part(ctx):
    max_ops = 25 if ctx.tier == "quick" else 40
    body = lambda case: run_history(case, ctx)
    ctx.search("history", histories(max_ops), body, frac=0.45, exclusions=EXCLUSIONS)
    # runs of same-qubit rotations with mixed variational flags, merged and then inspected / written through _variational_gates
    ctx.search("history_merge", histories(max_ops, focus=MERGE_FOCUS), body, frac=0.25, exclusions=EXCLUSIONS)
    # two narrower mixes (no fixed width, one family of writers each), so that a defect on one path cannot hide the others
    ctx.search("history_sympy", histories(max_ops, formats=["sympy", "ionq", "projectq"], backends=["sympy"], allow_fixed=False),
               body, frac=0.15, exclusions=EXCLUSIONS)
    ctx.search("history_qdk", histories(max_ops, formats=["qdk", "ionq", "projectq"], backends=["sympy"], allow_fixed=False),
               body, frac=0.15, exclusions=EXCLUSIONS)


# ------------------------------------------------------------------------------------------------ index validation

ONE_T = ["H", "X", "RX", "PHASE", "CNOT", "CX", "CZ", "CRY", "CPHASE", "MEASURE"]
TWO_T = ["XX", "SWAP", "CSWAP"]
BAD_INDEX = st.one_of(st.integers(-5, -1), st.sampled_from([0.5, 1.5, -0.5, 2.5]), st.booleans(), st.sampled_from(["0", "1", "q"]), st.none())
GOOD_INDEX = st.integers(0, 6)


@st.composite
def bad_gates(draw):
    nm = draw(st.sampled_from(ONE_T + TWO_T))
    nt = 2 if nm in TWO_T else 1
    ctrl = nm[0] == "C"
    idx = list(draw(st.permutations(list(range(7)))))
    t = idx[:nt]
    c = idx[nt:nt + draw(st.integers(1, 2))] if ctrl else None
    kind = draw(st.sampled_from(["bad-target", "bad-control", "dup-target-control", "dup-targets", "dup-controls", "arity", "valid"]))
    if kind == "bad-control" and not ctrl:
        kind = "bad-target"
    if kind in ("dup-target-control", "dup-controls") and not ctrl:
        kind = "dup-targets" if nt == 2 else "arity"
    if kind == "dup-targets" and nt == 1:
        kind = "arity"
    if kind == "arity" and nm == "MEASURE":
        kind = "bad-target"          # the number of targets is only checked for the named 1-/2-target gates (documented)
    if kind == "bad-target":
        t[draw(st.integers(0, nt - 1))] = draw(BAD_INDEX)
    elif kind == "bad-control":
        c[draw(st.integers(0, len(c) - 1))] = draw(BAD_INDEX)
    elif kind == "dup-target-control":
        c[-1] = t[0]
    elif kind == "dup-targets":
        t[1] = t[0]
    elif kind == "dup-controls":
        c = [c[0], c[0]]
    elif kind == "arity":
        t = idx[:1] if nt == 2 else [idx[0], idx[-1]] + ([idx[-2]] if draw(st.booleans()) else [])
    scalar = draw(st.booleans()) and not (c and c[0] is None)
    return {"n": nm, "t": (t[0] if (scalar and len(t) == 1) else t), "c": (c[0] if (scalar and c and len(c) == 1) else c),
            "kind": kind, "via": draw(st.sampled_from(["Gate", "Gate-ndarray", "add_gate-mutated"]))}


# ---- numpy scalars / arrays as indices. Plain-data encoding: a value is a JSON scalar or {"np": dtype, "v": value}
# (complex as [re, im]); an index argument is a value, a list of values, or {"wrap": kind, "items": [values]} with
# kind in tuple / ndarray / objarray / 0d.

def _npv(dtype, values):
    return st.sampled_from(values).map(lambda v: {"np": dtype, "v": v})


NP_BAD = st.one_of(
    _npv("float64", [1.5, 0.5, -0.5, 1.2, 0.9, 2.7, -1.0]), _npv("float32", [2.5, 0.25, -2.0]), _npv("float16", [1.5]),
    _npv("bool_", [True, False]), _npv("complex128", [[1, 2], [1.5, 0], [0, 1]]), _npv("complex64", [[2, 1]]),
    _npv("str_", ["1", "q"]), _npv("int64", [-1, -3]), _npv("int8", [-2]),
    st.sampled_from([1.5, -0.5, -2, True, "1", None]))
# values the property says nothing about (integral-valued non-int types): generated, never asserted
NP_ODD = st.one_of(_npv("float64", [2.0, 0.0]), _npv("float32", [1.0]), _npv("int64", [0, 3]), _npv("uint8", [2]), _npv("complex128", [[1, 0]]),
                   st.sampled_from([1.0, 4.0]))


@st.composite
def np_index_cases(draw):
    nm = draw(st.sampled_from(ONE_T + TWO_T))
    nt = 2 if nm in TWO_T else 1
    ctrl = nm[0] == "C"
    idx = list(draw(st.permutations(list(range(7)))))
    t = idx[:nt]
    c = idx[nt:nt + draw(st.integers(1, 2))] if ctrl else None
    n_sub = draw(st.integers(1, 2))
    for _ in range(n_sub):
        val = draw(NP_BAD if draw(st.integers(0, 4)) else NP_ODD)
        if ctrl and draw(st.booleans()):
            c[draw(st.integers(0, len(c) - 1))] = val
        else:
            t[draw(st.integers(0, nt - 1))] = val

    def wrap(items):
        kind = draw(st.sampled_from(["scalar", "list", "list", "tuple", "ndarray", "objarray", "0d"]))
        if kind in ("scalar", "0d") and len(items) != 1:
            kind = "list"
        if kind == "scalar":
            return items[0] if items[0] is not None else items      # control=None would mean "no control"
        if kind == "list":
            return items
        return {"wrap": kind, "items": items}
    return {"n": nm, "t": wrap(t), "c": wrap(c) if c is not None else None, "via": draw(st.sampled_from(["Gate", "Gate", "circuit"]))}


def dec_val(x):
    if isinstance(x, dict):
        dt, v = x["np"], x["v"]
        if dt.startswith("complex"):
            return getattr(np, dt)(complex(v[0], v[1]))
        return getattr(np, dt)(v)
    return x


def dec_index(spec):
    """-> (object handed to Gate, list of the index values Gate is given once containers are opened by numpy/python)"""
    if isinstance(spec, dict) and "wrap" in spec:
        items = [dec_val(x) for x in spec["items"]]
        k = spec["wrap"]
        if k == "tuple":
            return tuple(items), items
        if k == "0d":
            a = np.array(items[0])
            return a, [a.item()]
        a = np.array(items, dtype=object) if k == "objarray" else np.array(items)
        return a, a.tolist()
    if isinstance(spec, list):
        items = [dec_val(x) for x in spec]
        return items, items
    v = dec_val(spec)
    return v, [v]


def index_class(e):
    """'good' (python int >= 0), 'bad' (the property demands rejection: negative / non-integer), 'odd' (integral-valued
    value of a non-int type: nothing stated)."""
    if isinstance(e, (bool, np.bool_)) or e is None or isinstance(e, (str, bytes)):
        return "bad"
    if isinstance(e, (int, np.integer)):
        return "bad" if e < 0 else ("good" if type(e) is int else "odd")
    if isinstance(e, (float, np.floating)):
        return "odd" if (np.isfinite(e) and float(e) == int(e) and e >= 0) else "bad"
    if isinstance(e, (complex, np.complexfloating)):
        return "odd" if (e.imag == 0 and np.isfinite(e.real) and e.real == int(e.real) and e.real >= 0) else "bad"
    return "bad"


@part("validation", quick=1600, thorough=100000)
def validation_part(ctx):
    from tangelo.linq import Gate, Circuit

    def body(case):
        kind = case["kind"]
        kw = {}
        if case["c"] is not None:
            kw["control"] = case["c"]
        if case["n"] in ROT:
            kw["parameter"] = 0.5

        def build():
            t = case["t"]
            if case["via"] == "Gate-ndarray" and isinstance(t, list) and all(type(x) is int for x in t):
                t = np.array(t)
            return Gate(case["n"], t, **kw)

        if kind == "valid":
            g = build()
            c = Circuit([g])
            check_circuit(c, m_new([S.gate_to_rec(g)], None), "validation", "operand", 0)
            return False, {"valid"}
        if case["via"] == "add_gate-mutated":
            # a well-formed gate object whose index lists were overwritten afterwards must be refused by add_gate,
            # and the circuit must stay as it was
            good = Gate(case["n"], [0, 1] if case["n"] in TWO_T else 0, **({"control": 2} if case["c"] is not None else {}),
                        **({"parameter": 0.5} if case["n"] in ROT else {}))
            good.target = case["t"] if isinstance(case["t"], list) else [case["t"]]
            if case["c"] is not None:
                good.control = case["c"] if isinstance(case["c"], list) else [case["c"]]
            c = Circuit([Gate("H", 0), Gate("CNOT", 1, control=0)])
            m = m_new([{"n": "H", "t": [0], "c": None, "p": None}, {"n": "CNOT", "t": [1], "c": [0], "p": None}], None)
            try:
                c.add_gate(good)
            except (ValueError, TypeError):
                check_circuit(c, m, "add_gate_invalid", "operand", 1)
                return True, {kind, "via-add_gate"}
            raise Fail(f"add_gate accepted a gate with {kind}: target={good.target} control={good.control}", sig=f"add_gate:accepted:{kind}")
        try:
            g = build()
        except (ValueError, TypeError):
            return True, {kind, "via-Gate"}
        raise Fail(f"Gate({case['n']!r}, {case['t']!r}, control={case['c']!r}) was accepted ({kind}): {g!r}", sig=f"gate:accepted:{kind}")

    ctx.search("bad_gate", bad_gates(), body, frac=0.4)

    def body_np(case):
        try:
            T, telems = dec_index(case["t"])
            C, celems = dec_index(case["c"]) if case["c"] is not None else (None, [])
        except (ValueError, TypeError) as e:          # raised by numpy while building the argument, not by Tangelo
            raise Skip("numpy cannot build this argument")
        classes = [index_class(e) for e in telems + celems]
        zero_d = any(isinstance(x, np.ndarray) and x.ndim == 0 for x in (T, C))
        kw = {"parameter": 0.5} if case["n"] in ROT else {}
        if C is not None:
            kw["control"] = C
        labels = {f"{type(e).__name__}" for e, k in zip(telems + celems, classes) if k != "good"}
        for spec, pos in ((case["t"], "target"), (case["c"], "control")):
            if isinstance(spec, dict) and "wrap" in spec:
                labels.add(f"{pos}-in-{spec['wrap']}")
            elif spec is not None:
                labels.add(f"{pos}-{'list' if isinstance(spec, list) else 'scalar'}")
        try:
            g = Gate(case["n"], T, **kw)
        except (ValueError, TypeError):
            return "bad" in classes, labels | {"rejected"}
        if "bad" in classes:
            raise Fail(f"Gate({case['n']!r}, {T!r}, control={C!r}) was accepted although it has a negative / non-integer index "
                       f"({[repr(e) for e, k in zip(telems + celems, classes) if k == 'bad']}): built {g!r}",
                       sig="gate:accepted:numpy-bad-index")
        if case["via"] == "circuit" and not zero_d:
            # whatever was accepted must be a well-formed gate: python-int indices, consistent circuit metadata
            if any(type(q) is not int or q < 0 for q in list(g.target) + list(g.control or [])):
                raise Fail(f"accepted gate {g!r} stores non-int indices", sig="gate:stored:non-int-index")
            c = Circuit([g], n_qubits=8)
            check_circuit(c, m_new([S.gate_to_rec(g)], 8), "validation", "operand", 0)
        return False, labels | {"accepted-unasserted" if "odd" in classes else "accepted-valid"}

    ctx.search("bad_index_numpy", np_index_cases(), body_np, frac=0.3)

    # out-of-range indices on fixed-width circuits: constructor and add_gate
    @st.composite
    def oor(draw):
        nq = draw(st.integers(1, 4))
        pre = draw(st.lists(gate11(nq, measure=False), max_size=4))
        g = draw(gate11(5, measure=False))
        qs = gq(g)
        shift = max(0, nq - max(qs))        # make at least one index >= nq
        g["t"] = [q + shift for q in g["t"]]
        g["c"] = [q + shift for q in g["c"]] if g["c"] else None
        return {"nq": nq, "pre": pre, "g": g, "pos": draw(st.integers(0, len(pre))), "via": draw(st.sampled_from(["add_gate", "constructor"]))}

    def body_oor(case):
        G = S.build_gate(case["g"])
        if case["via"] == "constructor":
            gl = [S.build_gate(x) for x in case["pre"]]
            gl.insert(case["pos"], G)
            try:
                Circuit(gl, n_qubits=case["nq"])
            except ValueError:
                return True, {"constructor-rejects"}
            raise Fail(f"Circuit(..., n_qubits={case['nq']}) accepted gate {case['g']}", sig="constructor:accepted:out-of-range")
        c = Circuit([S.build_gate(x) for x in case["pre"]], n_qubits=case["nq"])
        m = m_new(case["pre"], case["nq"])
        try:
            c.add_gate(G)
        except ValueError:
            check_circuit(c, m, "add_gate_out_of_range", "operand", 1)
            # the circuit must still be fully usable
            c.add_gate(S.build_gate({"n": "H", "t": [0], "c": None, "p": None}))
            m_add_gate(m, {"n": "H", "t": [0], "c": None, "p": None})
            check_circuit(c, m, "add_gate_after_rejection", "operand", 2)
            return True, {"add_gate-rejects", "first-index-valid" if gq(case["g"])[0] < case["nq"] else "first-index-invalid"}
        raise Fail(f"add_gate accepted {case['g']} on a circuit with n_qubits={case['nq']}", sig="add_gate:accepted:out-of-range")

    ctx.search("out_of_range", oor(), body_oor, frac=0.3)
