"""C12 - symmetry operators (N, Sz, S^2) and penalties are exact; default ansaetze conserve N and Sz.

Parts
  fermion_level  exhaustive: number/spinz/spin2 operators as Fock-space matrices on every determinant / spin eigenfunction
  encoded        exhaustive: the same through JW / BK / JKMN (encoded determinants built from the encoded creation operators)
  encoded_scbk   exhaustive: scBK for every (n_electrons, spin) sector, determinants located with get_mapped_vector
  commute        generated molecules: [O, H] = 0 at fermion level and under every encoding / ordering
  penalties      generated (operator, target, weight, ordering, encoding): matrix = mu (O - v)^2, PSD, zero on the sector; combined = sum
  ansatz         generated (configuration, theta): ||(N - n_e) psi|| and ||(Sz - s_z) psi|| vanish for the conserving ansaetze (JW)
"""
import math

import numpy as np
from hypothesis import strategies as st

from vlib.runner import part, Fail, Skip
from vlib import refsim as R, refops as O, h_c07 as H

PROPERTY = "C12"
RULE = ("(a) exhaustive sweeps over n_orbs = 1..4 (5 thorough) x ordering x encoding {jw,bk,jkmn} and, for scbk, every admissible "
        "(n_electrons, spin): all 4^n determinants (N, Sz eigenvalues) and all 4^n spin eigenfunctions of the reference S^2 matrix; "
        "(b) Hypothesis-generated molecules (H2, HeH, H3, H4 chain/ring/3-D, He2, LiH, H2O/BeH2 fragments; RHF/ROHF/UHF; frozen orbitals; <= 8 qubits): commutators "
        "with the molecular Hamiltonian at fermion level and for 4 encodings x 2 orderings; (c) generated penalty cases (operator, attainable "
        "and unattainable targets, weights incl. 0/negative in combined_penalty, both orderings, every encoding); (d) generated (ansatz "
        "configuration, short parameter history: build_circuit(theta1) with exact zeros placed per layer/step, then 1-3 update_var_params "
        "calls - same vector, same zeros with other values, zeros moved, all non-zero, free recipe - with the conservation law asserted after "
        "EVERY step) for UCCSD closed/ROHF/UHF, UpCCGSD k=1..3, UCCGD, UCC1/UCC3, pUCCD, ADAPT with the UCCGSD fermionic pool under "
        "JW in both orderings. Non-trivial: n_orbs >= 2 (a, c); >= 2 active orbitals (b); some vector of the history with >= 2 non-zero entries (d). Distinct = "
        "distinct canonical JSON of the case. Only part (a) is exhaustive (within its bound); (b)-(d) are sampled.")
ASSUMPTIONS = ["numpy/scipy linear algebra", "Fock-space ladder matrices and N/Sz/S^2 reference operators of vlib/refops.py (self-tested: CAR, S(S+1) spectrum)",
               "encoded determinant |x> := prod_p enc(a_p^dagger)^{x_p} |0..0> built from Tangelo's own encoding of single creation operators "
               "(faithfulness of the encodings is C03's subject); for scBK, determinants are located with get_mapped_vector (C05's subject) and the "
               "S^2 block is compared up to the sign of each basis vector (entrywise moduli + per-sector spectrum)",
               "molecules come from vlib/h_mol.py (PySCF SCF trusted); ansatz circuits are simulated by vlib/refsim.py",
               "tolerances: 1e-9 relative to the operator scale for matrix identities, 1e-8 for ansatz leakage norms"]
SHARDS = {"quick": 4, "thorough": 16}
EXHAUSTIVE = False

QTOL = 1e-6
TOL = 1e-9


# ------------------------------------------------------------------------------------------------ small reference helpers

def qop_dense(terms, n):
    """Dense matrix of a Pauli sum {((q,'X'),...): c} with qubit 0 = most significant bit, O(#terms * 2^n)."""
    dim = 2 ** n
    M = np.zeros((dim, dim), dtype=complex)
    idx = np.arange(dim)
    for term, c in terms.items():
        xm = zm = ny = 0
        for q, p in term:
            if q >= n:
                raise Fail(f"Pauli term {term} acts on qubit {q} outside the {n}-qubit register", sig="encoded-operator-too-wide")
            b = 1 << (n - 1 - q)
            if p in "XY":
                xm |= b
            if p in "ZY":
                zm |= b
            if p == "Y":
                ny += 1
        par = idx & zm
        cnt = np.zeros(dim, dtype=np.int64)
        while par.any():
            cnt += par & 1
            par = par >> 1
        M[idx ^ xm, idx] += c * (1j ** ny) * np.where(cnt % 2 == 0, 1.0, -1.0)
    return M


def det_tables(m, utd):
    """popcount and (n_alpha - n_beta)/2 of every determinant index (mode 0 = most significant bit)."""
    pop = np.zeros(2 ** m)
    sz = np.zeros(2 ** m)
    for x in range(2 ** m):
        bits = O.bits_of(x, m)
        pop[x] = sum(bits)
        al = sum(bits[: m // 2]) if utd else sum(bits[0::2])
        sz[x] = (al - (pop[x] - al)) / 2
    return pop, sz


def occupation(x, m):
    return np.array(O.bits_of(x, m), dtype=int)


_ref_cache = {}


def ref_ops(m, utd):
    key = (m, utd)
    if key not in _ref_cache:
        _ref_cache[key] = (O.number_op(m).toarray(), O.sz_op(m, utd).toarray(), O.s2_op(m, utd).toarray())
    return _ref_cache[key]


def tangelo_ops(n, utd=False):
    from tangelo.toolboxes.ansatz_generator.fermionic_operators import number_operator, spinz_operator, spin2_operator
    return {"N": number_operator(n, up_then_down=utd), "Sz": spinz_operator(n, up_then_down=utd), "S2": spin2_operator(n, up_then_down=utd)}


def fock(op, m):
    return O.fermion_matrix(dict(op.terms), m)


def maxabs(A):
    return float(np.max(np.abs(A))) if A.size else 0.0


def selftest():
    R.selftest()
    O.selftest()
    terms = {((0, "X"), (2, "Y")): 0.3 - 0.2j, ((1, "Z"),): 1.1, (): -0.4, ((0, "Y"), (1, "Y"), (2, "Z")): 0.7j}
    assert np.allclose(qop_dense(terms, 3), R.qop_matrix(terms, 3))
    for m in (2, 4):
        for utd in (False, True):
            n_, sz_, s2_ = ref_ops(m, utd)
            w = np.linalg.eigvalsh(s2_)
            s = (-1 + np.sqrt(1 + 4 * w)) / 2
            assert np.allclose(2 * s, np.round(2 * s), atol=1e-9)       # eigenvalues are S(S+1) with 2S integer
            assert maxabs(n_ @ s2_ - s2_ @ n_) < 1e-12 and maxabs(sz_ @ s2_ - s2_ @ sz_) < 1e-12
    pop, sz = det_tables(4, False)
    assert pop[0b1010] == 2 and sz[0b1010] == 1 and sz[0b1001] == 0
    pop, sz = det_tables(4, True)
    assert sz[0b1100] == 1 and sz[0b1010] == 0


# ------------------------------------------------------------------------------------------------ (a) fermion level

@part("fermion_level", quick=8, thorough=10)
def fermion_level(ctx):
    nmax = 4 if ctx.tier == "quick" else 5
    items = [{"n": n, "utd": utd} for n in range(1, nmax + 1) for utd in (False, True)]

    def body(case):
        n, utd = case["n"], case["utd"]
        m = 2 * n
        ops = tangelo_ops(n, utd)
        pop, sz = det_tables(m, utd)
        n_ref, sz_ref, s2_ref = ref_ops(m, utd)
        for name, diag in (("N", pop), ("Sz", sz)):
            M = fock(ops[name], m)
            d = maxabs(M - np.diag(diag))
            if d > 1e-12:
                x = int(np.argmax(np.max(np.abs(M - np.diag(diag)), axis=0)))
                raise Fail(f"{name}(n_orbs={n}, up_then_down={utd}) on determinant {O.bits_of(x, m)}: deviates from eigenvalue {diag[x]} by {d}",
                           sig=f"fermion:{name}:determinant-eigenvalue")
        M = fock(ops["S2"], m)
        d = maxabs(M - s2_ref)
        if d > 1e-12:
            raise Fail(f"spin2_operator(n_orbs={n}, up_then_down={utd}) differs from Sz^2 + Sz + S-S+ by {d}", sig="fermion:S2:matrix")
        w, V = np.linalg.eigh(s2_ref)
        r = maxabs(M @ V - V * w[None, :])
        if r > 1e-9:
            raise Fail(f"spin2_operator(n_orbs={n}, up_then_down={utd}): residual {r} on a spin eigenfunction", sig="fermion:S2:eigenfunction")
        ctx.rec.count("fermion_level:determinants", 2 ** m)
        ctx.rec.count("fermion_level:spin_eigenfunctions", 2 ** m)
        return n >= 2, {f"n_orbs={n}", f"utd={utd}", "S-values:" + ",".join(sorted({f"{(-1 + math.sqrt(1 + 4 * max(x, 0))) / 2:.1f}" for x in w}))}

    ctx.sweep("fermion_level", items, body)


# ------------------------------------------------------------------------------------------------ (a) encoded JW/BK/JKMN

def encoded_determinants(enc, m, utd):
    """Columns: |x>_enc = prod_{p ascending, a_0^dagger leftmost} enc(a_p^dagger)^{x_p} |0..0> for every determinant x."""
    from tangelo.toolboxes.operators import FermionOperator
    from tangelo.toolboxes.qubit_mappings.mapping_transform import fermion_to_qubit_mapping
    E = []
    for p in range(m):
        q = fermion_to_qubit_mapping(FermionOperator(((p, 1),), 1.0), enc, n_spinorbitals=m, up_then_down=utd)
        E.append(qop_dense(dict(q.terms), m))
    D = np.zeros((2 ** m, 2 ** m), dtype=complex)
    D[0, 0] = 1.0
    for x in range(1, 2 ** m):
        p0 = O.bits_of(x, m).index(1)                 # lowest occupied mode: |x> = a_p0^dagger |x without p0>
        D[:, x] = E[p0] @ D[:, x ^ (1 << (m - 1 - p0))]
    return D


def map_op(op, enc, m, utd, n_e=None, spin=None):
    from tangelo.toolboxes.qubit_mappings.mapping_transform import fermion_to_qubit_mapping
    kw = {} if spin is None else {"spin": spin}
    return fermion_to_qubit_mapping(op, enc, n_spinorbitals=m, n_electrons=n_e, up_then_down=utd, **kw)


@part("encoded", quick=24, thorough=30)
def encoded(ctx):
    nmax = 4 if ctx.tier == "quick" else 5
    items = [{"n": n, "enc": enc, "utd": utd} for n in range(1, nmax + 1) for enc in ("jw", "bk", "jkmn") for utd in (False, True)]

    def body(case):
        from tangelo.toolboxes.qubit_mappings.statevector_mapping import get_mapped_vector
        n, enc, utd = case["n"], case["enc"], case["utd"]
        m = 2 * n
        D = encoded_determinants(enc, m, utd)
        if maxabs(D.conj().T @ D - np.eye(2 ** m)) > 1e-10:
            raise Fail(f"{enc} (up_then_down={utd}, {m} modes): encoded determinants are not orthonormal", sig=f"encoded:{enc}:determinants-not-orthonormal")
        ops = tangelo_ops(n)                          # default ordering; the mapping does the re-ordering (as the docstrings advise)
        refs = dict(zip(("N", "Sz", "S2"), ref_ops(m, False)))
        pop, sz = det_tables(m, False)
        for name in ("N", "Sz", "S2"):
            Q = qop_dense(dict(map_op(ops[name], enc, m, utd).terms), m)
            r = maxabs(Q @ D - D @ refs[name])
            if r > TOL:
                x = int(np.argmax(np.max(np.abs(Q @ D - D @ refs[name]), axis=0)))
                raise Fail(f"{enc} up_then_down={utd} n_orbs={n}: encoded {name} does not act on encoded determinants/eigenfunctions as the "
                           f"Fock-space operator (residual {r}, worst column = determinant {O.bits_of(x, m)})", sig=f"encoded:{enc}:{name}")
            if name != "S2":
                diag = pop if name == "N" else sz
                for x in range(2 ** m):
                    b = O.index_of(get_mapped_vector(occupation(x, m), enc, up_then_down=utd).astype(int))
                    col = Q[:, b].copy()
                    col[b] -= diag[x]
                    if maxabs(col) > TOL:
                        raise Fail(f"{enc} up_then_down={utd}: encoded {name} on get_mapped_vector({O.bits_of(x, m)}) is not eigenvalue {diag[x]}",
                                   sig=f"encoded:{enc}:{name}:mapped-vector")
        ctx.rec.count(f"encoded:{enc}:determinants", 2 ** m)
        ctx.rec.count(f"encoded:{enc}:spin_eigenfunctions", 2 ** m)
        return n >= 2, {f"n_orbs={n}", enc, f"utd={utd}"}

    ctx.sweep("encoded", items, body)


# ------------------------------------------------------------------------------------------------ (a) scBK

def scbk_sectors(n):
    out = []
    for ne in range(1, 2 * n):
        for spin in range(-ne, ne + 1):
            if (ne + spin) % 2:
                continue
            na, nb = (ne + spin) // 2, (ne - spin) // 2
            if 0 <= na <= n and 0 <= nb <= n:
                out.append((ne, spin))
    return out


def scbk_layout(m, ne, spin, utd):
    """Determinants x (interleaved labels) representable in the scBK register for (ne, spin) and their basis index b(x)."""
    from tangelo.toolboxes.qubit_mappings.statevector_mapping import get_mapped_vector
    na = (ne + spin) // 2
    xs, bs = [], []
    for x in range(2 ** m):
        bits = O.bits_of(x, m)
        if sum(bits) % 2 == ne % 2 and sum(bits[0::2]) % 2 == na % 2:
            xs.append(x)
            bs.append(O.index_of(get_mapped_vector(occupation(x, m), "scbk", up_then_down=utd).astype(int)))
    return xs, bs


def check_scbk_operator(name, Q, ref, xs, bs, pop, sz, what):
    """Q: dense scBK matrix; ref: Fock matrix (interleaved). N/Sz-like (diagonal ref): exact diagonal. Otherwise moduli + block spectra."""
    sub = ref[np.ix_(xs, xs)]
    perm = np.array(bs)
    Qp = Q[np.ix_(perm, perm)]                        # rows/cols now ordered like xs
    scale = max(1.0, maxabs(sub))
    if maxabs(sub - np.diag(np.diag(sub))) < 1e-14:
        d = maxabs(Qp - sub)
        if d > TOL * scale:
            i = int(np.argmax(np.max(np.abs(Qp - sub), axis=0)))
            raise Fail(f"{what}: {name} on determinant {O.bits_of(xs[i], int(math.log2(len(ref))))} deviates by {d}", sig=f"encoded:scbk:{name}")
        return
    d = maxabs(np.abs(Qp) - np.abs(sub))
    if d > TOL * scale:
        raise Fail(f"{what}: |matrix elements| of {name} differ from the Fock-space operator by {d}", sig=f"encoded:scbk:{name}:moduli")
    keys = {}
    for i, x in enumerate(xs):
        keys.setdefault((pop[x], sz[x]), []).append(i)
    for key, ii in keys.items():
        a = np.linalg.eigvalsh((Qp[np.ix_(ii, ii)] + Qp[np.ix_(ii, ii)].conj().T) / 2)
        b = np.linalg.eigvalsh(sub[np.ix_(ii, ii)])
        if maxabs(a - b) > 1e-8 * scale:
            raise Fail(f"{what}: spectrum of {name} in the (N, Sz) = {key} block differs from the Fock-space block by {maxabs(a - b)}",
                       sig=f"encoded:scbk:{name}:block-spectrum")


@part("encoded_scbk", quick=40, thorough=80)
def encoded_scbk(ctx):
    nmax = 4 if ctx.tier == "quick" else 5
    items = [{"n": n, "ne": ne, "spin": spin, "utd": utd} for n in range(2, nmax + 1) for (ne, spin) in scbk_sectors(n) for utd in (False, True)]

    def body(case):
        n, ne, spin, utd = case["n"], case["ne"], case["spin"], case["utd"]
        m, q = 2 * n, 2 * n - 2
        xs, bs = scbk_layout(m, ne, spin, utd)
        if sorted(bs) != list(range(2 ** q)):
            raise Fail(f"scbk n_orbs={n} (ne={ne}, spin={spin}, up_then_down={utd}): get_mapped_vector is not a bijection from the parity sector "
                       f"onto the {q}-qubit basis", sig="encoded:scbk:vector-map-not-bijective")
        ops = tangelo_ops(n)
        refs = dict(zip(("N", "Sz", "S2"), ref_ops(m, False)))
        pop, sz = det_tables(m, False)
        for name in ("N", "Sz", "S2"):
            Q = qop_dense(dict(map_op(ops[name], "scbk", m, utd, n_e=ne, spin=spin).terms), q)
            check_scbk_operator(name, Q, refs[name], xs, bs, pop, sz, f"scbk n_orbs={n} ne={ne} spin={spin} up_then_down={utd}")
        ctx.rec.count("encoded_scbk:determinants", len(xs))
        return True, {f"n_orbs={n}", f"utd={utd}", "odd-electrons" if ne % 2 else "even-electrons", "negative-spin" if spin < 0 else "spin>=0"}

    ctx.sweep("encoded_scbk", items, body)


# ------------------------------------------------------------------------------------------------ (b) commutation with molecular Hamiltonians

@part("commute", quick=28, thorough=3000)
def commute(ctx):
    from vlib import h_mol

    def body(case):
        with H.quiet():
            mol = h_mol.build_molecule(case)          # raises Skip for Tangelo's documented rejections
        m = mol.n_active_sos
        if m > 8 or m < 2 or m % 2:
            raise Skip("register size outside 2..8")
        n = m // 2
        ne, spin = mol.n_active_electrons, mol.active_spin
        with H.quiet():
            hf = mol.fermionic_hamiltonian
        ops = tangelo_ops(n)
        names = ("N", "Sz") if case["uhf"] else ("N", "Sz", "S2")
        Hm = O.fermion_matrix(dict(hf.terms), m, dense=False)
        hscale = max(1.0, float(abs(Hm).max()))
        for name in names:
            Om = O.fermion_matrix(dict(ops[name].terms), m, dense=False)
            c = Om @ Hm - Hm @ Om
            d = float(abs(c).max()) if c.nnz else 0.0
            if d > TOL * hscale:
                raise Fail(f"[{name}, H] != 0 at fermion level (max {d}) for {case['family']} q={case['q']} spin={case['spin']} frozen={case['frozen']}",
                           sig=f"commute:fermion:{name}:{'uhf' if case['uhf'] else 'restricted'}")
        labels = {case["family"], "uhf" if case["uhf"] else ("rohf" if case["spin"] else "rhf"), f"qubits={m}",
                  "frozen" if case["frozen"] not in (None, 0, []) else "no-frozen"}
        for enc in ("jw", "bk", "jkmn", "scbk"):
            if enc == "scbk" and m < 4:
                continue
            q = m - 2 if enc == "scbk" else m
            for utd in (False, True):
                kw = dict(n_e=ne, spin=spin)
                QH = qop_dense(dict(map_op(hf, enc, m, utd, **kw).terms), q)
                for name in names:
                    QO = qop_dense(dict(map_op(ops[name], enc, m, utd, **kw).terms), q)
                    d = maxabs(QO @ QH - QH @ QO)
                    # qubit level: the mappings compress coefficients below openfermion's 1e-8 threshold, so a commutator
                    # residual of a few 1e-8 is truncation noise (seen in the thorough tier: 1.7e-8, 2.2e-8); a wrong
                    # operator gives O(1e-2) or more.
                    if d > QTOL * hscale:
                        raise Fail(f"[{name}, H] != 0 under {enc} up_then_down={utd} (max {d}) for {case['family']} q={case['q']} spin={case['spin']} "
                                   f"frozen={case['frozen']} uhf={case['uhf']}", sig=f"commute:{enc}:{name}")
        return n >= 2, labels

    kw = dict(max_qubits=8, max_kept=5, bases=("sto-3g", "3-21g"), invalid=False)
    ctx.search("commute_restricted", h_mol.molecules(refs=("rhf", "rohf"), **kw), body, frac=0.65)     # N, Sz and S^2
    ctx.search("commute_uhf", h_mol.molecules(refs=("uhf",), **kw), body, frac=0.35)                   # N and Sz only


# ------------------------------------------------------------------------------------------------ (c) penalties

def penalty_op(kind, n, v, mu, utd):
    from tangelo.toolboxes.ansatz_generator import penalty_terms as PT
    f = {"N": PT.number_operator_penalty, "Sz": PT.spin_operator_penalty, "S2": PT.spin2_operator_penalty}[kind]
    return f(n, v, mu=mu, up_then_down=utd)


@st.composite
def penalty_cases(draw, nmax):
    n = draw(st.integers(1, nmax))
    mus = st.one_of(st.floats(0.01, 50, allow_nan=False), st.sampled_from([1, 2, 0.5, 1.5, 10]))

    def target(kind):
        if kind == "N":
            return draw(st.one_of(st.integers(0, 2 * n), st.sampled_from([-1, 2 * n + 1, 0.5])))
        if kind == "Sz":
            return draw(st.one_of(st.integers(-n, n).map(lambda k: k / 2), st.sampled_from([0.25, n / 2 + 1])))
        return draw(st.one_of(st.integers(0, n).map(lambda k: (k / 2) * (k / 2 + 1)), st.sampled_from([1.0, 0.5, -1.0])))

    # half of the cases take their targets from one actual (n_alpha, n_beta, S = |Sz|) sector, so that they are jointly attainable
    consistent = None
    if draw(st.booleans()):
        na, nb = draw(st.integers(0, n)), draw(st.integers(0, n))
        consistent = {"N": na + nb, "Sz": (na - nb) / 2, "S2": (abs(na - nb) / 2) * (abs(na - nb) / 2 + 1)}
    free_target = target

    def target(kind):                                    # noqa: F811
        return consistent[kind] if consistent is not None else free_target(kind)

    kind = draw(st.sampled_from(["N", "Sz", "S2", "combined", "combined"]))
    case = {"n": n, "kind": kind, "op_utd": draw(st.booleans()), "enc": draw(st.sampled_from(["jw", "bk", "jkmn", "scbk"])),
            "map_utd": draw(st.booleans())}
    if kind == "combined":
        opt = {}
        for k, key in (("N", "N"), ("Sz", "Sz"), ("S2", "S^2")):
            if draw(st.integers(0, 3)) > 0:
                mu = draw(st.one_of(mus, st.sampled_from([0, 0.0, -1.0])))
                opt[key] = [mu, target(k)]
        case["opt"] = opt
    else:
        case["v"], case["mu"] = target(kind), draw(mus)
    if case["enc"] == "scbk":
        secs = scbk_sectors(n)
        if secs:
            case["ne"], case["spin"] = draw(st.sampled_from(secs))
        else:
            case["enc"] = "jw"
    return case


@part("penalties", quick=160, thorough=15000)
def penalties(ctx):
    from tangelo.toolboxes.ansatz_generator.penalty_terms import combined_penalty
    nmax = 3 if ctx.tier == "quick" else 4
    KEY = {"N": 0, "Sz": 1, "S^2": 2, "S2": 2}

    def expected(parts, m, utd):
        refs = ref_ops(m, utd)
        P = np.zeros((2 ** m, 2 ** m), dtype=complex)
        for kind, mu, v in parts:
            A = refs[KEY[kind]] - v * np.eye(2 ** m)
            P += mu * (A @ A)
        return P

    def body(case):
        n, kind = case["n"], case["kind"]
        m = 2 * n
        if kind == "combined":
            added = [(k, mu, v) for k, (mu, v) in case["opt"].items() if mu > 0]      # documented: a term is added iff its prefactor is > 0
            build = lambda utd: combined_penalty(n, {k: list(v) for k, v in case["opt"].items()} or None, up_then_down=utd)
        else:
            added = [(kind, case["mu"], case["v"])]
            build = lambda utd: penalty_op(kind, n, case["v"], case["mu"], utd)
        labels = {kind, f"n_orbs={n}", case["enc"]}
        # ---- fermion level, operator-level ordering flag
        utd = case["op_utd"]
        P = fock(build(utd), m)
        Pref = expected(added, m, utd)
        scale = max(1.0, maxabs(Pref))
        d = maxabs(P - Pref)
        if d > TOL * scale:
            raise Fail(f"{kind} penalty (n_orbs={n}, up_then_down={utd}, terms {added}) differs from sum mu (O - v)^2 by {d}", sig=f"penalty:{kind}:matrix")
        w = np.linalg.eigvalsh((P + P.conj().T) / 2)
        if w[0] < -TOL * scale:
            raise Fail(f"{kind} penalty has eigenvalue {w[0]} < 0", sig=f"penalty:{kind}:negative")
        # zero exactly on the targeted sector: joint eigenvectors of the reference operators with all targets met
        refs = ref_ops(m, utd)
        if added:
            w2, V = np.linalg.eigh(refs[2] + 1e-3 * refs[0] + 1e-5 * refs[1])          # joint eigenbasis of commuting N, Sz, S^2
            vals = [np.real(np.einsum("ij,ij->j", V.conj(), refs[i] @ V)) for i in range(3)]
            hit = np.ones(2 ** m, dtype=bool)
            for k, mu, v in added:
                hit &= np.abs(vals[KEY[k]] - v) < 1e-7
            if hit.any():
                labels.add("attainable-target")
                r = maxabs(P @ V[:, hit])
                if r > 1e-7 * scale:
                    raise Fail(f"{kind} penalty does not vanish on its targeted sector (residual {r})", sig=f"penalty:{kind}:sector-not-zero")
            else:
                labels.add("unattainable-target")
                if w[0] < 1e-12:
                    raise Fail(f"{kind} penalty with an unattainable target has a zero eigenvalue", sig=f"penalty:{kind}:unattainable-zero")
        else:
            labels.add("nothing-added")
        if kind == "combined":
            labels.add(f"terms={len(added)}")
            if any(mu <= 0 for mu, _ in case["opt"].values()):
                labels.add("non-positive-weight-ignored")
        # ---- encoded: penalty built in the default ordering, the mapping re-orders
        enc, mutd = case["enc"], case["map_utd"]
        Pf = build(False)
        Pref = expected(added, m, False)
        scale = max(1.0, maxabs(Pref))
        if enc == "scbk":
            if not Pf.terms:
                return n >= 2, labels
            ne, spin = case["ne"], case["spin"]
            Q = qop_dense(dict(map_op(Pf, "scbk", m, mutd, n_e=ne, spin=spin).terms), m - 2)
            xs, bs = scbk_layout(m, ne, spin, mutd)
            pop, sz = det_tables(m, False)
            check_scbk_operator(f"{kind}-penalty", Q, Pref, xs, bs, pop, sz, f"scbk n_orbs={n} ne={ne} spin={spin} up_then_down={mutd}")
        else:
            Q = qop_dense(dict(map_op(Pf, enc, m, mutd).terms), m)
            D = encoded_determinants(enc, m, mutd)
            r = maxabs(Q @ D - D @ Pref)
            if r > TOL * scale:
                raise Fail(f"{enc} up_then_down={mutd}: encoded {kind} penalty (terms {added}) does not act as mu (O - v)^2 (residual {r})",
                           sig=f"penalty:{kind}:encoded:{enc}")
        wq = np.linalg.eigvalsh((Q + Q.conj().T) / 2)
        if wq[0] < -1e-8 * scale:
            raise Fail(f"{enc}: encoded {kind} penalty has eigenvalue {wq[0]} < 0", sig=f"penalty:{kind}:encoded-negative")
        labels.add(f"map_utd={mutd}")
        return n >= 2, labels

    ctx.search("penalties", penalty_cases(nmax), body)


# ------------------------------------------------------------------------------------------------ (d) conserving ansaetze (JW)

def ansatz_configs(tier):
    out = []
    for fam in ("UCCSD", "UpCCGSD", "UCCGD", "ADAPT"):
        for c in H.family_configs(fam, tier):
            if c["map"] == "jw" and not (fam == "UpCCGSD" and c["k"] > 3):
                out.append(c)
    out += H.family_configs("RUCC", tier) + H.family_configs("pUCCD", tier)
    return out


@st.composite
def ansatz_cases(draw, cfgs):
    """(configuration, build recipe with exact zeros placed per layer/step, 1-3 update specs). Plain data:
    "lz": [[layer, pos], ...] entries forced to 0.0 at build (index = layer * n_per_step + pos for UpCCGSD, spread otherwise);
    update spec kinds: "same" (p' == p), "same-zeros" (same zero pattern, other values), "move-zeros" (pattern rotated by "s"),
    "all-nonzero", "recipe" (free recipe relative to the current vector)."""
    cfg = draw(st.sampled_from(cfgs))
    case = {"cfg": cfg, "th": draw(H.recipes()),
            "lz": draw(st.lists(st.tuples(st.integers(0, 3), st.integers(0, 40)).map(list), max_size=3))}
    ups = []
    for _ in range(draw(st.integers(1, 3))):
        kind = draw(st.sampled_from(["same", "same-zeros", "same-zeros", "move-zeros", "all-nonzero", "recipe"]))
        u = {"k": kind, "vals": draw(st.lists(H.values(), min_size=1, max_size=5)), "drift": draw(st.sampled_from([0.013, -0.07, 0.211]))}
        if kind == "move-zeros":
            u["s"] = draw(st.integers(1, 11))
        if kind == "recipe":
            u["th"] = draw(H.recipes())
        ups.append(u)
    case["upd"] = ups
    if cfg["a"] == "ADAPT":
        case["ops"] = draw(st.lists(st.integers(0, 199), min_size=2, max_size=6))
    return case


def place_zeros(th, lz, cfg, obj):
    n = len(th)
    if not n:
        return th
    per = getattr(obj, "n_var_params_per_step", None) if cfg["a"] == "UpCCGSD" else None
    for layer, pos in lz:
        i = (layer % cfg["k"]) * per + pos % per if per else (layer * 7 + pos) % n
        th[i] = 0.0
    return th


def next_theta(u, cur):
    """Update spec -> explicit vector, relative to the current vector `cur`."""
    n = len(cur)
    fill = [(u["vals"][i % len(u["vals"])] or 0.37) + u["drift"] * i for i in range(n)]
    fill = [x if x != 0.0 else 0.37 for x in fill]                      # guaranteed non-zero replacement values
    k = u["k"]
    if k == "same":
        return list(cur)
    if k == "same-zeros":
        return [0.0 if c == 0.0 else f for c, f in zip(cur, fill)]
    if k == "move-zeros":
        return [0.0 if cur[(i + u["s"]) % n] == 0.0 else f for i, f in enumerate(fill)] if n else []
    if k == "all-nonzero":
        return fill
    return H.expand(u["th"], n, cur)


def run_ansatz_case(case):
    cfg = case["cfg"]
    a = cfg["a"]
    with H.quiet():
        obj = H.make(cfg, case.get("ops", ()))
    if a == "RUCC":
        m, utd, ne, sz_t = 4, True, 2, 0.0                 # reference |1010> = one alpha, one beta electron with spin-up orbitals first
    elif a == "pUCCD":
        mol = H.mol(cfg["mol"])
        m, utd, ne, sz_t = mol.n_active_mos, None, mol.n_active_electrons // 2, None     # hard-core bosons: pair number on n_orb qubits
    else:
        mol = H.mol(cfg["mol"])
        m, utd, ne, sz_t = mol.n_active_sos, cfg["utd"], mol.n_active_electrons, mol.active_spin / 2
    if utd is None:
        pop = np.array([bin(x).count("1") for x in range(2 ** m)], dtype=float)
        szv = None
    else:
        pop, szv = det_tables(m, utd)
    labels = {a, f"mol={cfg.get('mol')}", f"utd={cfg.get('utd')}"}
    if a == "UpCCGSD":
        labels.add(f"k={cfg['k']}")
    if a == "ADAPT":
        labels.add(f"adapt-ops={len(case['ops'])}")

    def conserved(th, how):
        n = max(obj.circuit.width, m)
        psi = H.state_of(obj.circuit, n)
        prob = np.abs(psi) ** 2
        idx = np.arange(2 ** n) >> (n - m)                 # occupation of the first m qubits (mode p <-> qubit p under JW)
        extra = np.arange(2 ** n) & ((1 << (n - m)) - 1)
        if prob[extra != 0].sum() > 1e-16:
            raise Fail(f"{a}: the circuit populates qubits beyond the {m}-qubit register", sig=f"ansatz:{a}:register")
        leak_n = math.sqrt(float(np.sum(prob * (pop[idx] - ne) ** 2)))
        if leak_n > 1e-8:
            raise Fail(f"{a} {cfg}: ||(N - {ne}) psi|| = {leak_n} after {how}, theta = {th}", sig=f"ansatz:{a}:N-not-conserved", theta=th, after=how)
        if szv is not None:
            leak_s = math.sqrt(float(np.sum(prob * (szv[idx] - sz_t) ** 2)))
            if leak_s > 1e-8:
                raise Fail(f"{a} {cfg}: ||(Sz - {sz_t}) psi|| = {leak_s} after {how}, theta = {th}", sig=f"ansatz:{a}:Sz-not-conserved", theta=th,
                           after=how)
        labels.add("superposition" if np.sum(prob > 1e-6) >= 2 else "basis-state")
        if any(abs(x) > 2 * math.pi for x in th):
            labels.add("theta>2pi")

    th = place_zeros(H.expand(case["th"], obj.n_var_params, None), case.get("lz", []), cfg, obj)
    with H.quiet():
        obj.build_circuit(list(th))
    conserved(th, "build")
    per = getattr(obj, "n_var_params_per_step", None) if a == "UpCCGSD" else None
    if any(x == 0.0 for x in th) and not all(x == 0.0 for x in th):
        labels.add("zeros-at-build")
        if per and any(x == 0.0 for x in th[per:]) and any(x != 0.0 for x in th[per:]):
            labels.add("zeros-at-build-in-step>=1")
    nz_max = sum(1 for x in th if x != 0.0)
    for j, u in enumerate(case.get("upd", [])):
        new = next_theta(u, th)
        same_pattern = [x == 0.0 for x in new] == [x == 0.0 for x in th]
        with H.quiet():
            obj.update_var_params(list(new))
        labels.add(f"update:{u['k']}")
        if same_pattern and any(x == 0.0 for x in new) and any(x != 0.0 for x in new):
            labels.add("update-keeps-partial-zeros")
            if per and any(x == 0.0 for x in new[per:]) and any(x != 0.0 for x in new[per:]):
                labels.add("update-keeps-zeros-in-step>=1")
        elif not same_pattern:
            labels.add("update-changes-zero-pattern")
        th = new
        conserved(th, f"update#{j + 1}:{u['k']}")
        nz_max = max(nz_max, sum(1 for x in th if x != 0.0))
    return nz_max >= 2, labels


@part("ansatz", quick=200, thorough=20000)
def ansatz(ctx):
    cfgs = ansatz_configs(ctx.tier)
    fams = [("UCCSD", 0.3), ("UpCCGSD", 0.22), ("UCCGD", 0.12), ("ADAPT", 0.2), ("RUCC", 0.08), ("pUCCD", 0.08)]
    for fam, frac in fams:
        sub = [c for c in cfgs if c["a"] == fam]
        ctx.search(f"ansatz_{fam.lower()}", ansatz_cases(sub), run_ansatz_case, frac=frac)
