"""C13 - reduced density matrices reproduce energies and electron counts.

1- and 2-RDMs from FCISolver / CCSDSolver / MP2Solver (where offered) and from VQESolver.get_rdm / get_rdm_uhf for any
parameter vector, encoding and ordering: contraction with the molecular integrals gives the solver's energy
(SecondQuantizedMolecule.energy_from_rdms, rdms.energy_from_rdms, and an independent contraction with PySCF AO integrals),
Hermiticity, traces; padding with the frozen orbitals gives full-space matrices with the total electron count and the same
energy and leaves the arrays passed in untouched.
"""
import numpy as np
from hypothesis import strategies as st

from vlib.runner import part, Fail, Skip
from vlib import refsim as R, refops as O, refchem as RC, h_c08 as H

PROPERTY = "C13"
RULE = ("Hypothesis-generated molecules (H2 sto-3g/6-31g, H3, H4 chain/ring/generic, LiH, H2O; drawn bond scaling and atom "
        "displacements; charge/spin from admissible sets; RHF/ROHF/UHF; frozen-orbital specifications as None / int / list / "
        "per-spin lists incl. interior, virtual and unequal alpha/beta lists; 1-7 active orbitals for the classical solvers, "
        "<= 3 for VQE) x solver (FCI, CCSD, MP2, VQE with UCCSD / UpCCGSD / HEA, parameter vectors with zeros / single "
        "non-zero / cyclic patterns, encodings jw/bk/scbk/jkmn in all spellings, both orderings, spin-summed and "
        "spin-resolved forms). Oracles: the solver's own energy (and, for VQE, <psi|H|psi> of the reference simulation); "
        "independent contraction of the (padded) matrices with integrals built from PySCF AO integrals; directly evaluated "
        "<a+_p a_q>, <a+_p a+_q a_r a_s> on the Jordan-Wigner state. Part history: freeze_mos(other, inplace=False) copies (also chained, same and different active size) solved and contracted after energy_from_rdms was already called on the parent, parent re-checked afterwards; one VQE solver asked for RDMs at several parameter vectors and forms in a row (spin-resolved frequent, get_rdm_uhf, HEA complex states), every returned pair kept with an immediate copy and re-compared bit for bit after each later call; one FCI / CCSD solver object re-used after the mo_coeff of the molecule was replaced through the public setter by an energy-invariant rotation (full active space for FCI, occupied-occupied and virtual-virtual for CCSD), compared with a fresh solver and the pre-rotation energy (re-use of the CAS branch of FCISolverPySCF is not asserted: it builds its integrals at construction on the unchanged tree). Non-trivial = at least one frozen orbital, or an open "
        "shell, or (VQE) a non-zero parameter vector. Distinct = distinct canonical JSON of the case.")
ASSUMPTIONS = ["numpy dense linear algebra", "PySCF AO integrals, SCF, FCI / CCSD / MP2 kernels are the solvers under the Tangelo wrappers; their energies are the reference the RDM contraction is compared with",
               "reference simulator and Pauli matrices in vlib/refsim.py, Fock-space ladder matrices in vlib/refops.py, integral transformation in vlib/refchem.py (self-tested)",
               "CCSD energy identity is asserted only when the amplitude and lambda equations converged; tolerance 1e-6 for CCSD and MP2 (SCF-based pipelines), 1e-7 for FCI and VQE",
               "MP2 RDMs are requested only where offered: closed-shell RHF and UHF without frozen orbitals; ROHF-MP2 dies inside PySCF and is counted as not offered",
               "2-RDM pair-exchange symmetry is not asserted (the property does not claim it)",
               "trace of the VQE 1-RDM is asserted only when the prepared state is an eigenstate of the particle number (variance < 1e-9)"]
SHARDS = {"quick": 4, "thorough": 16}

TOL_E = 1e-7
# VQE RDMs are assembled excitation by excitation through fermion_to_qubit_mapping + compress(), which drops Pauli
# coefficients below openfermion's 1e-8: energies then differ by up to a few 1e-7 (1.3e-7 seen twice among 4000 thorough
# cases). A wrong matrix element gives >= 1e-3.
TOL_VQE = 1e-6
TOL_H_VQE = 1e-6
TOL_CC = 1e-6
TOL_H = 1e-8
SIG_PAD = "pad_rdms:mutates-input-arrays"
SIG_SPIN = "vqe-rdm:energy:scbk-active-spin"
SIG_UHFSHAPE = "vqe-rdm-uhf:shape-unequal-alpha-beta"
SIG_ZERO = "exception:ValueError@tangelo/toolboxes/qubit_mappings/mapping_transform.py:make_up_then_down"
MAPPINGS = ["BK", "scbk", "JKMN", "jw", "bk", "JW", "scBK", "SCBK", "jkmn"]


def selftest():
    R.selftest()
    O.selftest()
    H.selftest()
    RC.selftest()
    # contraction convention: PySCF FCI matrices of H2 reproduce the FCI energy with integrals from vlib.refchem
    from pyscf import gto, scf, fci
    mol = gto.M(atom="H 0 0 0; H 0 0 0.9", basis="sto-3g", verbose=0)
    mf = scf.RHF(mol).run()
    cis = fci.FCI(mf)
    e, ci = cis.kernel()
    d1, d2 = cis.make_rdm12(ci, 2, 2)
    assert abs(contract_restricted(mol, mf.mo_coeff, d1, d2) - e) < 1e-9


# ------------------------------------------------------------------------------------------------ oracles

def contract_restricted(pymol, mo, g1, g2):
    """E = E_nuc + sum h_pq g1_pq + 1/2 sum (pq|rs) g2_pqrs over all MOs (chemist layout g2_pqrs = <p+ r+ s q>)."""
    n = mo.shape[1]
    h, g = RC.spinorb_integrals(pymol, mo, mo, list(range(n)), list(range(n)))
    return float(np.real(pymol.energy_nuc() + np.sum(h["a"] * g1) + 0.5 * np.sum(g["aa"] * g2)))


def contract_unrestricted(pymol, mo_a, mo_b, g1, g2):
    na, nb = mo_a.shape[1], mo_b.shape[1]
    h, g = RC.spinorb_integrals(pymol, mo_a, mo_b, list(range(na)), list(range(nb)))
    e = pymol.energy_nuc() + np.sum(h["a"] * g1[0]) + np.sum(h["b"] * g1[1])
    e += 0.5 * np.sum(g["aa"] * g2[0]) + np.sum(g["ab"] * g2[1]) + 0.5 * np.sum(g["bb"] * g2[2])
    return float(np.real(e))


def herm_defect(g1, g2):
    """max deviation from g1 = g1^dagger and g2_pqrs = conj(g2_qpsr)."""
    return max(float(np.max(np.abs(g1 - g1.conj().T))) if g1.size else 0.0,
               float(np.max(np.abs(g2 - g2.transpose(1, 0, 3, 2).conj()))) if g2.size else 0.0)


def check_hermitian(mol, g1, g2, what):
    if mol.uhf:
        # alpha-alpha with gamma_alpha, beta-beta with gamma_beta; the alpha-beta block obeys the same index rule
        d = max(herm_defect(g1[0], g2[0]), herm_defect(g1[1], g2[2]), herm_defect(g1[0][:0, :0], g2[1]))
    else:
        d = herm_defect(g1, g2)
    if d > TOL_H:
        raise Fail(f"{what}: RDMs are not Hermitian (max deviation {d})", sig=f"{what}:hermiticity")


def check_full_space(mol, case, g1, g2, e_ref, tol, what, trace=True):
    """Full-space matrices: total electron count, energy with the unfrozen molecule and with independent integrals."""
    full = mol.freeze_mos(None, inplace=False)
    e_t = full.energy_from_rdms(g1, g2)
    if abs(e_t - e_ref) > tol:
        raise Fail(f"{what}: full-space matrices give {e_t!r} with the unfrozen molecule, solver energy {e_ref!r}",
                   sig=f"{what}:full-space-energy")
    pymol = mol.mean_field.mol
    if mol.uhf:
        e_i = contract_unrestricted(pymol, np.asarray(mol.mo_coeff[0]), np.asarray(mol.mo_coeff[1]), g1, g2)
        tr = float(np.real(np.trace(g1[0]) + np.trace(g1[1])))
    else:
        e_i = contract_restricted(pymol, np.asarray(mol.mo_coeff), g1, g2)
        tr = float(np.real(np.trace(g1)))
    if abs(e_i - e_ref) > tol:
        raise Fail(f"{what}: independent contraction of the full-space matrices gives {e_i!r}, solver energy {e_ref!r}",
                   sig=f"{what}:full-space-energy-independent")
    if trace and abs(tr - mol.n_electrons) > 1e-7:
        raise Fail(f"{what}: trace of the full-space 1-RDM is {tr}, molecule has {mol.n_electrons} electrons", sig=f"{what}:full-space-trace")


def pad_and_check(mol, case, g1, g2, e_ref, tol, what, trace=True):
    """Pad with the frozen orbitals. Returns True when the inputs were left intact (checked bit for bit)."""
    from tangelo.toolboxes.molecular_computation.rdms import (pad_rdms_with_frozen_orbitals_restricted as pad_r,
                                                              pad_rdms_with_frozen_orbitals_unrestricted as pad_u)
    if mol.uhf:
        c1, c2 = [np.array(x, copy=True) for x in g1], [np.array(x, copy=True) for x in g2]
        p1, p2 = pad_u(mol, g1, g2)
        intact = all(np.array_equal(a, b) for a, b in zip(c1 + c2, list(g1) + list(g2)))
    else:
        c1, c2 = np.array(g1, copy=True), np.array(g2, copy=True)
        p1, p2 = pad_r(mol, g1, g2)
        intact = np.array_equal(c1, g1) and np.array_equal(c2, g2)
    n = mol.n_mos
    shapes_ok = all(x.shape == (n, n) for x in (p1 if mol.uhf else [p1])) and all(x.shape == (n,) * 4 for x in (p2 if mol.uhf else [p2]))
    if not shapes_ok:
        raise Fail(f"{what}: padded matrices do not have full-space shape", sig=f"{what}:padded-shape")
    check_full_space(mol, case, p1, p2, e_ref, tol, what + ":padded", trace=trace)
    return intact


def mol_kind(case):
    return "uhf" if case["uhf"] else ("rhf" if case["spin"] == 0 else "rohf")


def mol_labels(case, mol):
    out = {"ref=" + mol_kind(case), "family=" + case["family"]}
    fr = case["frozen"]
    if fr:
        out.add("frozen")
        _, na, nb = H.static_occ(case)
        fa, fb = H.frozen_lists(case)
        if any(i > 0 and (i - 1) not in fa for i in fa if i < na):
            out.add("frozen-interior-occupied")
        if any(i >= na for i in fa) or any(i >= nb for i in fb):
            out.add("frozen-virtual")
        if case["uhf"] and fa != fb:
            out.add("frozen-per-spin-different")
        if case["uhf"] and len(fa) != len(fb):
            out.add("alpha-beta-different-sizes")
        if isinstance(fr, list) and not case["uhf"] and list(fr) != sorted(fr):
            out.add("frozen-list-unsorted")
    return out


# ------------------------------------------------------------------------------------------------ part 1: classical solvers

@st.composite
def classical_cases(draw, solver):
    refs = {"FCI": ("rhf", "rohf"), "CCSD": ("rhf", "rohf", "uhf"), "MP2": ("rhf", "uhf")}[solver]
    mol = draw(H.molecules(max_active=7, min_active=1, refs=refs, frozen_prob=0.75 if solver != "MP2" else 0.25))
    return {"mol": mol, "solver": solver}


@part("classical", quick=160, thorough=8000)
def classical(ctx):
    def body(case):
        from tangelo.algorithms.classical import FCISolver, CCSDSolver, MP2Solver
        from tangelo.toolboxes.molecular_computation.rdms import energy_from_rdms
        mcase = case["mol"]
        mol = H.get_molecule(mcase, ctx.rec)
        labels = mol_labels(mcase, mol) | {"solver=" + case["solver"]}
        nontrivial = bool(mcase["frozen"]) or mcase["spin"] != 0
        ne = mol.n_active_electrons
        n_act = mol.n_active_mos
        if case["solver"] == "CCSD" and (ne < 2 or (min(n_act) if mol.uhf else n_act) < 2):
            raise Skip("CCSD needs at least two electrons in two orbitals")
        solver = {"FCI": FCISolver, "CCSD": CCSDSolver, "MP2": MP2Solver}[case["solver"]](mol)
        e = solver.simulate()
        tol = TOL_E
        if case["solver"] == "MP2" and mol.frozen_mos is not None:
            # documented: RDMs are not offered with frozen orbitals
            try:
                solver.get_rdm()
            except RuntimeError:
                return nontrivial, labels | {"mp2-frozen-refused-as-documented"}
            raise Fail("MP2Solver.get_rdm with frozen orbitals did not raise the documented RuntimeError", sig="mp2:frozen-not-refused")
        g1, g2 = solver.get_rdm()
        if case["solver"] == "MP2":
            tol = TOL_CC      # the MP2 matrices reproduce E(MP2) up to terms that vanish with the SCF residual (SCF-based pipeline: 1e-6)
        if case["solver"] == "CCSD":
            cc = solver.solver.cc_fragment if hasattr(solver, "solver") else solver.cc_fragment
            tol = TOL_CC
            if not (cc.converged and cc.converged_lambda):
                labels.add("ccsd-not-converged")
                tol = None
        what = case["solver"].lower()
        check_hermitian(mol, g1, g2, what)
        na, nb = mol.n_active_ab_electrons
        if mol.uhf:
            tra, trb = float(np.trace(g1[0])), float(np.trace(g1[1]))
            if abs(tra - na) > 1e-7 or abs(trb - nb) > 1e-7:
                raise Fail(f"{what}: tr gamma_alpha, tr gamma_beta = {tra}, {trb}; active electrons {na}, {nb}", sig=f"{what}:trace")
        else:
            tr = float(np.real(np.trace(g1)))
            if abs(tr - ne) > 1e-7:
                raise Fail(f"{what}: tr gamma = {tr}, active electrons {ne}", sig=f"{what}:trace")
        if tol is not None:
            e_r = mol.energy_from_rdms(g1, g2)
            if abs(e_r - e) > tol:
                raise Fail(f"{what}: energy_from_rdms = {e_r!r}, solver energy {e!r}", sig=f"{what}:energy")
            if not mol.uhf:
                e_f = energy_from_rdms(mol.fermionic_hamiltonian, g1, g2)
                if abs(e_f - e) > tol:
                    raise Fail(f"{what}: rdms.energy_from_rdms(fermionic_hamiltonian) = {e_f!r}, solver energy {e!r}", sig=f"{what}:energy-fermionic-hamiltonian")
        big_tol = tol if tol is not None else 1e9
        if mol.frozen_mos is None:
            check_full_space(mol, mcase, g1, g2, e, big_tol, what)
            labels.add("full-space")
        else:
            intact = pad_and_check(mol, mcase, g1, g2, e, big_tol, what)
            labels.add("padded")
            labels.add("padded-" + mol_kind(mcase))
            if not intact:
                raise Fail(f"pad_rdms_with_frozen_orbitals_{'un' if mol.uhf else ''}restricted changed the arrays passed in "
                           f"({what} matrices, frozen {mcase['frozen']})", sig=SIG_PAD)
        return nontrivial, labels

    for solver, frac in (("FCI", 0.34), ("CCSD", 0.41), ("MP2", 0.25)):
        ctx.search(f"classical[{solver}]", classical_cases(solver), body, frac=frac,
                   exclusions={SIG_PAD: lambda c: bool(c["mol"]["frozen"])})


# ------------------------------------------------------------------------------------------------ part 2: VQE

@st.composite
def vqe_cases(draw, refs, force_asym=False):
    mol = draw(H.molecules(max_active=3, min_active=2, refs=refs))
    nm = draw(st.sampled_from(["UCCSD", "HEA", "UpCCGSD"]))
    aopts = {}
    if nm == "UpCCGSD":
        aopts = {"k": draw(st.sampled_from([1, 2]))}
    elif nm == "HEA":
        aopts = {"n_layers": draw(st.integers(1, 2)), "rot_type": draw(st.sampled_from(["euler", "real"]))}
    c = {"mol": mol, "ansatz": nm, "aopts": aopts, "mapping": draw(st.sampled_from(MAPPINGS)), "utd": draw(st.booleans()),
         "theta": draw(H.theta_specs()), "sum_spin": draw(st.booleans())}
    if c["mapping"].upper() == "JW" and not mol["uhf"]:
        c["sum_spin"] = draw(st.sampled_from([False, False, True]))     # spin-resolved form is evaluated directly under JW
    n_mos, na, nb = H.static_occ(mol)
    if force_asym and mol["uhf"] and na >= 2 and n_mos <= 4:
        # one occupied alpha orbital frozen (beta untouched): active spin != molecular spin, unequal alpha/beta sizes
        mol["frozen"] = [[draw(st.integers(0, na - 1))], [n_mos - 1] if draw(st.booleans()) and n_mos >= 3 else []]
        c["mapping"] = draw(st.sampled_from(["scbk", "scBK", "SCBK", "jw", "BK"]))
    return c


def fermion_expectations_jw(mol, psi, n, utd):
    """{hamiltonian term key: <psi| a+.. a.. |psi>} on a Jordan-Wigner state (qubit = spin-orbital, reordered for utd)."""
    n_sos = mol.n_active_sos
    pos = O.up_then_down_perm(n_sos) if utd else list(range(n_sos))
    out = {}
    for key in mol.fermionic_hamiltonian.terms:
        if not key:
            continue
        v = psi
        for p, d in reversed(key):
            v = O.ladder(pos[p], d, n) @ v
        out[key] = complex(np.vdot(psi, v))
    return out


def is_zero_ucc(case):
    th = case["theta"]
    zero = th["mode"] == "zeros" or (th["mode"] == "cycle" and all(v == 0.0 for v in th["vals"]))
    return case["ansatz"] in ("UCCSD", "UpCCGSD") and case["utd"] and zero


@part("vqe", quick=100, thorough=4000)
def vqe(ctx):
    def body(case):
        from tangelo.toolboxes.molecular_computation.rdms import energy_from_rdms
        from tangelo.toolboxes.operators import FermionOperator
        from tangelo.toolboxes.qubit_mappings.mapping_transform import fermion_to_qubit_mapping
        from tangelo.algorithms.variational import VQESolver, BuiltInAnsatze
        mcase = case["mol"]
        mol = H.get_molecule(mcase, ctx.rec)
        opts = {"molecule": mol, "qubit_mapping": case["mapping"], "up_then_down": case["utd"], "ansatz": getattr(BuiltInAnsatze, case["ansatz"])}
        if case["aopts"]:
            opts["ansatz_options"] = dict(case["aopts"])
        ctx.np_seed(case)
        solver = VQESolver(opts)
        solver.build()
        theta = H.theta_vector(case["theta"], solver.ansatz.n_var_params)
        tarr = np.array(theta, dtype=float)
        e = solver.energy_estimation(tarr)
        psi, n = H.run_circuits([solver.ansatz.circuit], n=H.op_n_qubits(solver.qubit_hamiltonian.terms))
        e_ref, _ = H.expectation(solver.qubit_hamiltonian.terms, psi, n)
        if abs(e - e_ref) > 1e-8:
            raise Fail(f"energy_estimation {e!r} differs from <psi|H|psi> = {e_ref!r} (property C08)", sig="vqe:energy-vs-state")
        labels = mol_labels(mcase, mol) | {f"ansatz={case['ansatz']}", f"mapping={case['mapping'].upper()}", f"utd={case['utd']}"}
        info = H.active_info(mcase)
        asym_spin = mol.uhf and mol.active_spin != mol.spin
        if asym_spin:
            labels.add("active-spin!=spin")
        # particle-number variance of the prepared state under the solver's encoding
        # (number operator over the spin-orbitals that exist: with unequal alpha/beta active spaces the register holds
        # 2*max(n_alpha_orbitals, n_beta_orbitals) modes, and an ansatz may move electrons into the surplus modes, which
        # no density matrix element refers to)
        n_orb_a, n_orb_b = mol.n_active_mos if mol.uhf else (mol.n_active_mos,) * 2
        fN = FermionOperator()
        for i in range(n_orb_a):
            fN += FermionOperator(((2 * i, 1), (2 * i, 0)), 1.0)
        for i in range(n_orb_b):
            fN += FermionOperator(((2 * i + 1, 1), (2 * i + 1, 0)), 1.0)
        qN = fermion_to_qubit_mapping(fN, case["mapping"], n_spinorbitals=mol.n_active_sos, n_electrons=mol.n_active_electrons,
                                      up_then_down=case["utd"], spin=mol.active_spin)
        MN = R.qop_matrix(qN.terms, n)
        vN = MN @ psi - mol.n_active_electrons * psi
        conserves = float(np.vdot(vN, vN).real) < 1e-9
        labels.add("N-conserved" if conserves else "N-not-conserved")

        def energy_check(g1, g2, what):
            try:
                e_r = mol.energy_from_rdms(g1, g2)
            except ValueError as ex:
                if mol.uhf and len(mol.active_mos[0]) != len(mol.active_mos[1]) and "broadcast" in str(ex):
                    raise Fail(f"get_rdm_uhf returns matrices of shape {np.shape(g1[0])}/{np.shape(g1[1])} for {mol.n_active_mos} active "
                               f"alpha/beta orbitals; energy_from_rdms cannot contract them: {ex}", sig=SIG_UHFSHAPE)
                raise
            if abs(e_r - e) > TOL_VQE:
                scbk_spin = asym_spin and case["mapping"].upper() == "SCBK"
                raise Fail(f"{what}: energy_from_rdms = {e_r!r}, energy_estimation = {e!r} [mapping {case['mapping']}, "
                           f"up_then_down {case['utd']}, active spin {mol.active_spin}, molecular spin {mol.spin}]",
                           sig=SIG_SPIN if scbk_spin else f"{what}:energy")

        intact = True
        if mol.uhf:
            g1, g2 = solver.get_rdm_uhf(tarr)
            labels.add("form=uhf")
            energy_check(g1, g2, "vqe-rdm-uhf")
            check_hermitian(mol, g1, g2, "vqe-rdm-uhf")
            if conserves:
                tra, trb = float(np.trace(g1[0])), float(np.trace(g1[1]))
                if abs(tra + trb - mol.n_active_electrons) > 1e-7:
                    raise Fail(f"vqe-rdm-uhf: traces {tra} + {trb}, active electrons {mol.n_active_electrons}", sig="vqe-rdm-uhf:trace")
            if mol.frozen_mos is not None:
                intact = pad_and_check(mol, mcase, g1, g2, e, TOL_VQE, "vqe-rdm-uhf", trace=conserves)
                labels.add("padded")
            else:
                check_full_space(mol, mcase, g1, g2, e, TOL_VQE, "vqe-rdm-uhf", trace=conserves)
        else:
            g1, g2 = solver.get_rdm(tarr, sum_spin=True)
            energy_check(g1, g2, "vqe-rdm")
            e_f = energy_from_rdms(mol.fermionic_hamiltonian, g1, g2)
            if abs(e_f - e) > TOL_VQE:
                raise Fail(f"vqe-rdm: rdms.energy_from_rdms(fermionic_hamiltonian) = {e_f!r}, energy_estimation {e!r}",
                           sig="vqe-rdm:energy-fermionic-hamiltonian")
            check_hermitian(mol, g1, g2, "vqe-rdm")
            if conserves:
                tr = float(np.real(np.trace(g1)))
                if abs(tr - mol.n_active_electrons) > 1e-7:
                    raise Fail(f"vqe-rdm: tr gamma = {tr}, active electrons {mol.n_active_electrons}", sig="vqe-rdm:trace")
            if not case["sum_spin"]:
                labels.add("form=spin-resolved")
                s1, s2 = solver.get_rdm(tarr, sum_spin=False)
                m = mol.n_active_sos
                if s1.shape != (m, m) or s2.shape != (m,) * 4:
                    raise Fail("spin-resolved matrices have wrong shape", sig="vqe-rdm:spin-resolved-shape")
                # spin summation rule of the documentation: orbital index = spin-orbital index // 2
                t1 = s1.reshape(m // 2, 2, m // 2, 2).sum(axis=(1, 3))
                t2 = s2.reshape(m // 2, 2, m // 2, 2, m // 2, 2, m // 2, 2).sum(axis=(1, 3, 5, 7))
                if np.max(np.abs(t1 - g1)) > 1e-9 or np.max(np.abs(t2 - g2)) > 1e-9:
                    raise Fail("spin-summed matrices are not the spin sum of the spin-resolved ones", sig="vqe-rdm:spin-sum")
                # energy straight from the fermionic Hamiltonian: coefficient x matrix element at the documented position
                terms = mol.fermionic_hamiltonian.terms
                e_s = 0j
                for key, coef in terms.items():
                    if not key:
                        e_s += coef
                    elif len(key) == 2:
                        e_s += coef * s1[key[0][0], key[1][0]]
                    else:
                        p, q, r, s = (k[0] for k in key)
                        e_s += coef * s2[p, s, q, r]
                if abs(e_s - e) > TOL_VQE:
                    raise Fail(f"spin-resolved matrices contracted with the fermionic Hamiltonian give {e_s!r}, energy {e!r}",
                               sig="vqe-rdm:spin-resolved-energy")
                if herm_defect(s1, s2) > TOL_H:
                    raise Fail("spin-resolved matrices are not Hermitian", sig="vqe-rdm:spin-resolved-hermiticity")
                if case["mapping"].upper() == "JW":
                    ex = fermion_expectations_jw(mol, psi, n, case["utd"])
                    d1, d2 = np.zeros_like(s1), np.zeros_like(s2)
                    for key, v in ex.items():
                        if len(key) == 2:
                            d1[key[0][0], key[1][0]] += v
                        else:
                            p, q, r, s = (k[0] for k in key)
                            d2[p, s, q, r] += v
                    dev = max(float(np.max(np.abs(d1 - s1))), float(np.max(np.abs(d2 - s2))))
                    if dev > 1e-8:
                        raise Fail(f"JW: spin-resolved matrices deviate by {dev} from the directly evaluated <a+ a>, <a+ a+ a a>",
                                   sig="vqe-rdm:direct-evaluation")
                    labels.add("jw-direct")
            else:
                labels.add("form=spin-summed")
            if mol.frozen_mos is not None:
                intact = pad_and_check(mol, mcase, g1, g2, e, TOL_VQE, "vqe-rdm", trace=conserves)
                labels.add("padded")
            else:
                check_full_space(mol, mcase, g1, g2, e, TOL_VQE, "vqe-rdm", trace=conserves)
        if not intact:
            raise Fail(f"pad_rdms_with_frozen_orbitals_{'un' if mol.uhf else ''}restricted changed the arrays passed in "
                       f"(VQE matrices, frozen {mcase['frozen']})", sig=SIG_PAD)
        nontrivial = bool(mcase["frozen"]) or mcase["spin"] != 0 or any(t != 0.0 for t in theta)
        if any(t != 0.0 for t in theta):
            labels.add("theta-nonzero")
        if "padded" in labels:
            labels.add("padded-" + mol_kind(mcase))
        if H.is_basis_state(psi):
            labels.add("basis-state")
        return nontrivial, labels

    excl = {SIG_PAD: lambda c: bool(c["mol"]["frozen"]), SIG_ZERO: is_zero_ucc,
            SIG_SPIN: lambda c: c["mol"]["uhf"] and c["mapping"].upper() == "SCBK" and isinstance(c["mol"]["frozen"], list)
            and len(c["mol"]["frozen"][0]) != len(c["mol"]["frozen"][1]),
            SIG_UHFSHAPE: lambda c: c["mol"]["uhf"] and isinstance(c["mol"]["frozen"], list) and len(c["mol"]["frozen"][0]) != len(c["mol"]["frozen"][1])}
    ctx.search("vqe[restricted]", vqe_cases(("rhf", "rohf")), body, frac=0.5, exclusions=excl)
    ctx.search("vqe[uhf]", vqe_cases(("uhf",)), body, frac=0.3, exclusions=excl)
    ctx.search("vqe[uhf-asym]", vqe_cases(("uhf",), force_asym=True), body, frac=0.2, exclusions=excl)


# ------------------------------------------------------------------------------------------------ part 3: histories on shared objects

@st.composite
def alt_frozen(draw, mcase, same_size):
    """Another admissible frozen-orbital specification for the same molecule (same number of active orbitals when
    same_size), as a list / per-spin lists."""
    n_mos, na, nb = H.static_occ(mcase)
    fa, fb = H.frozen_lists(mcase)

    def one(n_hi, n_lo, k_now):
        socc = list(range(n_lo, n_hi))
        docc, virt = list(range(n_lo)), list(range(n_hi, n_mos))
        must = list(socc)
        if not socc:
            if docc:
                must.append(draw(st.sampled_from(docc)))
            if virt:
                must.append(draw(st.sampled_from(virt)))
        k = k_now if same_size else draw(st.integers(max(len(must), 1), n_mos))
        k = max(k, len(must))
        others = [i for i in range(n_mos) if i not in must]
        perm = list(draw(st.permutations(others))) if others else []
        act = sorted(must + perm[: k - len(must)])
        return [i for i in range(n_mos) if i not in act]

    if not mcase["uhf"]:
        return one(na, nb, n_mos - len(fa))
    a = one(na, na, n_mos - len(fa))
    b = a if draw(st.booleans()) else one(nb, nb, n_mos - len(fb))
    return [a, b]


@st.composite
def mol_history_cases(draw):
    solver = draw(st.sampled_from(["FCI", "CCSD"]))
    mol = draw(H.molecules(max_active=5, min_active=2, refs=("rhf", "rohf") if solver == "FCI" else ("rhf", "rohf", "uhf"), frozen_prob=0.75))
    alts = [draw(alt_frozen(mol, same_size=draw(st.integers(0, 3)) > 0)) for _ in range(draw(st.integers(1, 2)))]
    return {"mol": mol, "solver": solver, "alts": alts, "chain": draw(st.booleans())}


@part("history", quick=96, thorough=3000)
def history(ctx):
    def solve(mol, which):
        from tangelo.algorithms.classical import FCISolver, CCSDSolver
        ne, n_act = mol.n_active_electrons, mol.n_active_mos
        if which == "CCSD" and (ne < 2 or (min(n_act) if mol.uhf else n_act) < 2):
            return None
        s = (FCISolver if which == "FCI" else CCSDSolver)(mol)
        e = s.simulate()
        g1, g2 = s.get_rdm()
        if which == "CCSD":
            cc = s.solver.cc_fragment
            if not (cc.converged and cc.converged_lambda):
                return None
        return e, g1, g2

    def check_mol(mol, e, g1, g2, tol, what):
        from tangelo.toolboxes.molecular_computation.rdms import energy_from_rdms
        e_r = mol.energy_from_rdms(g1, g2)
        if abs(e_r - e) > tol:
            raise Fail(f"{what}: energy_from_rdms = {e_r!r}, solver energy {e!r}", sig=f"history:{what}:energy")
        if not mol.uhf:
            e_f = energy_from_rdms(mol.fermionic_hamiltonian, g1, g2)
            if abs(e_f - e) > tol:
                raise Fail(f"{what}: rdms.energy_from_rdms(fermionic_hamiltonian) = {e_f!r}, solver energy {e!r}", sig=f"history:{what}:energy-fermionic-hamiltonian")

    def body(case):
        mcase = case["mol"]
        mol_a = H.get_molecule(mcase, ctx.rec)
        tol = TOL_E if case["solver"] == "FCI" else TOL_CC
        ra = solve(mol_a, case["solver"])
        if ra is None:
            raise Skip("solver not applicable / not converged on the first molecule")
        check_mol(mol_a, *ra, tol, "first-molecule")
        labels = mol_labels(mcase, mol_a) | {"solver=" + case["solver"]}
        parent, n_copies = mol_a, 0
        for alt in case["alts"]:
            spec = [list(x) for x in alt] if mcase["uhf"] else list(alt)
            try:
                mol_b = parent.freeze_mos(spec if (spec and (not mcase["uhf"] or spec[0] or spec[1])) else None, inplace=False)
            except ValueError as ex:
                if "no active electrons" in str(ex) or "fully occupied" in str(ex):
                    labels.add("alt-refused-as-documented")
                    continue
                raise
            rb = solve(mol_b, case["solver"])
            if rb is None:
                labels.add("alt-solver-not-applicable")
                continue
            n_copies += 1
            same = (mol_b.n_active_mos == parent.n_active_mos)
            labels.add("copy-same-active-size" if same else "copy-different-active-size")
            # the copy contracts its own matrices with its own integrals
            check_mol(mol_b, *rb, tol, "freeze_mos-copy")
            if mol_b.frozen_mos is not None:
                pad_and_check(mol_b, dict(mcase, frozen=alt), rb[1], rb[2], rb[0], tol, "history:copy")
            else:
                check_full_space(mol_b, mcase, rb[1], rb[2], rb[0], tol, "history:copy")
            # ... and the molecule it was copied from is unaffected
            check_mol(mol_a, *ra, tol, "first-molecule-after-copy")
            if case["chain"]:
                parent = mol_b
                labels.add("chained-copies")
        return n_copies > 0, labels

    ctx.search("history_mol", mol_history_cases(), body, frac=0.4)

    # one VQE solver, several parameter vectors in a row (repeats included); every returned pair is kept and must stay
    # what it was when later calls are made
    @st.composite
    def vqe_history_cases(draw):
        uhf = draw(st.integers(0, 3)) == 0
        c = draw(vqe_cases(("uhf",) if uhf else ("rhf", "rohf")))
        c["ansatz"] = draw(st.sampled_from(["HEA", "HEA", "UCCSD"]))
        c["aopts"] = {"n_layers": draw(st.integers(1, 2)), "rot_type": "euler"} if c["ansatz"] == "HEA" else {}
        c["pool"] = [draw(H.theta_specs(allow_zero_vector=False)) for _ in range(2)]
        # calls: [index into the pool, sum_spin]; spin-resolved form frequent
        c["seq"] = [[draw(st.integers(0, 1)), draw(st.sampled_from([False, False, True]))] for _ in range(draw(st.integers(2, 4)))]
        return c

    def body_vqe(case):
        from tangelo.algorithms.variational import VQESolver, BuiltInAnsatze
        mcase = case["mol"]
        mol = H.get_molecule(mcase, ctx.rec)
        opts = {"molecule": mol, "qubit_mapping": case["mapping"], "up_then_down": case["utd"], "ansatz": getattr(BuiltInAnsatze, case["ansatz"])}
        if case["aopts"]:
            opts["ansatz_options"] = dict(case["aopts"])
        ctx.np_seed(case)
        solver = VQESolver(opts)
        solver.build()
        thetas = [np.array(H.theta_vector(sp, solver.ansatz.n_var_params), dtype=float) for sp in case["pool"]]
        labels = {f"ansatz={case['ansatz']}", f"mapping={case['mapping'].upper()}", "ref=" + mol_kind(mcase)}
        jw = case["mapping"].upper() == "JW"
        kept = []        # (call number, form, returned arrays (flat list), independent copies)

        def flat(g1, g2):
            return (list(g1) + list(g2)) if mol.uhf else [g1, g2]

        for pos, (k, sum_spin) in enumerate(case["seq"]):
            th = thetas[k]
            if mol.uhf:
                form = "uhf"
                g1, g2 = solver.get_rdm_uhf(th)
            else:
                form = "spin-summed" if sum_spin else "spin-resolved"
                g1, g2 = solver.get_rdm(th, sum_spin=sum_spin)
            labels.add("form=" + form)
            psi, n = H.run_circuits([solver.ansatz.circuit], n=H.op_n_qubits(solver.qubit_hamiltonian.terms))
            e_ref, _ = H.expectation(solver.qubit_hamiltonian.terms, psi, n)
            if form == "spin-resolved":
                m = mol.n_active_sos
                t1 = g1.reshape(m // 2, 2, m // 2, 2).sum(axis=(1, 3))
                t2 = g2.reshape(m // 2, 2, m // 2, 2, m // 2, 2, m // 2, 2).sum(axis=(1, 3, 5, 7))
            else:
                t1, t2 = g1, g2
            e_r = mol.energy_from_rdms(t1, t2)
            if abs(e_r - e_ref.real) > TOL_VQE:
                raise Fail(f"call {pos} (theta #{k}, {form}): energy_from_rdms = {e_r!r}, <psi|H|psi> = {e_ref.real!r}", sig="history:vqe-rdm:energy")
            if not mol.uhf and herm_defect(g1, g2) > TOL_H:
                raise Fail(f"call {pos} (theta #{k}, {form}): matrices are not Hermitian ({herm_defect(g1, g2)})", sig="history:vqe-rdm:hermiticity")
            if mol.uhf:
                check_hermitian(mol, g1, g2, "history:vqe-rdm-uhf")
            if jw and form == "spin-resolved":
                ex = fermion_expectations_jw(mol, psi, n, case["utd"])
                d1, d2 = np.zeros_like(g1), np.zeros_like(g2)
                for key, v in ex.items():
                    if len(key) == 2:
                        d1[key[0][0], key[1][0]] += v
                    else:
                        p, q, r, s_ = (x[0] for x in key)
                        d2[p, s_, q, r] += v
                dev = max(float(np.max(np.abs(d1 - g1))), float(np.max(np.abs(d2 - g2))))
                if dev > 1e-8:
                    raise Fail(f"call {pos} (theta #{k}): JW spin-resolved matrices deviate by {dev} from directly evaluated <a+ a>, <a+ a+ a a>",
                               sig="history:vqe-rdm:direct-evaluation")
                labels.add("jw-direct")
            # results handed out earlier belong to the caller: they must still be what they were
            for pos0, form0, arrs, copies in kept:
                if not all(np.array_equal(a, b) for a, b in zip(arrs, copies)):
                    raise Fail(f"matrices returned by call {pos0} ({form0}) changed during call {pos} ({form})", sig="history:vqe-rdm:earlier-result-changed")
                if any(a is b for a in arrs for b in flat(g1, g2)):
                    raise Fail(f"call {pos} ({form}) returned the same array object as call {pos0} ({form0})", sig="history:vqe-rdm:earlier-result-changed")
            if kept:
                labels.add("earlier-results-recompared")
            kept.append((pos, form, flat(g1, g2), [np.array(a, copy=True) for a in flat(g1, g2)]))
            if float(np.max(np.abs(np.imag(psi)))) > 1e-6:
                labels.add("complex-amplitudes")
        forms = [f for _, f, _, _ in kept]
        if forms.count("spin-resolved") >= 2:
            labels.add("two-spin-resolved-calls")
        if len({k for k, _ in case["seq"]}) < len(case["seq"]):
            labels.add("repeated-theta")
        return True, labels

    ctx.search("history_vqe", vqe_history_cases(), body_vqe, frac=0.3)

    # one classical solver object used again after the molecule's orbitals were changed through the public setter
    @st.composite
    def reuse_cases(draw):
        solver = draw(st.sampled_from(["FCI", "FCI", "CCSD"]))
        mol = draw(H.molecules(max_active=5, min_active=2, refs=("rhf", "rohf"), frozen_prob=0.5))
        g = st.tuples(st.integers(0, 7), st.integers(0, 7), st.floats(-3.1, 3.1).map(lambda x: round(x, 3)))
        return {"mol": mol, "solver": solver, "givens": [list(x) for x in draw(st.lists(g, min_size=1, max_size=5))]}

    def rotate(mo, cols, givens):
        """columns `cols` of mo times a product of plane rotations (indices taken modulo len(cols))"""
        mo = np.array(mo, dtype=float, copy=True)
        k = len(cols)
        U = np.eye(k)
        for i, j, th in givens:
            if k < 2:
                continue
            i, j = i % k, (j % k if j % k != i % k else (i + 1) % k)
            G = np.eye(k)
            G[i, i] = G[j, j] = np.cos(th)
            G[i, j], G[j, i] = -np.sin(th), np.sin(th)
            U = U @ G
        mo[:, cols] = mo[:, cols] @ U
        return mo, bool(k >= 2 and float(np.max(np.abs(U - np.eye(k)))) > 1e-6)

    def body_reuse(case):
        from tangelo.algorithms.classical import FCISolver, CCSDSolver
        mcase = case["mol"]
        mol = H.get_molecule(mcase, ctx.rec, fresh=True)          # private mean field: mo_coeff is going to be replaced
        which = case["solver"]
        tol = TOL_E if which == "FCI" else TOL_CC
        labels = mol_labels(mcase, mol) | {"solver=" + which}

        def run(sol, what):
            e = sol.simulate()
            g1, g2 = sol.get_rdm()
            if which == "CCSD" and not (sol.solver.cc_fragment.converged and sol.solver.cc_fragment.converged_lambda):
                return None
            e_r = mol.energy_from_rdms(g1, g2)
            if abs(e_r - e) > tol:
                raise Fail(f"{what}: energy_from_rdms with the molecule's current orbitals = {e_r!r}, solver energy {e!r}", sig=f"history:{what}:energy")
            tr = float(np.real(np.trace(g1)))
            if abs(tr - mol.n_active_electrons) > 1e-7:
                raise Fail(f"{what}: tr gamma = {tr}", sig=f"history:{what}:trace")
            check_hermitian(mol, g1, g2, f"history:{what}")
            if mol.frozen_mos is not None:
                pad_and_check(mol, mcase, g1, g2, e, tol, f"history:{what}")
            else:
                check_full_space(mol, mcase, g1, g2, e, tol, f"history:{what}")
            return e

        ne, n_act = mol.n_active_electrons, mol.n_active_mos
        if which == "CCSD" and (ne < 2 or n_act < 2):
            raise Skip("CCSD needs at least two electrons in two orbitals")
        sol = (FCISolver if which == "FCI" else CCSDSolver)(mol)
        e0 = run(sol, "solver-first-run")
        if e0 is None:
            raise Skip("CCSD not converged")
        if which == "FCI":
            new, moved = rotate(mol.mo_coeff, list(mol.active_mos), case["givens"])      # FCI: any rotation of the active space
        else:
            # CCSD is invariant under rotations among doubly occupied and among virtual active orbitals
            docc = [i for i in mol.active_occupied if mol.mo_occ[i] == 2]
            new, m1 = rotate(mol.mo_coeff, docc, case["givens"])
            new, m2 = rotate(new, list(mol.active_virtual), case["givens"])
            moved = m1 or m2
        mol.mo_coeff = new
        labels.add("orbitals-rotated" if moved else "rotation-trivial")
        # re-use after a setter change is what the unchanged tree supports for the full-space FCI branch and for CCSD (both
        # read the shared mean field at simulate()); the CAS branch of FCISolverPySCF builds its integrals at construction
        reuse_supported = not (which == "FCI" and mol.frozen_mos is not None)
        if reuse_supported:
            e1 = run(sol, "solver-reused-after-mo_coeff-change")
            if e1 is not None and abs(e1 - e0) > tol:
                # not a C13 clause: the property speaks about each solver run's own energy and RDMs (checked inside run()).
                # Seen in the thorough tier: FCISolver may return different roots of a degenerate sector on successive
                # runs (see the C04 known finding on exactly degenerate ground levels), so this is only labelled.
                labels.add("energy-differs-after-invariant-rotation(not asserted)")
            labels.add("solver-reused")
        else:
            labels.add("fci-cas-reuse-not-asserted")
        fresh_sol = (FCISolver if which == "FCI" else CCSDSolver)(mol)
        e2 = run(fresh_sol, "fresh-solver-after-mo_coeff-change")
        if e2 is not None and abs(e2 - e0) > tol:
            labels.add("fresh-solver:energy-differs-after-invariant-rotation(not asserted)")
        return moved, labels

    ctx.search("history_reuse", reuse_cases(), body_reuse, frac=0.3)
