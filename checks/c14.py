"""C14 - qubit-reduction techniques keep the eigenvalue they are meant to keep: Z2 tapering, trimming of trivial qubits,
Frobenius-norm compression."""
from math import pi, sqrt

import numpy as np
from hypothesis import strategies as st

from vlib.runner import part, Fail, Skip
from vlib import refsim as R, refops, h_mol as M, strategies as S

PROPERTY = "C14"
RULE = ("(a) tapering: Hypothesis-generated molecules (vlib/h_mol: hydrogen systems and ions, HeH+, He2+, LiH, H2O, BeH2; generic "
        "3-D and exactly symmetric geometries; RHF/ROHF/UHF; frozen orbitals) x JW/BK/JKMN x both orderings; dense spectra of "
        "the original and the tapered operator; on the first configuration the same QubitTapering object then tapers a second "
        "operator a*H+b*I (same Pauli words, other coefficients) and H again; non-trivial = >=2 symmetries found and >=1 qubit "
        "left. (b) trimming: circuits assembled from idle qubits, lone qubits with one, two or three gates drawn independently "
        "from X,Y,Z,H,S,T,RX/RY/RZ/PHASE (generic angles, odd/even multiples of pi, 1e-3 off those; every ordered pair class "
        "counted by label) and entangled blocks, with random Pauli operators; oracle = reference statevector simulator; "
        "non-trivial = >=1 trimmed and >=1 kept qubit and the operator touches both. (c) compression: real Pauli sums on "
        "1..6 qubits, random and coefficient-aligned (c*prod(I+-Z_i) plus large terms), epsilon placed around the cumulative-"
        "norm profile; oracle = sorted dense eigenvalues (Weyl pairing); non-trivial = >=1 term removed. Distinct = distinct "
        "canonical JSON of the case.")
ASSUMPTIONS = ["numpy linear algebra", "PySCF SCF (molecule generation only)", "vlib/refsim reference simulator and Pauli matrices",
               "(N,Sz) sector of the original qubit Hamiltonian selected as in C04 (Tangelo's encoded number / spin-z operators)",
               "tapering: retention of the sector ground energy is asserted when that state carries the reference determinant's "
               "Z2 labels (always the case when only the two parity symmetries exist); otherwise counted as precondition_not_met",
               "trim_trivial_operator with a user dictionary: asserted for dictionaries in any insertion order and both reindex "
               "settings (arbitrary order with reindex=True was wrong on the pinned tree and is repaired by fix 733b644)",
               "tapering bounded to <=8 qubits (quick) / <=10 qubits (thorough); trimming <=6 qubits; compression <=6 qubits"]
SHARDS = {"quick": 4, "thorough": 16}

TOL = 1e-6
TAPER_CONFIGS = [[m, u] for m in ("JW", "BK", "JKMN") for u in (False, True)]
IDLE_SIG = "taper:idle-register-qubit"


def padded_register(c):
    """Exclusion predicate for IDLE_SIG: UHF with different numbers of active alpha and beta orbitals (the register is
    then padded with spin-orbitals that carry no integrals, i.e. qubits the Hamiltonian never touches)."""
    m = c["mol"]
    fr = m["frozen"]
    return bool(m["uhf"]) and isinstance(fr, list) and len(fr) == 2 and isinstance(fr[0], list) and len(set(fr[0])) != len(set(fr[1]))


def selftest():
    R.selftest()
    refops.selftest()
    M.selftest()
    # Weyl pairing sanity: removing c*Z from c*(I+Z) moves eigenvalues by exactly c
    a = np.linalg.eigvalsh(R.qop_matrix({(): 0.5, ((0, "Z"),): 0.5}, 1))
    b = np.linalg.eigvalsh(R.qop_matrix({(): 0.5}, 1))
    assert abs(np.max(np.abs(a - b)) - 0.5) < 1e-12


# ====================================================================================================== (a) tapering

def kernel_words(kernel, n):
    """Rows of the binary kernel ([x | z] layout) -> Pauli words as term tuples."""
    out = []
    for row in np.asarray(kernel).astype(int):
        w = []
        for q in range(n):
            x, z = row[q], row[q + n]
            if x or z:
                w.append((q, "X" if (x and not z) else "Z" if (z and not x) else "Y"))
        out.append(tuple(w))
    return out


def dense_spectrum(terms, n):
    if n == 0:
        return np.array([complex(terms.get((), 0)).real]), 0.0
    Mx = M.columns(terms, n, list(range(2 ** n)))
    herm = float(np.max(np.abs(Mx - Mx.conj().T)))
    return np.linalg.eigvalsh((Mx + Mx.conj().T) / 2), herm


def check_tapering(ctx, case):
    mcase = case["mol"]
    mol = M.build_molecule(mcase)
    p = M.partition(mcase, mol)
    n, ne, sp = mol.n_active_sos, mol.n_active_electrons, mol.active_spin
    if n > case["max_qubits"]:
        raise Skip("harness bound: too many qubits")
    labels = {"ref=" + ("uhf" if mcase["uhf"] else "rohf" if mcase["spin"] else "rhf"), "family=" + mcase["family"], f"qubits={n}",
              "frozen" if mcase["frozen"] not in (None, 0) else "no-frozen", "open-shell" if sp else "closed-shell"}
    fop = mol.fermionic_hamiltonian
    nontrivial = False
    for k_cfg, (mapping, utd) in enumerate(tuple(c) for c in case["configs"]):
        H = M.qubit_hamiltonian(mol, mapping, utd, fop)
        idle = sorted(set(range(n)) - {q for t in H.terms for q, _ in t})
        if idle:
            labels.add("idle-register-qubit")
        try:
            nontrivial |= taper_one(ctx, H, mol, p, n, ne, sp, mapping, utd, labels, scale=case.get("scale") if k_cfg == 0 else None)
        except Fail as f:
            if idle or padded_register(case):
                # one root cause: the padded UHF register holds spin-orbitals without any integral. Besides Z-type
                # occupation parity, the Majorana operator of such a mode commutes with H, so the symmetry kernel is
                # non-abelian (under JW/BK/JKMN alike) and tapering picks incompatible generators: one signature.
                raise Fail(f.msg + f" [padded UHF register; untouched register qubits {idle}; original signature {f.sig}]",
                           sig=IDLE_SIG, **f.details) from None
            raise
    return nontrivial, labels


def _op_diff(a, b):
    return max((abs(a.terms.get(k, 0) - b.terms.get(k, 0)) for k in set(a.terms) | set(b.terms)), default=0.0)


def second_operator(tap, H, Ht, n, nt, ne, sp, mapping, utd, scale, tag, labels):
    """History on ONE QubitTapering object: taper a second operator with the same Pauli words (same order) but other
    coefficients, H2 = a*H + b*I, then the first one again. Judged as the first: spectrum inclusion in H2's spectrum,
    equality with a fresh QubitTapering(H2).z2_tapered_op, inputs untouched; the repeated call must repeat its answer."""
    from tangelo.toolboxes.operators import QubitOperator
    from tangelo.toolboxes.operators.taper_qubits import QubitTapering
    if not scale:
        return
    a, b = scale
    H2 = QubitOperator()
    H2.terms = {t: a * c + (b if t == () else 0.0) for t, c in H.terms.items()}      # same words, same order
    if () not in H2.terms:
        H2.terms[()] = b
    terms2, terms1 = dict(H2.terms), dict(H.terms)
    T2 = tap.z2_tapering(H2, n)
    if dict(H2.terms) != terms2 or dict(H.terms) != terms1:
        raise Fail(f"{tag}: z2_tapering modified an operator it was given", sig="taper:input-mutated")
    spec2, _ = dense_spectrum(H2.terms, n)
    spec_t2, herm2 = dense_spectrum(T2.terms, nt)
    tol = TOL * max(1.0, abs(a))
    far = [float(x) for x in spec_t2 if np.min(np.abs(spec2 - x)) > tol]
    if far or herm2 > tol:
        raise Fail(f"{tag}: second operator H2 = {a}*H + {b} tapered with the same QubitTapering object: {len(far)} of {len(spec_t2)} "
                   f"eigenvalues are not eigenvalues of H2 (e.g. {far[0] if far else None}; non-Hermiticity {herm2:.1e})",
                   sig="taper:second-operator-spectrum")
    fresh = QubitTapering(H2, n, ne, sp, mapping, utd).z2_tapered_op.qubitoperator
    if _op_diff(T2, fresh) > 1e-9 * max(1.0, abs(a), abs(b)):
        raise Fail(f"{tag}: z2_tapering(H2) on a used QubitTapering object differs from a fresh QubitTapering(H2).z2_tapered_op "
                   f"(max coefficient difference {_op_diff(T2, fresh):.3e})", sig="taper:second-operator-vs-fresh")
    again = tap.z2_tapering(H, n)
    if _op_diff(again, Ht) > 1e-9:
        raise Fail(f"{tag}: z2_tapering(H) after tapering another operator no longer returns its first answer "
                   f"(max coefficient difference {_op_diff(again, Ht):.3e})", sig="taper:repeat-call-differs")
    labels.add("second-operator-same-support")


def taper_one(ctx, H, mol, p, n, ne, sp, mapping, utd, labels, scale=None):
    from tangelo.toolboxes.operators.taper_qubits import QubitTapering
    from tangelo.toolboxes.operators import count_qubits
    from tangelo.toolboxes.qubit_mappings.statevector_mapping import get_reference_circuit
    nontrivial = False
    terms0 = dict(H.terms)
    tap = QubitTapering(H, n, ne, sp, mapping, utd)
    if dict(H.terms) != terms0:
        raise Fail("QubitTapering modified the operator it was given", sig="taper:input-mutated")
    nsym = int(tap.z2_properties["n_symmetries"])
    Ht = tap.z2_tapered_op.qubitoperator
    nt = int(tap.z2_tapered_op.n_qubits)
    tag = f"{mapping}/up_then_down={utd}"
    if nsym < 1 or nt >= n:
        raise Fail(f"{tag}: tapering found {nsym} symmetries; the operator is on {nt} qubits, not fewer than {n}", sig="taper:no-reduction")
    if Ht.terms and count_qubits(Ht) > nt:
        raise Fail(f"{tag}: tapered operator acts on qubit {count_qubits(Ht) - 1} but declares {nt} qubits", sig="taper:qubit-count")
    if nt != n - nsym:
        # seen when a register qubit is unused by the Hamiltonian (X_q and Z_q are then both in the kernel and the
        # same column is picked twice); the property only promises "fewer qubits", so this is recorded, not failed
        labels.add("n_symmetries-differs-from-removed-columns")
    # the same taper applied through the public method
    Ht2 = tap.z2_tapering(H, n)
    keys = set(Ht.terms) | set(Ht2.terms)
    if max((abs(Ht.terms.get(k, 0) - Ht2.terms.get(k, 0)) for k in keys), default=0) > 1e-9:
        raise Fail(f"{tag}: z2_tapering(H) differs from z2_tapered_op", sig="taper:method-vs-attribute")
    second_operator(tap, H, Ht, n, nt, ne, sp, mapping, utd, scale, tag, labels)

    # --- symmetry generators: commute with H, Z2 labels of the reference determinant
    words = kernel_words(tap.initial_op.kernel, n)
    if len(words) != nsym:
        labels.add("kernel-larger-than-tapered")
    for w in words:
        for t, c in H.terms.items():
            if abs(c) > 1e-7 and not refops.words_commute(w, t):
                raise Fail(f"{tag}: kernel element {w} does not commute with Hamiltonian term {t}", sig="taper:kernel-not-symmetry")
    ref = get_reference_circuit(n, ne, mapping, utd, sp)
    psi = R.run(S.circuit_to_recs(ref), n)
    k_ref = int(np.argmax(np.abs(psi)))
    ev_ref = [complex(M.basis_expectation({w: 1.0}, n, k_ref)).real for w in words]
    ev_t = [float(x) for x in np.asarray(tap.z2_properties["eigenvalues"]).reshape(-1)]
    diagonal_ref = all(abs(abs(e) - 1) < 1e-9 for e in ev_ref)
    if not diagonal_ref:
        labels.add("generator-not-diagonal-on-reference(idle register qubit)")
    elif len(ev_t) == len(ev_ref) and any(abs(a - b) > 1e-9 for a, b in zip(ev_t, ev_ref)):
        labels.add("tangelo-eigenvalues-differ-from-reference-labels")

    # --- spectra
    spec, herm = dense_spectrum(H.terms, n)
    spec_t, herm_t = dense_spectrum(Ht.terms, nt)
    if herm_t > TOL:
        raise Fail(f"{tag}: tapered operator is not Hermitian (|A-A^dag|={herm_t:.2e})", sig="taper:not-hermitian")
    far = [float(x) for x in spec_t if np.min(np.abs(spec - x)) > TOL]
    if far:
        raise Fail(f"{tag}: {len(far)} of {len(spec_t)} eigenvalues of the tapered operator are not eigenvalues of the original "
                   f"(e.g. {far[0]}, nearest original {float(spec[np.argmin(np.abs(spec - far[0]))])})", sig=f"taper:spectrum-inclusion:{mapping}",
                   n_symmetries=nsym)
    # --- sector ground state
    idx = M.sector_indices(mapping, n, ne, sp, utd, p["na"] + p["nb"], (p["na"] - p["nb"]) / 2)
    w_sec, v_sec, leak = M.sector_spectrum(H.terms, n, idx)
    if leak > TOL:
        raise Skip("harness: Hamiltonian does not conserve the sector")
    e0 = float(w_sec[0])
    deg = int(np.sum(np.abs(w_sec - e0) < 1e-7))
    gs = np.zeros(2 ** n, dtype=complex)
    gs[idx] = v_sec[:, 0]
    shares = diagonal_ref
    for w, ev in zip(words, ev_ref):
        col = M.columns({w: 1.0}, n, idx) @ v_sec[:, 0]
        if abs(np.vdot(gs, col) - ev) > 1e-6:
            shares = False
    retained = float(np.min(np.abs(spec_t - e0))) <= TOL
    if shares:
        labels.add("sector-ground-state-shares-labels")
        if not retained:
            raise Fail(f"{tag}: lowest eigenvalue {e0} of the (N={ne},Sz={sp / 2}) sector is not an eigenvalue of the tapered operator "
                       f"(nearest {float(spec_t[np.argmin(np.abs(spec_t - e0))])}, {nsym} symmetries)", sig=f"taper:sector-ground-lost:{mapping}")
    elif nsym <= 2 and deg == 1 and diagonal_ref:
        raise Fail(f"{tag}: only the parity symmetries were found but the sector ground state does not carry the reference labels "
                   f"{ev_ref} under {words}", sig="taper:parity-labels")
    else:
        ctx.rec.count("taper:precondition_not_met(ground state in another symmetry sector or degenerate)")
        labels.add("precondition-not-met")
    labels.add(f"nsym={nsym}" if nsym < 5 else "nsym>=5")
    labels.add(f"mapping={mapping}")
    if any(p_ != "Z" for w in words for _, p_ in w):
        labels.add("generator-with-X/Y")
    if nsym >= 2 and nt >= 1:
        nontrivial = True
    if nsym > 2:
        labels.add("spatial-symmetry")
    return nontrivial


@st.composite
def taper_cases(draw, mols, max_qubits):
    mag = st.floats(0.3, 2.5, allow_nan=False).map(lambda x: round(x, 3)).filter(lambda x: abs(x - 1) > 0.02)
    return {"mol": draw(mols), "max_qubits": max_qubits,
            "configs": draw(st.lists(st.sampled_from(TAPER_CONFIGS), min_size=3, max_size=3, unique_by=tuple)),
            "scale": [draw(mag) * draw(st.sampled_from([1, 1, -1])), round(draw(st.floats(-1, 1, allow_nan=False)), 3)]}


@part("tapering", quick=32, thorough=1200)
def tapering(ctx):
    mq = 8 if ctx.tier == "quick" else 10
    kept = 5 if ctx.tier == "quick" else 6
    # the padded UHF register (open finding IDLE_SIG) has its own small search below; the main searches stay outside it by
    # construction, so that no budget is spent shrinking a known failure
    not_padded = lambda m: not padded_register({"mol": m})
    generic = M.molecules(max_qubits=mq, max_kept=kept, invalid=False,
                          families=["H3", "H4-3d", "HeH", "LiH", "BeH2", "H2O", "H4-ring"]).filter(not_padded)
    symmetric = M.molecules(max_qubits=mq, max_kept=kept, invalid=False, exact_symmetry=True,
                            families=["H2", "H4-chain", "H4-ring", "LiH", "H2O", "BeH2"]).filter(not_padded)
    sc = 20 if ctx.tier == "quick" else 200
    ex = {IDLE_SIG: padded_register}
    ctx.search("generic", taper_cases(generic, mq), lambda c: check_tapering(ctx, c), frac=0.5, shrink_calls=sc, exclusions=ex)
    ctx.search("symmetric", taper_cases(symmetric, mq), lambda c: check_tapering(ctx, c), frac=0.4, shrink_calls=sc, exclusions=ex)
    padded = M.molecules(max_qubits=8, max_kept=4, invalid=False, refs=("uhf",), bases=("sto-3g",),
                         families=["H2", "H3", "H4-chain", "H4-3d"]).filter(lambda m: padded_register({"mol": m}))
    ctx.search("padded", taper_cases(padded, 8), lambda c: check_tapering(ctx, c), frac=0.1,
               shrink_calls=6 if ctx.tier == "quick" else 60)


# ====================================================================================================== (b) trimming

def _near_odd_pi(theta):
    """Distance of theta from the closest odd multiple of pi."""
    return abs((theta % (2 * pi)) - pi)


@st.composite
def _angle(draw):
    """Generic angles, exact multiples of pi (odd and even), and angles 1e-3 away from those.  Angles closer than 5e-4
    to an odd multiple of pi without being one (to rounding) are not generated: Tangelo documents a 1e-5 tolerance for
    'bit flip' rotations, inside which <X>/<Y> legitimately change by O(tolerance)."""
    kind = draw(st.integers(0, 3))
    if kind == 0:
        th = round(draw(st.floats(-7, 7, allow_nan=False)), 4)
        if 1e-12 < _near_odd_pi(th) < 5e-4:
            th += 0.01
        return th
    k = draw(st.integers(-4, 4))
    if kind in (1, 2):
        return k * pi
    return k * pi + draw(st.sampled_from([1e-3, -1e-3]))


@st.composite
def _sq_gate(draw):
    """One single-qubit gate; the class (see gate_class) is drawn first so that every ordered pair of classes is reached."""
    cls = draw(st.sampled_from(["F", "P", "F", "P", "E", "N", "R", "Yf", "Ry", "o"]))
    odd = (2 * draw(st.integers(-2, 2)) + 1) * pi
    if cls == "F":
        return draw(st.sampled_from([{"n": "X", "p": None}, {"n": "RX", "p": odd}]))
    if cls == "P":
        return draw(st.sampled_from([{"n": "Z", "p": None}, {"n": "RZ", "p": draw(_angle())}]))
    if cls == "E":
        return {"n": "RX", "p": 2 * draw(st.integers(-2, 2)) * pi}
    if cls == "N":
        return {"n": "RX", "p": draw(st.integers(-4, 4)) * pi + draw(st.sampled_from([1e-3, -1e-3]))}
    if cls == "R":
        th = round(draw(st.floats(-7, 7, allow_nan=False)), 4)
        if abs(th / pi - round(th / pi)) * pi < 5e-3:
            th += 0.05
        return {"n": "RX", "p": th}
    if cls == "Yf":
        return draw(st.sampled_from([{"n": "Y", "p": None}, {"n": "RY", "p": odd}]))
    if cls == "Ry":
        th = draw(_angle())
        return {"n": "RY", "p": th + (0.05 if _near_odd_pi(th) < 1e-9 else 0.0)}
    nm = draw(st.sampled_from(["H", "S", "T", "PHASE"]))
    return {"n": nm, "p": draw(_angle()) if nm == "PHASE" else None}


def gate_class(g):
    """Class of a single-qubit gate for the reach labels: F = X-type flip (X, RX(odd pi)), P = Z-type phase (Z, RZ),
    E = RX(even pi), N = RX within 1e-3 of a multiple of pi, R = RX generic, Yf = Y / RY(odd pi), Ry = other RY, o = H/S/T/PHASE."""
    nm, p = g["n"], g["p"]
    if nm == "X" or (nm == "RX" and _near_odd_pi(p) < 1e-9):
        return "F"
    if nm in ("Z", "RZ"):
        return "P"
    if nm == "RX":
        m = abs(p / pi - round(p / pi)) * pi
        return "E" if m < 1e-9 else "N" if m < 2e-3 else "R"
    if nm == "Y" or (nm == "RY" and _near_odd_pi(p) < 1e-9):
        return "Yf"
    if nm == "RY":
        return "Ry"
    return "o"


@st.composite
def trim_cases(draw, max_width=6):
    n = draw(st.integers(1, max_width))
    roles = [draw(st.sampled_from(["idle", "one", "one", "pair", "pair", "pair", "three", "ent", "ent"])) for _ in range(n)]
    comps = []   # list of gate lists (each a queue kept in order)
    ent = [q for q in range(n) if roles[q] == "ent"]
    for q, r in enumerate(roles):
        if r == "one":
            g = [draw(_sq_gate())]
        elif r == "pair":
            g = [draw(_sq_gate()), draw(_sq_gate())]        # both gates drawn independently from the full set
        elif r == "three":
            g = [draw(_sq_gate()), draw(_sq_gate()), draw(_sq_gate())]
        elif r == "ent" and len(ent) < 2:
            g = [{"n": "H", "p": None}]
        else:
            g = []
        if g:
            comps.append([{"n": x["n"], "t": [q], "c": None, "p": x["p"]} for x in g])
    if len(ent) >= 2:
        block = []
        for _ in range(draw(st.integers(1, 4))):
            a, b = draw(st.permutations(ent))[:2]
            nm = draw(st.sampled_from(["CNOT", "CZ", "XX", "SWAP", "CRZ", "H", "RY", "X", "RZ"]))
            if nm in ("CNOT", "CZ", "CRZ"):
                block.append({"n": nm, "t": [a], "c": [b], "p": 0.8 if nm == "CRZ" else None})
            elif nm in ("XX", "SWAP"):
                block.append({"n": nm, "t": [a, b], "c": None, "p": 0.6 if nm == "XX" else None})
            else:
                block.append({"n": nm, "t": [a], "c": None, "p": 1.1 if nm in ("RY", "RZ") else None})
        comps.append(block)
    order = draw(st.permutations([i for i, c in enumerate(comps) for _ in c]))
    queues = [list(c) for c in comps]
    gates = [queues[i].pop(0) for i in order]
    op = draw(S.qubit_ops(n, max_terms=6))
    return {"gates": gates, "nq": n, "op": op}


def check_trim(case):
    from tangelo.toolboxes.operators.trim_trivial_qubits import trim_trivial_qubits
    n = case["nq"]
    circ = S.build_circuit(case)
    if circ.width != n:
        raise Fail(f"Circuit width {circ.width}, expected {n}", sig="trim:width")
    op = S.build_qubit_op(case["op"])
    terms = S.op_terms(case["op"])
    before_gates, before_terms = S.circuit_to_recs(circ), dict(op.terms)
    psi = R.run(case["gates"], n)
    e_ref = R.qop_expectation(terms, psi, n)
    op_t, circ_t = trim_trivial_qubits(op, circ)
    if S.circuit_to_recs(circ) != before_gates or dict(op.terms) != before_terms:
        raise Fail("trim_trivial_qubits modified its inputs", sig="trim:input-mutated")
    recs = S.circuit_to_recs(circ_t)
    n_t = circ_t.width
    used = 1 + max([q for t in op_t.terms for q, _ in t], default=-1)
    if used > n_t:
        raise Fail(f"trimmed operator acts on qubit {used - 1}, trimmed circuit has {n_t} qubits", sig="trim:operator-wider-than-circuit")
    psi_t = R.run(recs, n_t) if n_t > 0 else np.array([1.0 + 0j])
    e_t = R.qop_expectation(dict(op_t.terms), psi_t, n_t) if n_t > 0 else complex(op_t.terms.get((), 0))
    scale = 1 + sum(abs(c) for c in terms.values())
    if abs(e_t - e_ref) > 1e-8 * scale:
        raise Fail(f"<O> = {e_ref} on the original circuit, {e_t} after trimming ({n} -> {n_t} qubits)", sig="trim:expectation",
                   trimmed_gates=recs, trimmed_op=[[list(map(list, t)), complex(c).real, complex(c).imag] for t, c in op_t.terms.items()])
    n_trim = n - n_t
    # classification only: which qubits were trimmed and in which state (Tangelo's own report)
    from tangelo.toolboxes.operators.trim_trivial_qubits import trim_trivial_circuit
    _, states = trim_trivial_circuit(S.build_circuit(case))
    trimmed_q, kept_q = set(states), set(range(n)) - set(states)
    if len(trimmed_q) != n_trim:
        raise Fail(f"{len(trimmed_q)} qubits reported trimmed, circuit width went {n} -> {n_t}", sig="trim:width-bookkeeping")
    labels = {f"trimmed={min(n_trim, 4)}", f"kept={min(n_t, 4)}"}
    per_q = {q: [g for g in case["gates"] if q in g["t"] + (g["c"] or [])] for q in range(n)}
    touched = {q for t in terms for q, _ in t}
    for q in range(n):
        gl = per_q[q]
        tag = "trimmed" if q in trimmed_q else "kept"
        if not gl:
            labels.add(f"{tag}:idle")
        elif all(len(g["t"]) == 1 and not g["c"] for g in gl):
            cls = [gate_class(g) for g in gl]
            shape = {1: "one:", 2: "pair:"}.get(len(cls), "three+")
            labels.add(f"{tag}:{shape}{','.join(cls) if len(cls) <= 2 else ''}" + (f"->|{states[q]}>" if q in trimmed_q else ""))
        else:
            labels.add(f"{tag}:entangled")
    if n_t == 0:
        labels.add("fully-trimmed")
    nontrivial = bool(trimmed_q and kept_q and (touched & trimmed_q) and (touched & kept_q))
    return nontrivial, labels


CLASS_REPS = {"F": [{"n": "X", "p": None}, {"n": "RX", "p": -3 * pi}], "P": [{"n": "Z", "p": None}, {"n": "RZ", "p": 0.7}],
              "E": [{"n": "RX", "p": 2 * pi}, {"n": "RX", "p": 0.0}], "N": [{"n": "RX", "p": pi + 1e-3}, {"n": "RX", "p": 2 * pi - 1e-3}],
              "R": [{"n": "RX", "p": 0.3}, {"n": "RX", "p": pi / 2}], "Yf": [{"n": "Y", "p": None}, {"n": "RY", "p": pi}],
              "Ry": [{"n": "RY", "p": 1.1}, {"n": "RY", "p": 2 * pi}], "o": [{"n": "H", "p": None}, {"n": "PHASE", "p": 0.4}]}


def pair_sweep_cases():
    """Every ordered pair of single-qubit gate classes (8 x 8, two representatives each) on a lone qubit 0, next to a
    kept qubit 1 (H) and an idle qubit 2; fixed operator touching all of them."""
    op = [[[[0, "Z"]], 1.0, 0.0], [[[0, "X"]], 0.7, 0.0], [[[0, "Y"]], -0.4, 0.0], [[[0, "Z"], [1, "X"]], 0.5, 0.0],
          [[[0, "X"], [1, "X"], [2, "Z"]], 0.3, 0.0], [[[1, "Z"], [2, "Z"]], -0.2, 0.0], [[], 0.25, 0.0]]
    out = []
    for c0, r0 in CLASS_REPS.items():
        for c1, r1 in CLASS_REPS.items():
            for g0 in r0:
                for g1 in r1:
                    gates = [{"n": g0["n"], "t": [0], "c": None, "p": g0["p"]}, {"n": "H", "t": [1], "c": None, "p": None},
                             {"n": g1["n"], "t": [0], "c": None, "p": g1["p"]}]
                    out.append({"gates": gates, "nq": 3, "op": op})
    return out


# --- trim_trivial_operator called directly with a user dictionary

ASSERT_UNORDERED_REINDEX = True   # (was False until fix 733b644 landed)


@st.composite
def trim_operator_cases(draw, max_n=6):
    n = draw(st.sampled_from([1, 2, 3, 3, 4, 4, 5, 5, 6, 6]))
    m = draw(st.integers(min(2, n), max(min(2, n), n - draw(st.sampled_from([0, 1, 1, 2, 2])))))
    qs = list(draw(st.permutations(list(range(n))))[:m])                 # insertion order = drawn order
    if draw(st.sampled_from([False, False, False, True])):
        qs = sorted(qs)
    trim = [[q, draw(st.sampled_from([0, 1]))] for q in qs]
    return {"n": n, "op": draw(S.qubit_ops(n, max_terms=8)), "trim": trim, "reindex": draw(st.booleans()),
            "pass_n": draw(st.booleans()), "kept_state": draw(S.statevectors(n - len(qs), allow_none=False))}


def check_trim_operator(ctx, case):
    from tangelo.toolboxes.operators.trim_trivial_qubits import trim_trivial_operator
    n, reindex = case["n"], case["reindex"]
    trim_states = {int(q): int(s) for q, s in case["trim"]}          # python dicts keep insertion order
    order0 = list(trim_states.items())
    kept = [q for q in range(n) if q not in trim_states]
    k = len(kept)
    op = S.build_qubit_op(case["op"])
    terms = S.op_terms(case["op"])
    terms0 = dict(op.terms)
    # n_qubits may be left out only when the operator itself reaches the top qubit (otherwise it cannot be inferred;
    # the function documents count_qubits(qu_op) as the default)
    from tangelo.toolboxes.operators import count_qubits
    pass_n = case["pass_n"] or count_qubits(op) != n
    out = trim_trivial_operator(op, trim_states, n if pass_n else None, reindex)
    if list(trim_states.items()) != order0 or dict(op.terms) != terms0:
        raise Fail("trim_trivial_operator modified its arguments", sig="trim-operator:input-mutated")
    psi_k = S.build_statevector(case["kept_state"], k)
    full = np.zeros([2] * n, dtype=complex)
    full[tuple(trim_states[q] if q in trim_states else slice(None) for q in range(n))] = psi_k.reshape([2] * k) if k else psi_k[0]
    psi = full.reshape(-1)
    e_ref = R.qop_expectation(terms, psi, n)
    out_terms = dict(out.terms)
    touched = {q for t in out_terms for q, _ in t}
    ordered = [q for q, _ in case["trim"]] == sorted(trim_states)
    labels = {"ordered-dict" if ordered else "unordered-dict", f"reindex={reindex}", "n_qubits-given" if pass_n else "n_qubits-inferred",
              "mixed-states" if len(set(trim_states.values())) > 1 else "equal-states", f"kept={min(k, 3)}"}
    asserted = ordered or not reindex or ASSERT_UNORDERED_REINDEX
    bad = None
    if reindex:
        if touched and max(touched) >= k:
            bad = f"reindexed operator acts on qubit {max(touched)} but only {k} qubits are kept"
        else:
            e_t = (R.qop_expectation(out_terms, psi_k, k) if k else complex(out_terms.get((), 0)))
    else:
        if touched & set(trim_states):
            bad = f"operator still acts on trimmed qubits {sorted(touched & set(trim_states))}"
        else:
            e_t = R.qop_expectation(out_terms, psi, n)
    if bad is None and abs(e_t - e_ref) > 1e-8 * (1 + sum(abs(c) for c in terms.values())):
        bad = f"<O>={e_ref} on the full product state, {e_t} with the trimmed operator"
    if bad:
        if not asserted:
            ctx.rec.count("trim-operator:unordered-dict+reindex=True wrong (not asserted, see ASSUMPTIONS)")
            labels.add("unordered+reindex:wrong(not asserted)")
            return False, labels
        raise Fail(f"trim_trivial_operator(trim_states={trim_states}, n_qubits={n if pass_n else None}, reindex={reindex}): {bad}",
                   sig="trim-operator:" + ("ordered" if ordered else "unordered") + f":reindex={reindex}")
    nontrivial = bool(kept) and any(q in trim_states for t in terms for q, _ in t) and any(q in kept for t in terms for q, _ in t)
    return nontrivial, labels


@part("trim_operator", quick=300, thorough=10000)
def trim_operator(ctx):
    ctx.search("trim_operator", trim_operator_cases(6), lambda c: check_trim_operator(ctx, c))


@part("trimming_pairs", quick=256, thorough=256)
def trimming_pairs(ctx):
    ctx.sweep("pairs", pair_sweep_cases(), check_trim)


@part("trimming", quick=400, thorough=20000)
def trimming(ctx):
    ctx.search("trimming", trim_cases(6 if ctx.tier == "quick" else 7), check_trim)


# ====================================================================================================== (c) compression

MULTS = [0.9, 0.72, 0.8, 0.97, 0.999, 1.001, 1.05, 1.3, 1.42, 2.0, 5.0, 0.6, 0.3, 0.0]


@st.composite
def compression_cases(draw, max_n=6):
    n = draw(st.integers(1, max_n))
    coef = st.one_of(st.floats(1e-3, 2.0, allow_nan=False), st.floats(-2.0, -1e-3, allow_nan=False)).map(lambda x: round(x, 5))
    kind = draw(st.sampled_from(["random", "aligned", "aligned+large", "equal-small+large"]))
    op = {}
    if kind == "random":
        for t in draw(st.lists(S.pauli_terms(n), min_size=1, max_size=10, unique_by=lambda t: tuple(map(tuple, t)))):
            op[tuple(map(tuple, t))] = draw(coef)
    else:
        c = abs(draw(coef)) * draw(st.sampled_from([1.0, 0.1, 0.01]))
        qs = list(range(n)) if kind != "equal-small+large" and draw(st.booleans()) else \
            sorted(draw(st.lists(st.integers(0, n - 1), unique=True, min_size=1, max_size=n)))
        signs = [draw(st.sampled_from([1, -1])) for _ in qs]
        letter = draw(st.sampled_from(["Z", "Z", "X"]))
        # c * prod_i (I + s_i P_i) expanded
        for mask in range(2 ** len(qs)):
            word, sg = [], 1
            for j, q in enumerate(qs):
                if (mask >> j) & 1:
                    word.append((q, letter))
                    sg *= signs[j]
            op[tuple(word)] = c * sg
        if kind != "aligned":
            for t in draw(st.lists(S.pauli_terms(n, min_weight=1), min_size=1, max_size=4, unique_by=lambda t: tuple(map(tuple, t)))):
                k = tuple(map(tuple, t))
                if k not in op:
                    op[k] = draw(st.sampled_from([1.0, -1.5, 3.0])) * max(1.0, 10 * c)
    items = sorted(op.items(), key=lambda kv: abs(kv[1]))
    cum = np.sqrt(np.cumsum([abs(v) ** 2 for _, v in items]))
    k = draw(st.integers(0, len(items) - 1))
    mult = draw(st.sampled_from(MULTS))
    eps = float(cum[k] * 2 ** (n / 2) * mult)
    return {"n": n, "kind": kind, "op": [[[list(f) for f in t], v, 0.0] for t, v in op.items()], "eps": eps}


def check_compression(case):
    from tangelo.toolboxes.operators import QubitOperator
    n, eps = case["n"], case["eps"]
    terms = S.op_terms(case["op"])
    op = S.build_qubit_op(case["op"])
    res = op.frobenius_norm_compression(eps, n)
    comp = op if res is None else res
    new = {t: c for t, c in comp.terms.items()}
    a = np.linalg.eigvalsh(R.qop_matrix(terms, n))
    b = np.linalg.eigvalsh(R.qop_matrix(new, n)) if new else np.zeros(2 ** n)
    shift = float(np.max(np.abs(a - b)))
    removed = len([t for t in terms if t not in new and abs(terms[t]) > 0])
    if shift > eps + 1e-9:
        raise Fail(f"n_qubits={n}: frobenius_norm_compression(epsilon={eps}) removed {removed} of {len(terms)} terms and moved an "
                   f"eigenvalue by {shift}", sig="frobenius:shift>epsilon:" + ("odd-n" if n % 2 else "even-n"))
    labels = {"odd-n" if n % 2 else "even-n", "kind=" + case["kind"], "eps=0" if eps == 0 else "eps>0",
              "removed=0" if removed == 0 else "removed=all" if not new else "removed=some"}
    if removed and shift > 0.7 * eps:
        labels.add("bound-nearly-tight")
    return removed >= 1, labels


@part("compression", quick=600, thorough=30000)
def compression(ctx):
    ctx.search("compression", compression_cases(6), check_compression)
