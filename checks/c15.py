"""C15 - problem-decomposition identities: ONIOM telescoping + link placement, DMET exact embedding / electron count /
relabelling invariance, method-of-increments summation to full order."""
import copy
import itertools
import json
import os
import tempfile

import numpy as np

from vlib.runner import part, Fail, Skip
from vlib import h_c15 as H

PROPERTY = "C15"
RULE = ("Hypothesis-generated plain-data cases. ONIOM: H2..H5(6) chains/zigzags/rings, H2O, NH3, LiH, HF, CH3, BeH2 "
        "with per-coordinate jitter, closed and open shell, system solver HF/CCSD/FCI x sto-3g/3-21g/6-31g; (a) 1-2 model "
        "fragments with identical high and low level (HF/CCSD/FCI/VQE), selection as count or index list in any order, "
        "0-2 links per model with factor in [0.3,1.5] and cap H/F/CH3/NH2 -> E must equal E_low(system) from PySCF; "
        "(b) model = whole system given as permuted index list / count / None, low and high solver and basis drawn "
        "independently -> E must equal E_high(system) from PySCF. Link.relink on random geometries with element, built-in "
        "group, custom group and (anti)parallel-aligned caps -> vector formula + rigid-motion/axis test. DMET: H4/H6 "
        "chains/zigzags/rings, charge 0/+-2, RHF singlets and ROHF triplets, sto-3g and 3-21g, meta-Lowdin/NAO/IAO, fci/ccsd/mixed solvers, "
        "fragmentations as counts or nested index lists in any order, optimizer = Newton(tol 1e-9), Newton + two further probes of the mismatch before returning the root, or default; run twice "
        "(original / atoms relabelled by a random permutation with fragment lists mapped, reordered) -> equal energies, "
        "electron-number residual ~0 and returned E = E re-evaluated at the returned chemical potential, and E = FCI(PySCF) whenever every fragment+bath has as many orbitals as the "
        "molecule. MI: complete synthetic QEMIST-style result dictionaries (2-5(6) centres, all orders up to kmax, random "
        "energies/corrections/labels, dict or log-file route, optional user_provided_energies) -> full order must equal "
        "the complete fragment's energy; lower kmax must equal the Moebius inclusion-exclusion sum. "
        "Non-trivial: ONIOM >=2 fragments on a jittered geometry with a model that is a proper subset or reordered, or "
        "different low/high levels; link factor != 1 on a skew bond; DMET >= 2 fragments on a jittered geometry with a "
        "non-identity relabelling; MI order >= 3. Distinct = distinct canonical JSON of the case.")
ASSUMPTIONS = ["PySCF AO integrals, SCF, CCSD and FCI called directly on the whole system are the reference energies "
               "(Tangelo's classical solvers wrap the same library; what is examined is the decomposition machinery)",
               "numpy linear algebra; Gram-matrix/triple-product characterisation of a proper rigid motion",
               "Moebius inversion over subsets written from the docstring definition of the increments",
               "DMET: closed-shell RHF and triplet ROHF molecules (open-shell DMET gives every fragment the molecule's spin, "
               "so odd-electron chains are outside its domain; UHF is not generated: FCI fragments are not offered for UHF "
               "and UHF-CCSD fragments cost seconds each); root-search "
               "non-convergence (RuntimeError 'Failed to converge') is a documented outcome and counted as "
               "rejected_by_contract; a single fragment covering the molecule makes the root search degenerate and is "
               "not generated",
               "cases whose reference SCF (or low-level CCSD) energies differ between the two atom orders by > 1e-7 Ha "
               "(several SCF solutions), whose reference SCF/CCSD does not converge, or whose mean field Tangelo refuses "
               "(ValueError 'Hartree-Fock calculation did not converge') are skipped and counted",
               "group caps whose bond is antiparallel (within 1e-6 rad) to the group's own axis: only position, rigidity and "
               "handedness are asserted, not the axis (scipy align_vectors is ill-conditioned there; the statement promises "
               "the position only)",
               "helium-containing systems are not generated (SecondQuantizedMolecule cannot be built for He on this tree)",
               "energies compared at 1e-6 Ha, link positions at 1e-7 A, MI sums at 1e-8 Ha"]
SHARDS = {"quick": 4, "thorough": 16}

ETOL = 1e-6


def selftest():
    # inclusion-exclusion oracle: a pairwise-additive energy is reproduced exactly at order 2 and at every higher order
    labels = [1, 3, 4, 7]
    a = {1: -0.11, 3: -0.23, 4: -0.05, 7: -0.4}
    b = {p: 0.01 * (i + 1) for i, p in enumerate(itertools.combinations(labels, 2))}
    emf = -10.0
    E = {}
    for k in range(1, 5):
        for S in itertools.combinations(labels, k):
            E[S] = emf + sum(a[i] for i in S) + sum(b[p] for p in itertools.combinations(S, 2))
    for k in (2, 3, 4):
        tot, eps = H.mi_expected(emf, E, labels, k)
        assert abs(tot - E[tuple(labels)]) < 1e-12, (k, tot)
    assert abs(H.mi_expected(emf, E, labels, 1)[0] - (emf + sum(a.values()))) < 1e-12
    assert all(abs(v) < 1e-12 for S, v in eps.items() if len(S) >= 3)
    # cap oracle: accepts a proper rigid motion with the axis on the bond, rejects reversed direction, mirror image, wrong factor
    geom = [["C", [0.1, 0.2, 0.3]], ["C", [1.1, -0.4, 0.9]], ["H", [2.0, 2.0, 2.0]]]
    ghost, atoms = H.group_atoms("CH3")
    d = np.array(geom[1][1]) - np.array(geom[0][1])
    ax = atoms[0][1] - ghost
    v = np.cross(ax, d)
    ang = np.arccos(ax @ d / np.linalg.norm(ax) / np.linalg.norm(d))
    R = H.rodrigues(v, ang) @ H.rodrigues(ax, 0.7)
    assert np.allclose(R @ ax / np.linalg.norm(ax), d / np.linalg.norm(d))
    tgt = H.link_target(geom, 0, 1, 0.8)
    good = [(el, tuple(R @ (x - atoms[0][1]) + tgt)) for el, x in atoms]
    assert H.check_cap(geom, 0, 1, 0.8, "CH3", good) is None
    rev = [(el, tuple(-(R @ (x - atoms[0][1])) + tgt)) for el, x in atoms]
    assert H.check_cap(geom, 0, 1, 0.8, "CH3", rev) is not None
    M2 = np.eye(3) - 2 * np.outer(v, v) / (v @ v)     # reflection keeping the bond axis: improper, axis still aligned
    mir = [(el, tuple(M2 @ R @ (x - atoms[0][1]) + tgt)) for el, x in atoms]
    assert "mirrored" in (H.check_cap(geom, 0, 1, 0.8, "CH3", mir) or "")
    assert H.check_cap(geom, 0, 1, 0.7, "CH3", good) is not None
    assert H.check_cap(geom, 1, 0, 0.8, "H", [("H", tuple(H.link_target(geom, 0, 1, 0.8)))]) is not None
    # energies: PySCF FCI agrees with the independent determinant-space oracle on a skew H4 chain
    from vlib import refchem
    g4 = [["H", [0.0, 0.0, 0.0]], ["H", [0.1, 0.0, 0.8]], ["H", [0.0, 0.2, 1.9]], ["H", [0.15, 0.1, 2.8]]]
    mf = H.pyscf_mf(g4, "sto-3g")
    e_ref, _ = refchem.ci_oracle(mf.mol, mf.mo_coeff, mf.mo_coeff, range(4), range(4), [], [], 2, 2)
    assert abs(H.energy(g4, "FCI", "sto-3g") - e_ref) < 1e-8
    assert H.energy(g4, "FCI", "sto-3g") < H.energy(g4, "CCSD", "sto-3g") + 1e-6 < H.energy(g4, "HF", "sto-3g")


def _ref(*a):
    """Reference energy; a reference that does not converge (CCSD on near-degenerate rings, SCF) means the identity's
    right-hand side is undefined for this input."""
    try:
        return H.energy(*a)
    except H.ReferenceUndefined as ex:
        raise Skip(str(ex))


def _peek(obj, path, default=None):
    """Read an internal attribute chain defensively: internals of a modified Tangelo may be absent, which must never
    turn into a harness error."""
    for name in path.split("."):
        obj = getattr(obj, name, None)
        if obj is None:
            return default
    return obj


def _tuples(geom):
    return [(a, tuple(float(v) for v in x)) for a, x in geom]


def _build_oniom(ONIOMProblemDecomposition, geometry, frs):
    """ONIOMProblemDecomposition builds every fragment's mean field; Tangelo refuses (explicit ValueError) when an SCF
    does not converge - a documented refusal, not a statement about the decomposition."""
    try:
        return ONIOMProblemDecomposition({"geometry": geometry, "fragments": frs})
    except ValueError as ex:
        if "Hartree-Fock calculation did not converge" in str(ex):
            raise Skip("mean-field-did-not-converge")
        raise


# ===================================================================================================== link placement

@part("link_placement", quick=300, thorough=8000)
def link_placement(ctx):
    from tangelo.problem_decomposition.oniom._helpers.helper_classes import Link

    def body(case):
        geom = _tuples(case["geom"])
        before = copy.deepcopy(geom)
        sp = case["species"]
        link = Link(case["staying"], case["leaving"], factor=case["factor"], species=copy.deepcopy(sp))
        out = link.relink(geom)
        if geom != before:
            raise Fail("Link.relink modified the geometry it was given", sig="relink:mutates-geometry")
        msg = H.check_cap(case["geom"], case["staying"], case["leaving"], case["factor"], sp, out)
        if msg:
            raise Fail(f"Link({case['staying']},{case['leaving']},factor={case['factor']},species={sp!r}).relink: {msg}",
                       sig=f"relink:{case['kind']}", out=[[a, [float(v) for v in x]] for a, x in out])
        d = np.array(case["geom"][case["leaving"]][1]) - np.array(case["geom"][case["staying"]][1])
        nontrivial = abs(case["factor"] - 1) > 1e-3 and np.all(np.abs(d) > 1e-3)
        labs = {"kind:" + case["kind"], "factor<1" if case["factor"] < 1 else "factor>=1"}
        if not isinstance(sp, str) or sp in ("CH3", "CF3", "NH2"):
            labs.add("group")
            if H.axis_nearly_antiparallel(case["geom"], case["staying"], case["leaving"], sp):
                labs.add("group:nearly-antiparallel-axis-not-asserted")
        return nontrivial, labs

    ctx.search("relink", H.link_cases(), body)


# ===================================================================================================== ONIOM

class _Problem:
    """The caller-owned argument objects of one ONIOM problem: the geometry (list of (symbol, (x, y, z)) or the
    "symbol x y z" text, both documented), one options dict per (slot id, content) - equal ids with equal content are
    the very same dict object, as when a user writes `opts = {...}` once and passes it to several levels / fragments -,
    selection lists and Link objects.  Fragments can be created from them any number of times, and the objects can
    be compared with a snapshot afterwards."""

    def __init__(self, geom, fmt, Link):
        self.geometry = copy.deepcopy(geom) if fmt == "list" else "\n".join(f"{a} {x!r} {y!r} {z!r}" for a, (x, y, z) in geom)
        self.pool, self.specs, self.Link = {}, [], Link

    def opt(self, slot, basis, frozen):
        key = (slot, basis, frozen)
        if key not in self.pool:
            self.pool[key] = {"basis": basis} if frozen is None else {"basis": basis, "frozen_orbitals": frozen}
        return self.pool[key]

    def add(self, solver_low, slot_low, basis_low, solver_high=None, slot_high=None, basis_high=None, frozen=None,
            sel=None, links=None, charge=0, spin=0):
        self.specs.append({"solver_low": solver_low, "low": (slot_low, basis_low, frozen), "solver_high": solver_high,
                           "high": (slot_high, basis_high, frozen), "sel": copy.deepcopy(sel), "charge": charge, "spin": spin,
                           "links": [self.Link(l["staying"], l["leaving"], factor=l["factor"], species=l["species"]) for l in links or []]})
        return len(self.specs) - 1

    def fragments(self, Fragment):
        out = []
        for sp in self.specs:
            kw = dict(solver_low=sp["solver_low"], options_low=self.opt(*sp["low"]), charge=sp["charge"], spin=sp["spin"])
            if sp["solver_high"] is not None:
                kw.update(solver_high=sp["solver_high"], options_high=self.opt(*sp["high"]))
            if sp["sel"] is not None:
                kw["selected_atoms"] = sp["sel"]
            if sp["links"]:
                kw["broken_links"] = sp["links"]
            out.append(Fragment(**kw))
        return out

    def state(self):
        for sp in self.specs:      # make sure every options dict exists before the snapshot
            self.opt(*sp["low"])
            if sp["solver_high"] is not None:
                self.opt(*sp["high"])
        return {"options": {repr(k): copy.deepcopy(v) for k, v in self.pool.items()},
                "geometry": copy.deepcopy(self.geometry),
                "selected_atoms": [copy.deepcopy(sp["sel"]) for sp in self.specs],
                "links": [[(l.staying, l.leaving, l.factor, copy.deepcopy(l.species)) for l in sp["links"]] for sp in self.specs]}

    def unchanged(self, snap, when):
        now = self.state()
        for which in ("options", "geometry", "selected_atoms", "links"):
            if now[which] != snap[which]:
                raise Fail(f"{when}: the caller's {which} were modified: before {snap[which]!r}, after {now[which]!r}",
                           sig=f"oniom:argument-mutated:{which}")

    def shared_slots(self):
        """Keys of the option dicts that are handed to more than one level / fragment."""
        used = [sp["low"] for sp in self.specs] + [sp["high"] for sp in self.specs if sp["solver_high"] is not None]
        return sorted({k for k in used if used.count(k) > 1}, key=repr)


def _run_oniom(ONIOMProblemDecomposition, Fragment, prob, twice, geometry_checks, resimulate=False):
    """Build + simulate (optionally a second time from the same argument objects); arguments must come back unchanged
    and a second build must give the same energy. Returns (energy, fragments of the first build)."""
    snap = prob.state()
    frs = prob.fragments(Fragment)
    od = _build_oniom(ONIOMProblemDecomposition, prob.geometry, frs)
    prob.unchanged(snap, "after constructing ONIOMProblemDecomposition")
    geometry_checks(frs)
    e = od.simulate()
    prob.unchanged(snap, "after simulate()")
    if resimulate:
        e_again = od.simulate()      # same object, second call: the result is a function of the definition, not of history
        prob.unchanged(snap, "after a second simulate() on the same object")
        if not np.isfinite(e_again) or abs(e_again - e) > 1e-8:
            raise Fail(f"simulate() called twice on one ONIOMProblemDecomposition gives {e!r} then {e_again!r}",
                       sig="oniom:resimulate-differs")
    if twice:
        frs2 = prob.fragments(Fragment)
        e2 = _build_oniom(ONIOMProblemDecomposition, prob.geometry, frs2).simulate()
        prob.unchanged(snap, "after a second build + simulate()")
        if not np.isfinite(e2) or abs(e2 - e) > 1e-8:
            raise Fail(f"the same ONIOM definition built and simulated twice gives {e!r} then {e2!r}", sig="oniom:rebuild-differs")
    return e, frs


def _expected_fragment_geometry(geom, sel, links):
    """Definition: the selected atoms in the order given (count = first atoms), followed by the caps of each link."""
    n = len(geom)
    idx = list(range(n)) if sel is None else (list(range(sel)) if isinstance(sel, int) else list(sel))
    out = [(geom[i][0], np.array(geom[i][1], dtype=float)) for i in idx]
    caps = []
    for l in links or []:
        caps.append((l, sum(1 for _ in H.CAP_ATOMS[l["species"]])))
    return out, caps


def _check_fragment_geometry(geom, frag_geom, sel, links, what):
    base, caps = _expected_fragment_geometry(geom, sel, links)
    k = len(base)
    if frag_geom is None:
        raise Fail(f"{what}: no geometry attributed to the fragment", sig="oniom:distribute-atoms:missing")
    got = list(frag_geom)
    if len(got) != k + sum(c for _, c in caps):
        raise Fail(f"{what}: fragment has {len(got)} atoms, expected {k + sum(c for _, c in caps)}", sig="oniom:distribute-atoms:count")
    for (a, x), (b, y) in zip(base, got[:k]):
        if a != b or np.max(np.abs(x - np.array(y, dtype=float))) > 1e-9:
            raise Fail(f"{what}: selected atoms {got[:k]} differ from the requested ones", sig="oniom:distribute-atoms:selection")
    pos = k
    for l, c in caps:
        msg = H.check_cap(geom, l["staying"], l["leaving"], l["factor"], l["species"], got[pos:pos + c])
        if msg:
            raise Fail(f"{what}: cap of link {l}: {msg}", sig="oniom:distribute-atoms:cap")
        pos += c


def _share_labels(case, prob):
    labs = {"options-share:" + case.get("share", "fresh")}
    if prob.shared_slots():
        labs.add("options-dict-object-shared")
        if any(k[1] != "sto-3g" or k[2] is not None for k in prob.shared_slots()):
            labs.add("options-dict-object-shared:non-default-basis-or-frozen")
    if case.get("twice"):
        labs.add("built-twice")
    if case.get("resimulate"):
        labs.add("simulate-called-twice-on-one-object")
    return labs


def _oniom_labels(case, models):
    labs = {"sys:" + ("heavy" if case["sys"]["heavy"] else "H" + str(len(case["sys"]["geom"]))), "geometry-as-" + case.get("geom_format", "list"),
            "open-shell-system" if case["sys"]["spin"] else "closed-shell-system", case["order"]}
    for m in models:
        s = m["sel"]
        labs.add("sel:none" if s is None else ("sel:count" if isinstance(s, int) else
                                               ("sel:list-unsorted" if list(s) != sorted(s) else "sel:list-sorted")))
        if m.get("links"):
            labs.add("links")
            labs.update("cap:" + l["species"] for l in m["links"])
        if m.get("spin"):
            labs.add("open-shell-model")
    return labs


@part("oniom_same_level", quick=32, thorough=900)
def oniom_same_level(ctx):
    from tangelo.problem_decomposition.oniom.oniom_problem_decomposition import ONIOMProblemDecomposition
    from tangelo.problem_decomposition.oniom._helpers.helper_classes import Fragment, Link

    def body(case):
        sysd = case["sys"]
        geom = _tuples(sysd["geom"])
        prob = _Problem(geom, case.get("geom_format", "list"), Link)
        s_sys, s_mod = H.share_ids(case.get("share", "fresh"), len(case["models"]))
        first = case["order"] == "system-first"
        if first:
            i_sys = prob.add(case["low"], s_sys, case["low_basis"], charge=sysd["charge"], spin=sysd["spin"])
        i_mod = [prob.add(m["solver"], sl, m["basis"], m["solver"], sh, m["basis"], frozen=m.get("frozen"), sel=m["sel"],
                          links=m["links"], charge=m["charge"], spin=m["spin"]) for m, (sl, sh) in zip(case["models"], s_mod)]
        if not first:
            i_sys = prob.add(case["low"], s_sys, case["low_basis"], charge=sysd["charge"], spin=sysd["spin"])

        def geometry_checks(frs):
            for m, i in zip(case["models"], i_mod):
                _check_fragment_geometry(sysd["geom"], getattr(frs[i], "geometry", None), m["sel"], m["links"], "model fragment")
            _check_fragment_geometry(sysd["geom"], getattr(frs[i_sys], "geometry", None), None, None, "system fragment")

        e, frs = _run_oniom(ONIOMProblemDecomposition, Fragment, prob, case.get("twice", False), geometry_checks,
                             resimulate=case.get("resimulate", False))
        models = [frs[i] for i in i_mod]
        ref = _ref(sysd["geom"], case["low"], case["low_basis"], sysd["charge"], sysd["spin"])
        if not np.isfinite(e) or abs(e - ref) > ETOL:
            raise Fail(f"ONIOM with model fragment(s) at identical high/low level gives {e!r}, E_low(system)={ref!r} "
                       f"({case['low']}/{case['low_basis']}), difference {e - ref:.3e}",
                       sig="oniom:same-level", e_fragments=[_peek(f, "e_fragment") for f in frs])
        n = len(geom)
        proper = any((m["sel"] if isinstance(m["sel"], int) else len(m["sel"])) < n or m["links"] for m in case["models"])
        labs = _oniom_labels(case, case["models"]) | {"low:" + case["low"], "elow-sign-exercised"} | _share_labels(case, prob)
        labs.update("model-solver:" + m["solver"] for m in case["models"])
        if any(m.get("frozen") for m in case["models"]):
            labs.add("frozen_orbitals-in-options")
        labs.add(f"n_models={len(models)}")
        return proper, labs

    ctx.search("same_level", H.oniom_same_cases(ctx.tier), body, shrink_calls=12)


@part("oniom_whole_model", quick=32, thorough=900)
def oniom_whole_model(ctx):
    from tangelo.problem_decomposition.oniom.oniom_problem_decomposition import ONIOMProblemDecomposition
    from tangelo.problem_decomposition.oniom._helpers.helper_classes import Fragment, Link

    def body(case):
        sysd = case["sys"]
        geom = _tuples(sysd["geom"])
        n = len(geom)
        q, s = sysd["charge"], sysd["spin"]
        # reference: several SCF solutions for the two atom orders would make E_low(system) - E_low(model) != 0 for
        # reasons unrelated to the decomposition -> such inputs are outside the identity's premise
        if isinstance(case["sel"], list):
            g2 = [sysd["geom"][i] for i in case["sel"]]
            if abs(_ref(sysd["geom"], "HF", case["low_basis"], q, s) - _ref(g2, "HF", case["low_basis"], q, s)) > 1e-7:
                raise Skip("reference-scf-depends-on-atom-order")
            if case["low"] == "CCSD" and abs(_ref(sysd["geom"], "CCSD", case["low_basis"], q, s) - _ref(g2, "CCSD", case["low_basis"], q, s)) > 1e-7:
                raise Skip("reference-ccsd-depends-on-atom-order")
        prob = _Problem(geom, case.get("geom_format", "list"), Link)
        s_sys, s_mod = H.share_ids(case.get("share", "fresh"), 1 + len(case["extras"]))
        first = case["order"] == "system-first"
        if first:
            prob.add(case["low"], s_sys, case["low_basis"], charge=q, spin=s)
        i_model = prob.add(case["low"], s_mod[0][0], case["low_basis"], case["high"], s_mod[0][1], case["high_basis"],
                           sel=case["sel"], charge=q, spin=s)
        i_ext = [prob.add(m["solver"], sl, m["basis"], m["solver"], sh, m["basis"], frozen=m.get("frozen"), sel=m["sel"],
                          charge=m["charge"], spin=m["spin"]) for m, (sl, sh) in zip(case["extras"], s_mod[1:])]
        if not first:
            prob.add(case["low"], s_sys, case["low_basis"], charge=q, spin=s)

        def geometry_checks(frs):
            _check_fragment_geometry(sysd["geom"], getattr(frs[i_model], "geometry", None), case["sel"], None, "whole-system model fragment")
            for m, i in zip(case["extras"], i_ext):
                _check_fragment_geometry(sysd["geom"], getattr(frs[i], "geometry", None), m["sel"], None, "extra model fragment")

        e, frs = _run_oniom(ONIOMProblemDecomposition, Fragment, prob, case.get("twice", False), geometry_checks,
                             resimulate=case.get("resimulate", False))
        ref = _ref(sysd["geom"], case["high"], case["high_basis"], q, s)
        if not np.isfinite(e) or abs(e - ref) > ETOL:
            raise Fail(f"ONIOM whose model is the whole system (selected_atoms={case['sel']}) gives {e!r}, "
                       f"E_high(system)={ref!r} ({case['high']}/{case['high_basis']}), difference {e - ref:.3e}",
                       sig="oniom:whole-model", e_fragments=[_peek(f, "e_fragment") for f in frs])
        differs = (case["low"], case["low_basis"]) != (case["high"], case["high_basis"])
        labs = _oniom_labels(case, [{"sel": case["sel"]}] + case["extras"])
        labs |= _share_labels(case, prob)
        labs |= {f"pair:{case['low']}->{case['high']}", "elow-sign-exercised",
                 "basis-differs" if case["low_basis"] != case["high_basis"] else "basis-same"}
        if case["extras"]:
            labs.add("extra-same-level-model")
        return differs, labs

    ctx.search("whole_model", H.oniom_whole_cases(ctx.tier), body, shrink_calls=12)


# ===================================================================================================== DMET

def _dmet_args_unchanged(opts, snap, when):
    if set(opts) != set(snap):
        raise Fail(f"{when}: keys of the caller's options dict changed from {sorted(snap)} to {sorted(opts)}", sig="dmet:argument-mutated:keys")
    for k, v in snap.items():
        same = (opts[k] is v) if k in ("molecule", "optimizer", "electron_localization") else (opts[k] == v)
        if not same:
            raise Fail(f"{when}: the caller's options[{k!r}] was modified: before {v!r}, after {opts[k]!r}", sig=f"dmet:argument-mutated:{k}")


def _dmet_simulate(d):
    try:
        return float(np.real(d.simulate()))
    except RuntimeError as ex:
        if "Failed to converge" in str(ex):   # scipy.optimize.newton: the documented failure mode of the root search
            raise Skip("dmet-root-search-did-not-converge")
        raise


def _run_dmet(geom, charge, spin, basis, fragment_atoms, solvers, loc, optimizer, resimulate=False, second_build=False, etol=ETOL):
    import scipy.optimize
    from tangelo import SecondQuantizedMolecule
    from tangelo.problem_decomposition import DMETProblemDecomposition
    from tangelo.problem_decomposition.dmet import Localization
    try:
        mol = SecondQuantizedMolecule(_tuples(geom), q=charge, spin=spin, basis=basis, frozen_orbitals=None)
    except ValueError as ex:      # Tangelo's documented refusal when the SCF of the whole molecule does not converge
        if "Hartree-Fock calculation did not converge" in str(ex):
            raise Skip("mean-field-did-not-converge")
        raise
    opts = {"molecule": mol, "fragment_atoms": copy.deepcopy(fragment_atoms), "electron_localization": Localization[loc],
            "fragment_solvers": copy.deepcopy(solvers), "verbose": False}
    if optimizer == "newton-1e-9":
        opts["optimizer"] = lambda f, x0: scipy.optimize.newton(f, x0, tol=1e-9)
    elif optimizer == "newton-1e-9+probe":
        # a legitimate optimizer by the documented contract (it returns the root): after locating the root it looks at
        # the mismatch at two more points, so its LAST function evaluation is not at the value it returns
        def probing(f, x0):
            root = scipy.optimize.newton(f, x0, tol=1e-9)
            f(root + 0.05)
            f(root - 0.03)
            return root
        opts["optimizer"] = probing
    snap = {k: (v if k in ("molecule", "optimizer", "electron_localization") else copy.deepcopy(v)) for k, v in opts.items()}
    d = DMETProblemDecomposition(opts)
    _dmet_args_unchanged(opts, snap, "after constructing DMETProblemDecomposition")
    d.build()
    e = _dmet_simulate(d)
    _dmet_args_unchanged(opts, snap, "after build() + simulate()")
    # what simulate() reports, recorded before anything else is evaluated on the object
    e = float(np.real(e))
    mu = float(np.real(d.chemical_potential))
    e_attr = getattr(d, "dmet_energy", None)
    nao_fn = _peek(d, "molecule.nao_nr")
    nao = int(nao_fn()) if callable(nao_fn) else None
    nelec = _peek(d, "orbitals.number_active_electrons")
    nelec = None if nelec is None else int(nelec)
    # own evaluation AT the returned chemical potential (recomputes every fragment from scratch; does not rely on what
    # simulate() left behind): electron-number mismatch, energy, and the fragment+bath sizes it stores
    resid = float(np.real(d._oneshot_loop(d.chemical_potential, save_results=True)))
    e_at_mu = float(np.real(d.dmet_energy))
    stored = getattr(d, "scf_fragments", None)
    spans = None
    if stored is not None:
        try:
            spans = [int(np.shape(f[6])[-1]) for f in stored]
        except (TypeError, IndexError):
            spans = None
    if resimulate:
        e_again = _dmet_simulate(d)     # same object, second call
        if not np.isfinite(e_again) or abs(e_again - e) > etol:
            raise Fail(f"simulate() called twice on one DMETProblemDecomposition gives {e!r} then {e_again!r} "
                       f"(fragment_atoms {fragment_atoms}, optimizer {optimizer})", sig="dmet:resimulate-differs")
    if second_build:
        d2 = DMETProblemDecomposition(opts)     # the very same options dict object, as a user re-running a calculation would
        d2.build()
        e_second = _dmet_simulate(d2)
        _dmet_args_unchanged(opts, snap, "after a second object was built from the same options and simulated")
        if not np.isfinite(e_second) or abs(e_second - e) > etol:
            raise Fail(f"two DMETProblemDecomposition objects built from the same options dict give {e!r} then {e_second!r} "
                       f"(fragment_atoms requested {fragment_atoms}, second object uses {_peek(d2, 'fragment_atoms')})",
                       sig="dmet:second-build-differs")
    return {"e": e, "e_attr": None if e_attr is None else float(np.real(e_attr)), "e_at_mu": e_at_mu, "mu": mu, "spans": spans,
            "nao": nao, "resid": resid, "nelec": nelec, "frag_counts": _peek(d, "fragment_atoms")}


@part("dmet", quick=32, thorough=1100)
def dmet(ctx):
    def body(case):
        geom = case["sys"]["geom"]
        n = len(geom)
        q, basis, spin = case["charge"], case["basis"], case["spin"]
        frags = case["frags"]
        solvers = case["solvers"]
        perm = case["perm"]
        g2 = [geom[p] for p in perm]
        e_hf1, e_hf2 = _ref(geom, "HF", basis, q, spin), _ref(g2, "HF", basis, q, spin)
        if abs(e_hf1 - e_hf2) > 1e-7:
            raise Skip("reference-scf-depends-on-atom-order")
        tight = case["optimizer"].startswith("newton-1e-9")
        rtol, etol = (1e-6, ETOL) if tight else (1e-4, 1e-5)   # default optimizer stops at |d mu| < 1e-5

        flat = [a for f in frags for a in f]
        contiguous = flat == list(range(n))
        fa1 = [len(f) for f in frags] if (contiguous and case["count_form"]) else frags
        r1 = _run_dmet(geom, q, spin, basis, fa1, solvers, case["loc"], case["optimizer"], etol=etol,
                       resimulate=case.get("resimulate", False))

        inv = {old: new for new, old in enumerate(perm)}
        frags2 = [[inv[a] for a in (reversed(frags[i]) if case["reverse_within"] else frags[i])] for i in case["frag_order"]]
        solvers2 = solvers if isinstance(solvers, str) else [solvers[i] for i in case["frag_order"]]
        r2 = _run_dmet(g2, q, spin, basis, frags2, solvers2, case["loc"], case["optimizer"], etol=etol,
                       second_build=case.get("second_build", False))   # nested id lists: the form that is converted

        ne = sum(H.Z[a] for a, _ in geom) - q
        for r, fr, tag in ((r1, frags, "original"), (r2, frags2, "relabelled")):
            if r["nelec"] is not None and r["nelec"] != ne:
                raise Fail(f"DMET ({tag}) counts {r['nelec']} electrons, molecule has {ne}", sig="dmet:electron-total")
            if not np.isfinite(r["resid"]) or abs(r["resid"]) > rtol:
                raise Fail(f"after simulate() ({tag}, optimizer {case['optimizer']}) the fragment electron numbers sum to "
                           f"{ne}+({r['resid']:.3e}) at mu={r['mu']!r}", sig="dmet:electron-number-residual")
            if not np.isfinite(r["e"]) or abs(r["e"] - r["e_at_mu"]) > etol or (r["e_attr"] is not None and abs(r["e_attr"] - r["e"]) > 1e-12):
                raise Fail(f"simulate() ({tag}, optimizer {case['optimizer']}) returns E={r['e']!r} (dmet_energy attribute "
                           f"{r['e_attr']!r}) with chemical_potential={r['mu']!r}, but the DMET energy evaluated at that chemical "
                           f"potential is {r['e_at_mu']!r}; difference {r['e'] - r['e_at_mu']:.3e}",
                           sig="dmet:energy-not-at-returned-mu")
            if isinstance(r["frag_counts"], list) and all(isinstance(c, int) for c in r["frag_counts"]) \
                    and sorted(r["frag_counts"]) != sorted(len(f) for f in fr):
                raise Fail(f"fragment sizes {r['frag_counts']} for request {fr}", sig="dmet:fragment-sizes")
        if abs(r1["e"] - r2["e"]) > etol:
            raise Fail(f"DMET energy changes under relabelling of the atoms: {r1['e']!r} (fragments {fa1}) vs {r2['e']!r} "
                       f"(atoms permuted by {perm}, fragments {frags2}); difference {r1['e'] - r2['e']:.3e}",
                       sig="dmet:relabelling", mu=[r1["mu"], r2["mu"]], spans=[r1["spans"], r2["spans"]])
        labs = {f"n={n}", "basis:" + basis, "loc:" + case["loc"], "optimizer:" + case["optimizer"], "sys:" + case["sys"]["name"],
                "form:" + ("counts" if fa1 is not frags else "nested"), "charge:%+d" % q, "mean-field:" + ("ROHF-triplet" if spin else "RHF"),
                "solver:" + (solvers if isinstance(solvers, str) else ("mixed" if len(set(solvers)) > 1 else solvers[0])),
                "fragments=" + str(len(frags))}
        if case.get("resimulate"):
            labs.add("simulate-called-twice-on-one-object")
        if case.get("second_build"):
            labs.add("second-object-from-same-options-dict")
        if flat != sorted(flat) or [a for f in frags2 for a in f] != list(range(n)):
            labs.add("nested-list-reorders-atoms")
        all_fci = solvers == "fci" or (isinstance(solvers, list) and set(solvers) == {"fci"})
        known = None not in (r1["spans"], r2["spans"], r1["nao"], r2["nao"])
        spanning = known and all(s == r1["nao"] for s in r1["spans"]) and all(s == r2["nao"] for s in r2["spans"])
        if spanning and all_fci:
            e_fci = _ref(geom, "FCI", basis, q, spin)
            for r, tag in ((r1, "original"), (r2, "relabelled")):
                if abs(r["e"] - e_fci) > etol:
                    raise Fail(f"every fragment+bath spans all {r['nao']} orbitals (sizes {r['spans']}) but DMET/FCI gives "
                               f"{r['e']!r} ({tag}), FCI(PySCF)={e_fci!r}, difference {r['e'] - e_fci:.3e}, mu={r['mu']!r}",
                               sig="dmet:exact-embedding")
            labs.add("spanning:fci-exactness-checked")
            labs.add("spanning:|mu|<1e-6" if abs(r1["mu"]) < 1e-6 else "spanning:|mu|>=1e-6")
        elif spanning:
            labs.add("spanning:non-fci-solver")
        elif known:
            labs.add("not-spanning")
        else:
            labs.add("fragment+bath-sizes-not-available")
        nontrivial = len(frags) >= 2 and perm != list(range(n))
        return nontrivial, labs

    # open finding (if listed in known_findings.json): the ROHF branch of dmet_orbitals calls ROHF.get_veff(mol, dm, 0, 0, 1),
    # which the installed PySCF rejects -> every open-shell DMET dies in build(); continue behind it with RHF cases
    excl = {"exception:AttributeError@tangelo/problem_decomposition/dmet/_helpers/dmet_orbitals.py:_restricted_init":
            lambda c: c["spin"] != 0}
    ctx.search("dmet", H.dmet_cases(ctx.tier), body, shrink_calls=6, exclusions=excl)


# ===================================================================================================== method of increments

def _mi_body(case):
    from tangelo.problem_decomposition import MethodOfIncrementsHelper
    doc, stored = H.mi_document(case)
    labels, kmax, e_mf = case["labels"], case["kmax"], case["e_mf"]
    if case["route"] == "file":
        with tempfile.TemporaryDirectory(prefix="c15mi") as td:
            path = os.path.join(td, "full_results_1.log")
            with open(path, "w") as fh:
                fh.write("full_result:\n" + json.dumps(doc, indent=1))
            helper = MethodOfIncrementsHelper(log_file=path)
    else:
        helper = MethodOfIncrementsHelper(full_result=doc)
    nfr = sum(1 for _ in helper.fragment_ids)
    if nfr != len(case["frags"]):
        raise Fail(f"helper sees {nfr} fragments, document has {len(case['frags'])}", sig="mi:fragment-ids")
    if abs(helper.e_mf - e_mf) > 1e-9:
        raise Fail(f"e_mf={helper.e_mf!r}, document implies {e_mf!r}", sig="mi:e_mf")
    scale = max(1.0, abs(e_mf))
    tol = 1e-8 * scale

    def check(user, what):
        energies = dict(stored)
        if user:
            for fid, e in user.items():
                corr = case["frags"][fid]["correction"] or 0.0
                energies[tuple(eval(fid))] = e + corr
        got = helper.mi_summation(user_provided_energies=copy.deepcopy(user))
        if kmax == len(labels):
            ref = energies[tuple(labels)]     # the statement itself: full order == energy of the complete fragment
            if not np.isfinite(got) or abs(got - ref) > tol:
                raise Fail(f"mi_summation({what}) to full order {kmax} over centres {labels} gives {got!r}; the complete "
                           f"fragment's energy (incl. its correction) is {ref!r}; difference {got - ref:.3e}",
                           sig="mi:full-order")
        ref2, _ = H.mi_expected(e_mf, energies, labels, kmax)
        if not np.isfinite(got) or abs(got - ref2) > tol:
            raise Fail(f"mi_summation({what}) truncated at order {kmax} of {len(labels)} centres gives {got!r}, "
                       f"inclusion-exclusion from the definition gives {ref2!r}; difference {got - ref2:.3e}",
                       sig="mi:inclusion-exclusion")

    check(None, "stored energies")
    if case["user"]:
        check(case["user"], "user_provided_energies=" + json.dumps(case["user"], sort_keys=True))
        check(None, "stored energies, after a call with user energies")
    labs = {f"centres={len(labels)}", f"order={kmax}", "route:" + case["route"], "keys:" + case["keys"],
            "full-order" if kmax == len(labels) else "truncated"}
    if kmax >= 3:
        labs.add("inclusion-exclusion-order>=3")
    if case["user"]:
        labs.add("user-energies")
        if str(tuple(labels)) in case["user"]:
            labs.add("user-energy-for-complete-fragment")
    if any(r["correction"] is not None for r in case["frags"].values()):
        labs.add("with-corrections")
    if labels != list(range(len(labels))):
        labs.add("labels-not-0..n-1")
    return kmax >= 3, labs


@part("mi_full_order", quick=400, thorough=12000)
def mi_full_order(ctx):
    ctx.search("mi_full", H.mi_cases(5 if ctx.tier == "quick" else 6, full_order=True), _mi_body)


@part("mi_truncated", quick=150, thorough=5000)
def mi_truncated(ctx):
    ctx.search("mi_trunc", H.mi_cases(5 if ctx.tier == "quick" else 6, full_order=False), _mi_body)
