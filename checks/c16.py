"""C16 - operator arithmetic returns correct values and never mutates operands.

Model-based operation-history check.  A case is plain data: an operand pool (operators of one family given as term
lists + class tag + annotations, plus scalars) and a list of operation records.  The interpreter below executes the
history on the real objects and on a from-scratch model algebra (fermionic words multiply by concatenation, Pauli
words through vlib.refops' 4x4 table, dictionaries add) and, after *every* step, compares
  * the result with the model value (tolerance, see TOL),
  * every operand of the pool with an exact snapshot taken when it was created (nothing but the left operand of an
    in-place operation may change - not even when the operation is refused),
  * the result's term dictionary for identity with any pooled operand's dictionary (no shared mutable state).
MultiformOperator (array form) is compared with the symbolic form in separate parts.
"""
import numpy as np
from hypothesis import strategies as st

from vlib.runner import part, Fail, Skip
from vlib import refops as RO, refsim as RS

PROPERTY = "C16"
RULE = ("Operation histories (<=12 steps quick / <=25 thorough) over a pool of 2-5 operands of one family "
        "(fermionic: Tangelo FermionOperator with/without n_spinorbitals/n_electrons/spin, openfermion FermionOperator; "
        "qubit: Tangelo QubitOperator, QubitHamiltonian annotated/bare, openfermion QubitOperator) plus scalars "
        "(int, float, complex, numpy int64/float64/complex128); steps a+b, a-b, a*b, a/s, -a, a==b, +=, -=, *=, clone, with "
        "either side an operator or a scalar, results appended to the pool and reused; plus the exhaustive matrix of single "
        "operations over every (left class, operator, right class) combination. Oracle = independent term-dictionary algebra. "
        "Non-trivial history = >=3 executed operations and an operand reused after taking part in an earlier one; matrix case = "
        "operation executed (value or documented refusal). MultiformOperator: pairs of Pauli operators on registers of 1-6, 30-34 and 62-66 qubits "
        "(sparse words with letters on the lowest / highest qubits or anywhere, identity, words differing on one low or one high qubit only, products "
        "that cancel) - product, collapse, encodings and do_commute against the width-independent symbolic form; non-trivial = both operands have >=2 "
        "terms. MultiformOperator histories (<=10/16 steps): in-place +=, -=, *= with MultiformOperator or scalar operands, compress(), _update(), "
        "remove_terms (int/list/array), array product (optionally continuing the chain with it), do_commute both modes and both orders; whenever the "
        "class is in sync the integer/binary/binary_swap/factors arrays must encode the current terms row by row; non-trivial = >=3 executed steps and "
        ">=1 re-synchronisation after in-place arithmetic. Every result of the histories/matrix is also compared (==, != , both orders) with its "
        "non-zero-terms-only and zero-padded twins (same class and plain openfermion class); conjugate pairs c+xw, c-xw and zero scalars make results "
        "with explicit zero coefficients frequent. commute_large: do_commute on 1-8 / 100-300 / 1000-4096 x 1-8 / 50-300 distinct words (5-8 or 30-34 "
        "qubits, words from an affine bijection of base-4 codes) against an independent vectorised symplectic product, both modes and orders. Distinct = distinct canonical JSON of the case.")
ASSUMPTIONS = ["openfermion's plain FermionOperator/QubitOperator containers (term dictionaries) are trusted; refusals that openfermion "
               "itself documents (TypeError for an operand that is not an instance of the left operand's class) are accepted outcomes",
               "reference Pauli table in vlib/refops.py (self-tested against Kronecker-product matrices); fermionic words multiply by concatenation "
               "(self-tested against Fock-space ladder matrices)",
               "values compared with absolute tolerance 1e-7*max(1,|largest coefficient|) (openfermion drops coefficients below 1e-8 on addition); "
               "non-mutation compared exactly",
               "do_commute is held to the symbolic commutator only where term-wise commutation and the operator commutator agree "
               "(a pair of anticommuting words whose contributions cancel in AB-BA is not judged)",
               "MultiformOperator's array attributes are only required to describe the terms after from_*, compress(), _update(), remove_terms() or `*` "
               "(in-place symbolic arithmetic inherited from openfermion touches `terms` only, as z2_tapering's use of compress() assumes); remove_terms and "
               "the array product are exercised only on a synchronised, non-empty operator (an empty operand makes collapse raise ValueError - callers guard it)",
               "mismatched annotations must raise RuntimeError where the code checks them (FermionOperator +,-,*; QubitHamiltonian +); "
               "QubitHamiltonian -,* with a plain QubitOperator may raise openfermion's TypeError"]
SHARDS = {"quick": 4, "thorough": 16}
EXHAUSTIVE = False

TOL = 1e-7
F_ATTRS = [[None, None, None], [4, 2, 0], [4, 2, 2]]
Q_ANN = [None, ["JW", False], ["jw", False], ["BK", False], ["JW", True]]
SCALAR_TYPES = ["int", "float", "complex", "npint", "npfloat", "npcomplex"]
BIN_OPS = ["add", "sub", "mul"]
INPLACE = {"iadd": "add", "isub": "sub", "imul": "mul"}
ALL_OPS = ["add", "sub", "mul", "div", "neg", "eq", "iadd", "isub", "imul", "clone"]
MAX_TERMS = 80


# ------------------------------------------------------------------------------------------------ model algebra

def f_mul(a, b):
    out = {}
    for t1, c1 in a.items():
        for t2, c2 in b.items():
            out[t1 + t2] = out.get(t1 + t2, 0) + c1 * c2
    return out


def m_add(a, b, sb=1):
    out = dict(a)
    for t, c in b.items():
        out[t] = out.get(t, 0) + sb * c
    return out


def m_scale(a, s):
    return {t: c * s for t, c in a.items()}


def m_mul(fam, a, b):
    return f_mul(a, b) if fam == "F" else RO.qop_mul(a, b)


def scale_of(d):
    return max([1.0] + [abs(c) for c in d.values()])


def terms_close(got, exp, tol=None):
    tol = TOL * max(scale_of(exp), 1.0) if tol is None else tol
    for k in set(got) | set(exp):
        if abs(complex(got.get(k, 0)) - complex(exp.get(k, 0))) > tol:
            return False, k
    return True, None


def significantly_different(a, b):
    s = max(scale_of(a), scale_of(b))
    return any(abs(complex(a.get(k, 0)) - complex(b.get(k, 0))) > 1e-3 * s for k in set(a) | set(b))


def exactly_equal(a, b):
    a = {k: complex(v) for k, v in a.items() if v != 0}
    b = {k: complex(v) for k, v in b.items() if v != 0}
    return a == b


def show(d, lim=6):
    items = list(d.items())[:lim]
    return "{" + ", ".join(f"{k}: {complex(v):.6g}" for k, v in items) + (", ...}" if len(d) > lim else "}")


# ------------------------------------------------------------------------------------------------ building operands

def term_key(fam, t):
    if fam == "F":
        return tuple((int(p), int(d)) for p, d in t)
    return tuple((int(q), str(p)) for q, p in sorted(t))


def rec_terms(fam, rec):
    d = {}
    for t, re, im in rec["terms"]:
        k = term_key(fam, t)
        d[k] = d.get(k, 0) + (complex(re, im) if im != 0 else float(re))
    return d


def make_scalar(rec):
    re, im = rec["v"]
    t = rec["t"]
    if t == "int":
        return int(re)
    if t == "float":
        return float(re)
    if t == "complex":
        return complex(re, im)
    if t == "npint":
        return np.int64(int(re))
    if t == "npfloat":
        return np.float64(re)
    if t == "npcomplex":
        return np.complex128(complex(re, im))
    raise ValueError(t)


def make_operator(fam, kind, terms, attrs):
    """Create the real object by assigning the term dictionary directly (no arithmetic of the code under test involved)."""
    import openfermion as of
    from tangelo.toolboxes.operators import FermionOperator, QubitOperator, QubitHamiltonian
    if kind == "tf":
        o = FermionOperator(n_spinorbitals=attrs[0], n_electrons=attrs[1], spin=attrs[2])
    elif kind == "of":
        o = of.FermionOperator()
    elif kind == "tq":
        o = QubitOperator()
    elif kind == "oq":
        o = of.QubitOperator()
    elif kind == "th":
        o = QubitHamiltonian(mapping=attrs[0], up_then_down=attrs[1]) if attrs else QubitHamiltonian()
    else:
        raise ValueError(kind)
    o.terms = dict(terms)
    return o


def classify(obj):
    """(kind, attrs) of a real result object, or None."""
    import openfermion as of
    from tangelo.toolboxes.operators import FermionOperator, QubitOperator, QubitHamiltonian
    if isinstance(obj, FermionOperator):
        return "tf", [obj.n_spinorbitals, obj.n_electrons, obj.spin]
    if isinstance(obj, of.FermionOperator):
        return "of", None
    if isinstance(obj, QubitHamiltonian):
        ann = None if (obj.mapping is None and obj.up_then_down is None) else [obj.mapping, obj.up_then_down]
        return "th", ann
    if isinstance(obj, QubitOperator):
        return "tq", None
    if isinstance(obj, of.QubitOperator):
        return "oq", None
    return None


def real_attrs(obj, kind):
    if kind == "tf":
        return [obj.n_spinorbitals, obj.n_electrons, obj.spin]
    if kind == "th":
        return None if (obj.mapping is None and obj.up_then_down is None) else [obj.mapping, obj.up_then_down]
    return None


def ann_compatible(a, b):
    """QubitHamiltonian rule: the check applies only when both are annotated."""
    if not a or not b or a[0] is None or a[1] is None or b[0] is None or b[1] is None:
        return True
    return a[0].upper() == b[0].upper() and a[1] == b[1]


def f_bare(attrs):
    return attrs is None or all(x is None for x in attrs)


# ------------------------------------------------------------------------------------------------ expectations

def expectation(fam, op, A, B):
    """What a binary operation `A op B` (A left) must do.  A, B: model entries ({"k":..., "attrs":...}).
    Returns (mode, exceptions, result_attrs) with mode in "value" | "raise" | "either"; result_attrs = annotations the result
    must carry when it is of the annotated Tangelo class (None = not judged)."""
    ka, kb = A["k"], B["k"]
    inplace = op in INPLACE
    base = INPLACE.get(op, op)
    if fam == "F":
        if ka == "tf" and kb == "tf":
            if A["attrs"] == B["attrs"]:
                return "value", (), A["attrs"]
            return "raise", (RuntimeError,), None
        if ka == "tf" and kb == "of":
            return ("value", (), A["attrs"]) if f_bare(A["attrs"]) else ("raise", (RuntimeError,), None)
        if ka == "of" and kb == "tf":
            # + and - are dispatched by Python to the subclass' reflected method first; * and the in-place forms are openfermion's
            if f_bare(B["attrs"]) or inplace or base == "mul":
                return "value", (), None
            return "either", (RuntimeError,), None
        if ka == "of" and kb == "of":
            return "value", (), None
        if ka == "s":
            return "value", (), (B["attrs"] if kb == "tf" else None)
        if kb == "s":
            return "value", (), (A["attrs"] if ka == "tf" else None)
    else:
        if ka == "s":
            return "value", (), (B["attrs"] if kb == "th" else None)
        if kb == "s":
            return "value", (), (A["attrs"] if ka == "th" else None)
        if ka == "oq":
            return "value", (), None
        if ka == "tq":
            return ("either", (TypeError,), None) if kb == "oq" else ("value", (), None)
        if ka == "th":
            if kb == "th":
                if ann_compatible(A["attrs"], B["attrs"]):
                    return "value", (), A["attrs"]
                return ("raise", (RuntimeError,), None) if base == "add" else ("either", (RuntimeError,), A["attrs"])
            # plain QubitOperator on the right: "this check is ignored if comparing to a QubitOperator"
            if base == "add" and A["attrs"]:
                return "value", (), A["attrs"]
            return "either", (TypeError,), A["attrs"]
    raise ValueError((fam, op, ka, kb))


def eq_expectation(fam, A, B):
    """Expected truth value of A == B, or None when not judged (coefficients too close to the comparison tolerance)."""
    same = exactly_equal(A["terms"], B["terms"])
    diff = significantly_different(A["terms"], B["terms"])
    if not same and not diff:
        return None
    if fam == "F" and A["k"] == "tf" and B["k"] == "tf" and A["attrs"] != B["attrs"]:
        return False
    if fam == "Q" and A["k"] == "th" and B["k"] == "th" and not ann_compatible(A["attrs"], B["attrs"]):
        return False
    return same


# ------------------------------------------------------------------------------------------------ interpreter

class Machine:
    def __init__(self, fam, pool_recs):
        self.fam = fam
        self.model, self.real, self.snap = [], [], []
        for r in pool_recs:
            if r["k"] == "s":
                self.push({"k": "s", "val": make_scalar(r), "t": r["t"]}, make_scalar(r))
            else:
                terms = rec_terms(fam, r)
                attrs = r.get("attrs")
                self.push({"k": r["k"], "attrs": attrs, "terms": terms}, make_operator(fam, r["k"], terms, attrs))
        self.touched = set()
        self.executed = 0
        self.reused = False
        self.labels = set()

    def push(self, m, obj):
        self.model.append(m)
        self.real.append(obj)
        self.snap.append(self.snapshot(m, obj))

    def snapshot(self, m, obj):
        if m["k"] == "s":
            return ("s", repr(obj))
        return (dict(obj.terms), real_attrs(obj, m["k"]), type(obj))

    def desc(self, i):
        m = self.model[i]
        if m["k"] == "s":
            return f"{m['t']}({self.real[i]!r})"
        return f"{m['k']}{m['attrs'] if m.get('attrs') else ''}{show(m['terms'])}"

    # -- invariant: nothing in the pool changed except `allowed`
    def check_unchanged(self, step, allowed=None):
        op, ia, ib = step
        for i, (m, obj, sn) in enumerate(zip(self.model, self.real, self.snap)):
            if i == allowed:
                continue
            now = self.snapshot(m, obj)
            if now != sn:
                role = "left" if i == ia else ("right" if i == ib else "bystander")
                if ia == ib and i == ia:
                    role = "aliased"
                what = "terms" if (m["k"] != "s" and now[0] != sn[0]) else "attributes/type"
                before = sn[0] if m["k"] != "s" else sn
                after = now[0] if m["k"] != "s" else now
                raise Fail(f"operand #{i} ({role}, {m['k']}) was mutated by step {op}(#{ia},#{ib}): {what} before "
                           f"{show(before) if isinstance(before, dict) else before}, after {show(after) if isinstance(after, dict) else after}",
                           sig=f"mutated:{self.fam}:{m['k']}:{INPLACE.get(op, op)}", step=list(step))

    def check_value(self, step, obj, exp_terms, want_attrs, what):
        op, ia, ib = step
        ka = self.model[ia]["k"]
        kb = self.model[ib]["k"] if ib is not None else "-"
        cl = classify(obj)
        if cl is None:
            raise Fail(f"{what}: result of {op}({self.desc(ia)}, {self.desc(ib) if ib is not None else ''}) is a {type(obj).__name__}",
                       sig=f"result-type:{self.fam}:{ka}:{op}:{kb}")
        ok, k = terms_close(obj.terms, exp_terms)
        if not ok:
            raise Fail(f"{what}: {op}({self.desc(ia)}, {self.desc(ib) if ib is not None else ''}) returned {show(obj.terms)}; "
                       f"expected {show(exp_terms)} (term {k}: got {obj.terms.get(k, 0)}, expected {exp_terms.get(k, 0)})",
                       sig=f"value:{self.fam}:{ka}:{op}:{kb}", step=list(step))
        kind, attrs = cl
        if want_attrs is not None and kind in ("tf", "th"):
            exp_a = want_attrs
            same = (attrs == exp_a) if kind == "tf" else ((attrs or None) == (exp_a or None))
            if not same:
                raise Fail(f"{what}: result of {op}({self.desc(ia)}, {self.desc(ib) if ib is not None else ''}) carries annotations {attrs}, "
                           f"operands carry {exp_a}", sig=f"annotations:{self.fam}:{ka}:{op}:{kb}", step=list(step))
        return kind, attrs

    def no_sharing(self, step, obj, allowed=None):
        for i, o in enumerate(self.real):
            if i == allowed or self.model[i]["k"] == "s":
                continue
            if o is obj or o.terms is obj.terms:
                raise Fail(f"result of step {step} shares its term dictionary with pooled operand #{i}",
                           sig=f"shared-state:{self.fam}:{self.model[i]['k']}:{INPLACE.get(step[0], step[0])}", step=list(step))

    def check_eq_forms(self, step, r, kind, attrs):
        """== / != must see a result as the algebraic object it is: equal to an independently built operator holding only
        its non-zero terms, to the same operator with extra explicit 0.0 terms, and to their plain-openfermion twins, in
        both orders (openfermion's equality treats a missing term and a zero coefficient alike; Tangelo documents only
        additional checks on the annotations)."""
        fam = self.fam
        cur = dict(r.terms)
        nz = {k: v for k, v in cur.items() if v != 0}
        extra = [((3, 1), (3, 0)), ((0, 1),)] if fam == "F" else [((3, "X"),), ((0, "Z"), (1, "Z"))]
        padded = dict(cur)
        for k in extra:
            padded.setdefault(k, 0.0)
        plain = "of" if fam == "F" else "oq"
        forms = [("nonzero-terms-only", make_operator(fam, kind, nz, attrs)), ("padded-with-zero-terms", make_operator(fam, kind, padded, attrs))]
        if kind != plain:
            forms += [("nonzero-terms-only/openfermion", make_operator(fam, plain, nz, None)), ("padded-with-zero-terms/openfermion", make_operator(fam, plain, padded, None))]
        if len(nz) < len(cur):
            self.labels.add("eq-forms:result-holds-explicit-zero")
        self.labels.add("eq-forms:checked")
        for name, c in forms:
            for left, right, order in ((r, c, "result==form"), (c, r, "form==result")):
                try:
                    eq, ne = (left == right), (left != right)
                except Exception as e:   # classified: any exception here is a violation
                    raise Fail(f"comparing the result of step {step} ({kind}{attrs or ''}{show(cur)}) with its {name} form raised {type(e).__name__}: {e}",
                               sig=f"eq-forms:{fam}:{kind}:exception:{type(e).__name__}", step=list(step))
                if eq is not True or ne is not False:
                    raise Fail(f"result of step {step}, {kind}{attrs or ''}{show(cur)}, compared with the algebraically identical operator ({name}: "
                               f"{show(dict(c.terms))}), {order}: == gives {eq!r}, != gives {ne!r}", sig=f"eq-forms:{fam}:{kind}:{name.split('/')[0]}", step=list(step))

    def mark(self, *idx):
        if any(i in self.touched for i in idx if i is not None):
            self.reused = True
        self.touched.update(i for i in idx if i is not None)
        self.executed += 1

    def apply(self, op, a, b):
        """Execute one op record (indices taken modulo the pool size). Returns a label or None (no-op)."""
        import operator as O
        n = len(self.model)
        ia, ib = a % n, b % n
        A, B = self.model[ia], self.model[ib]
        ra, rb = self.real[ia], self.real[ib]
        fam = self.fam
        if op == "clone":
            if A["k"] == "s":
                return None
            # same terms, class b%k; every other clone of an annotated class gets different annotations
            kinds = (["tf", "of", "tf*"] if fam == "F" else ["tq", "oq", "th", "th*"])
            kind = kinds[b % len(kinds)]
            if kind.endswith("*"):
                kind = kind[:-1]
                attrs = list(F_ATTRS[(b // 3) % len(F_ATTRS)]) if fam == "F" else Q_ANN[(b // 4) % len(Q_ANN)]
            else:
                attrs = A.get("attrs") if kind == A["k"] else (list(F_ATTRS[0]) if kind == "tf" else None)
            terms = dict(A["terms"])
            self.push({"k": kind, "attrs": attrs, "terms": terms}, make_operator(fam, kind, terms, attrs))
            return "clone"
        if op == "neg":
            if A["k"] == "s":
                return None
            step = (op, ia, None)
            r = self.run(step, lambda: -ra, ("value", (), A.get("attrs") if A["k"] in ("tf", "th") else None))
            exp = m_scale(A["terms"], -1)
            kind, attrs = self.check_value(step, r, exp, A.get("attrs") if A["k"] in ("tf", "th") else None, "negation")
            self.check_unchanged(step)
            self.no_sharing(step, r)
            self.push({"k": kind, "attrs": attrs, "terms": exp}, r)
            self.check_eq_forms(step, r, kind, attrs)
            self.mark(ia)
            return "neg:" + A["k"]
        if op == "div":
            if B["k"] != "s":     # take the b-th scalar of the pool instead
                sc = [i for i, m in enumerate(self.model) if m["k"] == "s"]
                if not sc:
                    return None
                ib = sc[b % len(sc)]
                B, rb = self.model[ib], self.real[ib]
            if A["k"] == "s" or B["val"] == 0:
                return None
            step = (op, ia, ib)
            want = A.get("attrs") if A["k"] in ("tf", "th") else None
            r = self.run(step, lambda: ra / rb, ("value", (), want))
            exp = m_scale(A["terms"], 1.0 / complex(B["val"]))
            kind, attrs = self.check_value(step, r, exp, want, "division")
            self.check_unchanged(step)
            self.no_sharing(step, r)
            self.push({"k": kind, "attrs": attrs, "terms": exp}, r)
            self.check_eq_forms(step, r, kind, attrs)
            self.mark(ia, ib)
            return f"div:{A['k']}/{B['t']}"
        if op == "eq":
            if A["k"] == "s" or B["k"] == "s":
                return None
            step = (op, ia, ib)
            want = eq_expectation(fam, A, B)
            got = self.run(step, lambda: ra == rb, ("value", (), None))
            self.check_unchanged(step)
            if want is not None and bool(got) != want:
                raise Fail(f"({self.desc(ia)}) == ({self.desc(ib)}) returned {got!r}, expected {want}",
                           sig=f"eq:{fam}:{A['k']}:{B['k']}", step=list(step))
            ne = self.run(step, lambda: ra != rb, ("value", (), None))
            if want is not None and bool(ne) == want:
                raise Fail(f"({self.desc(ia)}) != ({self.desc(ib)}) returned {ne!r} although == is {want}", sig=f"ne:{fam}:{A['k']}:{B['k']}", step=list(step))
            self.mark(ia, ib)
            return f"eq:{A['k']}:{B['k']}:{'unjudged' if want is None else want}"
        base = INPLACE.get(op, op)
        inplace = op in INPLACE
        if A["k"] == "s" and B["k"] == "s":
            return None
        if inplace and A["k"] == "s":
            return None
        if inplace and ia == ib and (base == "add" or (base == "sub" and A["k"] != "tf")):
            # openfermion's own `a += a` / `a -= a` delete small coefficients from the dictionary they iterate over
            # (RuntimeError "dictionary changed size"); that is not Tangelo code.  Tangelo's FermionOperator `a -= a`
            # is a += (-1.*a) on a fresh object and is kept.
            return None
        # model value
        if A["k"] == "s" or B["k"] == "s":
            s, M, s_left = (A, B, True) if A["k"] == "s" else (B, A, False)
            v = complex(s["val"])
            if base == "mul":
                exp = m_scale(M["terms"], v)
            elif base == "add":
                exp = m_add(M["terms"], {(): v})
            else:
                exp = m_add({(): v}, M["terms"], -1) if s_left else m_add(M["terms"], {(): v}, -1)
        else:
            if base == "mul":
                if len(A["terms"]) * len(B["terms"]) > MAX_TERMS:
                    return None
                exp = m_mul(fam, A["terms"], B["terms"])
            else:
                exp = m_add(A["terms"], B["terms"], 1 if base == "add" else -1)
        if scale_of(exp) > 1e9:
            return None
        mode = expectation(fam, op, A, B)
        step = (op, ia, ib)
        fn = {"add": O.add, "sub": O.sub, "mul": O.mul, "iadd": O.iadd, "isub": O.isub, "imul": O.imul}[op]
        r = self.run(step, lambda: fn(ra, rb), mode)
        lab = f"{op}:{A['k'] if A['k'] != 's' else 'scalar'}:{B['k'] if B['k'] != 's' else 'scalar'}"
        if r is REFUSED:
            self.check_unchanged(step)          # a refused operation must leave everything (also its left operand) intact
            self.mark(ia, ib)
            return lab + ":refused"
        if mode[0] == "raise":
            raise Fail(f"{op}({self.desc(ia)}, {self.desc(ib)}) returned {show(r.terms) if hasattr(r, 'terms') else r!r} although the operands' "
                       f"annotations differ ({A.get('attrs')} vs {B.get('attrs')}); the code documents RuntimeError",
                       sig=f"mismatch-accepted:{fam}:{A['k']}:{op}:{B['k']}", step=list(step))
        kind, attrs = self.check_value(step, r, exp, mode[2], "in-place result" if inplace else "result")
        if inplace:
            self.check_unchanged(step, allowed=ia)
            self.no_sharing(step, r, allowed=ia)
            self.model[ia] = {"k": kind, "attrs": attrs, "terms": exp}
            self.real[ia] = r
            self.snap[ia] = self.snapshot(self.model[ia], r)
            self.check_eq_forms(step, r, kind, attrs)
        else:
            self.check_unchanged(step)
            self.no_sharing(step, r)
            self.push({"k": kind, "attrs": attrs, "terms": exp}, r)
            self.check_eq_forms(step, r, kind, attrs)
        self.mark(ia, ib)
        if (A["k"] == "s" and A["val"] == 0) or (B["k"] == "s" and B["val"] == 0):
            self.labels.add("zero-scalar:" + base)
        if base == "mul" and A["k"] != "s" and B["k"] != "s" and any(c == 0 for c in exp.values()):
            self.labels.add("product-with-cancelling-cross-terms")
        if ia == ib:
            self.labels.add("aliased-operands")
        if A["k"] == "s":
            self.labels.add("scalar-left:" + A["t"])
        if B["k"] == "s":
            self.labels.add("scalar-right:" + B["t"])
        if A["k"] != "s" and B["k"] != "s" and A["k"] != B["k"]:
            self.labels.add("mixed-classes")
        return lab

    def run(self, step, thunk, mode):
        """Run the operation under test; classify every exception (never swallowed silently)."""
        op, ia, ib = step
        try:
            return thunk()
        except Exception as e:   # classified below: allowed documented refusal, or a violation
            ka = self.model[ia]["k"]
            kb = self.model[ib]["k"] if ib is not None else "-"
            if mode[0] in ("raise", "either") and isinstance(e, mode[1]):
                return REFUSED
            cls = {"tq": "plain", "oq": "plain", "s": "scalar"}
            raise Fail(f"{op}({self.desc(ia)}, {self.desc(ib) if ib is not None else ''}) raised {type(e).__name__}: {e}",
                       sig=f"exception:{self.fam}:{cls.get(ka, ka)}:{INPLACE.get(op, op)}:{cls.get(kb, kb)}:{type(e).__name__}", step=list(step))


REFUSED = object()


def run_history(case):
    m = Machine(case["fam"], case["pool"])
    for rec in case["ops"]:
        lab = m.apply(rec["op"], rec["a"], rec["b"])
        if lab is None:
            m.labels.add("noop")
        else:
            m.labels.add(lab)
            m.labels.add("op:" + rec["op"])
    return m


# ------------------------------------------------------------------------------------------------ strategies (plain data)

dyadic = st.integers(-12, 12).filter(lambda k: k != 0).map(lambda k: k / 4.0)
coeff_re = st.one_of(dyadic, st.floats(-3, 3, allow_nan=False).filter(lambda x: abs(x) > 1e-3))


@st.composite
def coeffs(draw):
    re = draw(coeff_re)
    im = draw(st.one_of(st.just(0.0), st.just(0.0), dyadic))
    return re, im


@st.composite
def f_term(draw):
    return draw(st.lists(st.tuples(st.integers(0, 3), st.integers(0, 1)).map(list), min_size=0, max_size=3))


@st.composite
def q_term(draw):
    qs = draw(st.lists(st.integers(0, 3), unique=True, min_size=0, max_size=3))
    return [[q, draw(st.sampled_from("XYZ"))] for q in sorted(qs)]


@st.composite
def operand(draw, fam, max_terms=3):
    terms = []
    for t in draw(st.lists(f_term() if fam == "F" else q_term(), min_size=0, max_size=max_terms)):
        re, im = draw(coeffs())
        terms.append([t, re, im])
    if fam == "F":
        k = draw(st.sampled_from(["tf", "tf", "of"]))
        attrs = draw(st.sampled_from(F_ATTRS + [F_ATTRS[0], F_ATTRS[1]])) if k == "tf" else None
    else:
        k = draw(st.sampled_from(["tq", "th", "th", "oq"]))
        attrs = draw(st.sampled_from(Q_ANN + [Q_ANN[1]])) if k == "th" else None
    return {"k": k, "attrs": attrs, "terms": terms}


@st.composite
def scalar(draw):
    t = draw(st.sampled_from(SCALAR_TYPES))
    if t in ("int", "npint"):
        return {"k": "s", "t": t, "v": [draw(st.sampled_from([-3, -2, -1, 0, 0, 1, 2, 3])), 0]}
    if draw(st.integers(0, 5)) == 0:
        return {"k": "s", "t": t, "v": [0.0, 0]}           # zero-scalar forms: op + 0.0, 0 * op, ...
    re = draw(st.one_of(dyadic, st.floats(0.25, 4, allow_nan=False), st.floats(-4, -0.25, allow_nan=False)))
    im = draw(dyadic) if t in ("complex", "npcomplex") else 0
    return {"k": "s", "t": t, "v": [re, im]}


@st.composite
def histories(draw, fam, max_ops):
    pool = draw(st.lists(operand(fam), min_size=2, max_size=4))
    first = []
    if draw(st.integers(0, 2)) == 0:
        # conjugate pair c + x.w, c - x.w (same class): the product holds w with an explicit zero coefficient
        w = draw(f_term() if fam == "F" else q_term()) or ([[0, 1]] if fam == "F" else [[0, "X"]])
        c, x = draw(dyadic), draw(dyadic)
        k = draw(st.sampled_from(["tf", "of"] if fam == "F" else ["tq", "th", "oq"]))
        attrs = list(F_ATTRS[0]) if k == "tf" else None
        i = len(pool)
        pool += [{"k": k, "attrs": attrs, "terms": [[[], c, 0.0], [w, x, 0.0]]}, {"k": k, "attrs": attrs, "terms": [[[], c, 0.0], [w, -x, 0.0]]}]
        first = [{"op": draw(st.sampled_from(["mul", "imul"])), "a": i, "b": i + 1}]
    pool += draw(st.lists(scalar(), min_size=1, max_size=2))
    ops = first + draw(st.lists(st.fixed_dictionaries({"op": st.sampled_from(ALL_OPS + ["add", "sub", "mul"]),
                                               "a": st.integers(0, 11), "b": st.integers(0, 11)}), min_size=1, max_size=max_ops))
    return {"fam": fam, "pool": pool, "ops": ops}


def history_body(case):
    m = run_history(case)
    nontrivial = m.executed >= 3 and m.reused
    if m.reused:
        m.labels.add("operand-reused")
    return nontrivial, m.labels


# ------------------------------------------------------------------------------------------------ parts

def selftest():
    RO.selftest()
    # fermionic words multiply by concatenation: matrix(a*b) == matrix(a) @ matrix(b)
    a = {((0, 1), (2, 0)): 0.5, ((1, 1),): -2.0, (): 1.5}
    b = {((2, 1), (0, 0)): 1j, ((1, 0), (1, 1)): 0.25}
    assert np.allclose(RO.fermion_matrix(f_mul(a, b), 3), RO.fermion_matrix(a, 3) @ RO.fermion_matrix(b, 3))
    assert np.allclose(RO.fermion_matrix(m_add(a, b, -1), 3), RO.fermion_matrix(a, 3) - RO.fermion_matrix(b, 3))
    qa = {((0, "X"), (1, "Y")): 0.5, ((1, "Z"),): 2.0, (): -1.0}
    qb = {((0, "Y"),): 1j, ((0, "Z"), (1, "Y")): 0.25}
    assert np.allclose(RS.qop_matrix(RO.qop_mul(qa, qb), 2), RS.qop_matrix(qa, 2) @ RS.qop_matrix(qb, 2))
    assert terms_close({(): 1.0}, {(): 1.0 + 1e-9})[0] and not terms_close({(): 1.0}, {(): 1.001})[0]
    # the interpreter itself: a - a == 0 on plain openfermion operands, and a wrong model value is noticed
    m = Machine("F", [{"k": "of", "attrs": None, "terms": [[[[0, 1]], 2.0, 0.0]]}, {"k": "s", "t": "int", "v": [2, 0]}])
    assert m.apply("sub", 0, 0) is not None and exactly_equal(m.model[-1]["terms"], {})
    m.model[0]["terms"] = {((0, 1),): 3.0}
    try:
        m.apply("mul", 0, 1)
    except Fail:
        pass
    else:
        raise AssertionError("interpreter did not notice a wrong value")


@part("fermion_history", quick=400, thorough=20000)
def fermion_history(ctx):
    ctx.search("fermion_history", histories("F", 12 if ctx.tier == "quick" else 25), history_body)


@part("qubit_history", quick=400, thorough=20000)
def qubit_history(ctx):
    ctx.search("qubit_history", histories("Q", 12 if ctx.tier == "quick" else 25), history_body)


def matrix_cases():
    """Every (left class, operation, right class) combination on fixed small operands, incl. aliased operands."""
    f_ops = [{"k": "tf", "attrs": F_ATTRS[0], "terms": [[[[0, 1], [1, 0]], 2.0, 0.0], [[], 0.5, 0.0]]},
             {"k": "tf", "attrs": F_ATTRS[1], "terms": [[[[1, 1], [0, 0]], 3.0, 0.0]]},
             {"k": "tf", "attrs": F_ATTRS[2], "terms": [[[[1, 1], [0, 0]], 3.0, 0.0]]},
             {"k": "of", "attrs": None, "terms": [[[[2, 1], [0, 0]], 5.0, 0.0], [[[0, 1], [1, 0]], -2.0, 0.0]]},
             {"k": "tf", "attrs": F_ATTRS[0], "terms": [[[[0, 1], [1, 0]], -2.0, 0.0], [[], 0.5, 0.0]]},      # conjugate of the first: cross terms cancel
             {"k": "of", "attrs": None, "terms": [[[[0, 1], [1, 0]], -2.0, 0.0], [[], 0.5, 0.0]]}]
    q_ops = [{"k": "tq", "attrs": None, "terms": [[[[0, "X"]], 2.0, 0.0], [[], 0.5, 0.0]]},
             {"k": "th", "attrs": Q_ANN[1], "terms": [[[[0, "Y"], [2, "Z"]], 3.0, 0.0]]},
             {"k": "th", "attrs": Q_ANN[2], "terms": [[[[0, "Y"], [2, "Z"]], 3.0, 0.0]]},
             {"k": "th", "attrs": Q_ANN[3], "terms": [[[[0, "Y"], [2, "Z"]], 3.0, 0.0]]},
             {"k": "th", "attrs": Q_ANN[4], "terms": [[[[0, "Z"]], 0.25, 0.0]]},
             {"k": "th", "attrs": None, "terms": [[[[0, "Z"]], 3.0, 0.0]]},
             {"k": "oq", "attrs": None, "terms": [[[[0, "X"], [1, "Z"]], 7.0, 0.0], [[[0, "X"]], -2.0, 0.0]]},
             {"k": "tq", "attrs": None, "terms": [[[[0, "X"]], -2.0, 0.0], [[], 0.5, 0.0]]}]                    # conjugate of the first
    scal = [{"k": "s", "t": t, "v": v} for t, v in [("int", [2, 0]), ("float", [0.5, 0]), ("complex", [1.0, 2.0]), ("npint", [3, 0]),
                                                     ("npfloat", [0.25, 0]), ("npcomplex", [0.0, 1.0]), ("int", [0, 0]), ("float", [0.0, 0])]]
    out = []
    for fam, ops in (("F", f_ops), ("Q", q_ops)):
        pool = ops + scal
        n = len(pool)
        for i in range(n):
            for j in range(n):
                if pool[i]["k"] == "s" and pool[j]["k"] == "s":
                    continue
                for op in ["add", "sub", "mul", "div", "eq", "iadd", "isub", "imul"]:
                    if i == j:      # the same object on both sides
                        out.append({"fam": fam, "pool": [pool[i]], "ops": [{"op": op, "a": 0, "b": 0}]})
                    else:
                        out.append({"fam": fam, "pool": [pool[i], pool[j]], "ops": [{"op": op, "a": 0, "b": 1}]})
            if pool[i]["k"] != "s":
                out.append({"fam": fam, "pool": [pool[i]], "ops": [{"op": "neg", "a": 0, "b": 0}]})
    return out


@part("matrix", quick=1, thorough=1)
def matrix(ctx):
    def body(case):
        m = run_history(case)
        return m.executed >= 1, m.labels
    ctx.sweep("matrix", matrix_cases(), body)


# ------------------------------------------------------------------------------------------------ MultiformOperator

PAULI_INT = {"I": 0, "Z": 1, "X": 2, "Y": 3}
INT_PAULI = {v: k for k, v in PAULI_INT.items()}


def widths(max_small):
    """Register sizes: small ones, and the neighbourhoods of 32 and 64 qubits (fixed-width integer encodings of Pauli words
    change behaviour there; the array form is cheap at any width and the reference algebra is width-independent)."""
    return st.one_of(st.integers(1, max_small), st.integers(1, max_small), st.integers(30, 34), st.integers(62, 66))


@st.composite
def sparse_word(draw, n):
    """A Pauli word as a sorted list [[qubit, letter], ...]: few non-identity letters placed on the lowest qubits, on the
    highest qubits, or anywhere."""
    region = draw(st.sampled_from(["low", "high", "any", "any"]))
    pool = list(range(min(n, 3))) if region == "low" else (list(range(max(0, n - 3), n)) if region == "high" else list(range(n)))
    qs = draw(st.lists(st.sampled_from(pool), unique=True, min_size=0, max_size=min(len(pool), 4 if n > 6 else n)))
    return [[q, draw(st.sampled_from("XYZ"))] for q in sorted(qs)]


def word_variant(draw, w, n):
    """A word that differs from w on one qubit only, taken from the low end, the high end or anywhere."""
    region = draw(st.sampled_from(["low", "high", "any"]))
    q = draw(st.integers(0, min(n, 3) - 1)) if region == "low" else (draw(st.integers(max(0, n - 3), n - 1)) if region == "high" else draw(st.integers(0, n - 1)))
    d = {a: b for a, b in w}
    new = draw(st.sampled_from([x for x in "IXYZ" if x != d.get(q, "I")]))
    if new == "I":
        d.pop(q, None)
    else:
        d[q] = new
    return [[a, d[a]] for a in sorted(d)]


@st.composite
def pauli_op(draw, n, max_terms=5, min_terms=1, coeff=None):
    words = draw(st.lists(sparse_word(n), min_size=min_terms, max_size=max_terms, unique_by=lambda w: tuple(map(tuple, w))))
    for _ in range(draw(st.integers(0, 2)) if max_terms > 1 else 0):
        v = word_variant(draw, words[draw(st.integers(0, len(words) - 1))], n) if words else None
        if v is not None and v not in words:
            words.append(v)
    out = []
    for w in words:
        re, im = draw(coeff) if coeff is not None else draw(coeffs())
        out.append([w, re, im])
    return out


@st.composite
def multiform_pairs(draw, max_n):
    n = draw(widths(max_n))
    kind = draw(st.integers(0, 5))
    A = draw(pauli_op(n))
    if kind == 0:
        # B built from A's words: products that cancel / repeated words after multiplication
        B = [[w, draw(dyadic), 0.0] for w, _, _ in A]
        if draw(st.booleans()):
            B = [[w, -c if i % 2 else c, 0.0] for i, (w, c, _) in enumerate(B)]
    else:
        B = draw(pauli_op(n))
    return {"n": n, "A": A, "B": B}


def word_key(w):
    """dense string ('XIZ') or sparse list ([[0,'X'],[2,'Z']]) -> openfermion term tuple."""
    if isinstance(w, str):
        return tuple((q, p) for q, p in enumerate(w) if p != "I")
    return tuple((int(q), str(p)) for q, p in sorted(map(tuple, w)))


def word_terms(op):
    d = {}
    for w, re, im in op:
        k = word_key(w)
        d[k] = d.get(k, 0) + (complex(re, im) if im != 0 else float(re))
    return d


def row_to_key(row):
    return tuple((q, INT_PAULI[int(x)]) for q, x in enumerate(row) if int(x) != 0)


def width_label(n):
    return "n<=6" if n <= 6 else ("n=30..32" if n <= 32 else ("n=33..34" if n <= 34 else ("n=62..64" if n <= 64 else "n=65..66")))


def check_encoding(mo, n, what, strict=False):
    """integer / binary / binary_swap / factors arrays must describe exactly the term dictionary (row i <-> i-th term).
    strict=False tolerates words with |coefficient| < 2e-8 present on one side only (the symbolic container drops them)."""
    terms = list(mo.terms.items())
    rows = len(mo.factors)
    if mo.integer.shape != (rows, n) or mo.binary.shape != (rows, 2 * n) or mo.binary_swap.shape != (rows, 2 * n):
        raise Fail(f"{what}: array shapes integer {mo.integer.shape}, binary {mo.binary.shape}, binary_swap {mo.binary_swap.shape}, {rows} factors on {n} qubits",
                   sig=f"multiform:{what}:shape")
    if mo.n_terms != len(terms):
        raise Fail(f"{what}: n_terms {mo.n_terms} but {len(terms)} terms", sig=f"multiform:{what}:n_terms")
    if [row_to_key(r) for r in mo.integer] != [t for t, _ in terms]:
        arr = {}
        for r, f in zip(mo.integer, mo.factors):
            arr[row_to_key(r)] = arr.get(row_to_key(r), 0) + complex(f)
        ok, k = terms_close(arr, dict(terms), tol=2e-8)
        if strict or not ok:
            raise Fail(f"{what}: integer/factors arrays describe {show(arr)} but the term dictionary is {show(dict(terms))}", sig=f"multiform:{what}:arrays-vs-terms")
        return
    for i, (t, c) in enumerate(terms):
        x = [int(v) >> 1 for v in mo.integer[i]]
        z = [int(v) & 1 for v in mo.integer[i]]
        if [int(v) for v in mo.binary[i]] != x + z:
            raise Fail(f"{what}: binary row {i} is not (x|z) of the integer row encoding {t}", sig=f"multiform:{what}:binary")
        if [int(v) for v in mo.binary_swap[i]] != z + x:
            raise Fail(f"{what}: binary_swap row {i} is not (z|x) of the integer row encoding {t}", sig=f"multiform:{what}:binary_swap")
        if abs(complex(mo.factors[i]) - complex(c)) > 1e-12:
            raise Fail(f"{what}: factor {i} = {mo.factors[i]} but term coefficient {c}", sig=f"multiform:{what}:factors")


def check_commute(do_commute, A, ta, B, tb, what, labels):
    """do_commute (both modes) against word-by-word commutation; ta/tb: term dictionaries in the objects' term order."""
    pair = [[RO.words_commute(t1, t2) for t2 in tb] for t1 in ta]
    exp_res = [all(r) for r in pair]
    got_res = do_commute(A, B, term_resolved=True)
    if [bool(x) for x in got_res] != exp_res:
        raise Fail(f"{what}: do_commute(term_resolved) = {[bool(x) for x in got_res]}, word-by-word commutation of the current terms gives {exp_res}",
                   sig="multiform:do_commute:term_resolved")
    got = do_commute(A, B)
    prod = RO.qop_mul(ta, tb)
    comm = RO.qop_add(prod, RO.qop_mul(tb, ta), -1)
    comm_zero = all(abs(c) <= 1e-9 * scale_of(prod) for c in comm.values())
    if all(exp_res):
        labels.add("commuting")
        if not comm_zero:
            raise Fail("reference inconsistency: all words commute but AB-BA != 0", sig="oracle")
        if not bool(got):
            raise Fail(f"{what}: do_commute(A,B) is False although every word of A commutes with every word of B (AB-BA = 0)", sig="multiform:do_commute:false-negative")
    elif not comm_zero:
        labels.add("anticommuting-some" if any(exp_res) else "anticommuting-all")
        if bool(got):
            raise Fail(f"{what}: do_commute(A,B) is True although AB-BA = {show(comm)} != 0 (words of A commuting with all of B: {exp_res})",
                       sig="multiform:do_commute:false-positive")
    else:
        labels.add("commutator-cancels-unjudged")


def build_multiform(op, n):
    from tangelo.toolboxes.operators import QubitOperator, MultiformOperator
    q = QubitOperator()
    q.terms = word_terms(op)
    return MultiformOperator.from_qubitop(q, n), q


@part("multiform", quick=1500, thorough=60000)
def multiform(ctx):
    from tangelo.toolboxes.operators.multiformoperator import do_commute
    max_n = 4 if ctx.tier == "quick" else 6

    def body_mul(case):
        n = case["n"]
        ta, tb = word_terms(case["A"]), word_terms(case["B"])
        A, qa = build_multiform(case["A"], n)
        B, qb = build_multiform(case["B"], n)
        check_encoding(A, n, "from_qubitop", strict=True)
        snapA = (dict(A.terms), A.integer.copy(), A.binary.copy(), np.array(A.factors).copy())
        snapB = (dict(B.terms), B.integer.copy(), B.binary.copy(), np.array(B.factors).copy())
        labels = {width_label(n)}
        exp = RO.qop_mul(ta, tb)
        P = A * B
        ok, k = terms_close(dict(P.terms), exp, tol=1e-9 * scale_of(exp))
        if not ok:
            raise Fail(f"MultiformOperator product on {n} qubits differs from the symbolic product at term {k}: got {P.terms.get(k, 0)}, expected {exp.get(k, 0)}",
                       sig="multiform:mul:value")
        sym = qa * qb
        ok, k = terms_close(dict(sym.terms), exp, tol=1e-9 * scale_of(exp))
        if not ok:
            raise Fail(f"QubitOperator product differs from the reference Pauli algebra at {k}", sig="qubitoperator:mul:value")
        nz = {t: c for t, c in exp.items() if abs(c) > 1e-9 * scale_of(exp)}
        if len(nz) < len(ta) * len(tb):
            labels.add("product-collapses-duplicates")
        if len(nz) < len(exp):
            labels.add("product-term-cancels")
        if not nz:
            labels.add("product-zero")
        if P.n_qubits != n:
            raise Fail(f"product has n_qubits={P.n_qubits}, operands {n}", sig="multiform:mul:n_qubits")
        check_encoding(P, n, "mul")
        for name, obj, sn in (("left", A, snapA), ("right", B, snapB)):
            if dict(obj.terms) != sn[0] or not np.array_equal(obj.integer, sn[1]) or not np.array_equal(obj.binary, sn[2]) or not np.array_equal(obj.factors, sn[3]):
                raise Fail(f"MultiformOperator product mutated its {name} operand", sig=f"multiform:mul:mutated-{name}")
        return len(ta) >= 2 and len(tb) >= 2, labels

    def body_commute(case):
        n = case["n"]
        ta, tb = word_terms(case["A"]), word_terms(case["B"])
        A, _ = build_multiform(case["A"], n)
        B, _ = build_multiform(case["B"], n)
        labels = {width_label(n)}
        check_commute(do_commute, A, ta, B, tb, "fresh operands", labels)
        return len(ta) >= 2 and len(tb) >= 2, labels

    ctx.search("mul", multiform_pairs(max_n), body_mul, frac=0.5)
    ctx.search("do_commute", multiform_pairs(max_n), body_commute, frac=0.5)


@part("collapse", quick=600, thorough=20000)
def collapse(ctx):
    from tangelo.toolboxes.operators import MultiformOperator

    @st.composite
    def cases(draw):
        n = draw(widths(4))
        base = draw(st.lists(sparse_word(n), min_size=1, max_size=5))
        for _ in range(draw(st.integers(0, 3))):
            base.append(word_variant(draw, base[draw(st.integers(0, len(base) - 1))], n))
        rows, fac = [], []
        for r in draw(st.lists(st.sampled_from(base), min_size=1, max_size=10)):
            rows.append(r)
            re, im = draw(coeffs())
            fac.append([re, im])
        if draw(st.booleans()) and len(rows) >= 2:
            # force an exact cancellation
            rows[-1] = rows[0]
            fac[-1] = [-fac[0][0], -fac[0][1]]
        return {"n": n, "rows": rows, "fac": fac}

    def dense(r, n):
        if r and not isinstance(r[0], (list, tuple)):
            return [int(x) for x in r]          # older replay files: dense integer rows
        row = [0] * n
        for q, p in r:
            row[q] = PAULI_INT[p]
        return row

    def body(case):
        n = case["n"]
        drows = [dense(r, n) for r in case["rows"]]
        rows = np.array(drows, dtype=int).reshape(len(drows), n)
        fac = np.array([complex(a, b) for a, b in case["fac"]])
        r0, f0 = rows.copy(), fac.copy()
        exp = {}
        for r, f in zip(drows, fac):
            exp[tuple(r)] = exp.get(tuple(r), 0) + f
        uniq, fs = MultiformOperator.collapse(rows, fac)
        got = {}
        for r, f in zip(np.asarray(uniq).reshape(-1, n) if len(fs) else [], fs):
            key = tuple(int(x) for x in r)
            if key in got:
                raise Fail(f"collapse returned the word {row_to_key(key)} twice", sig="multiform:collapse:duplicate")
            got[key] = f
        ok, k = terms_close(got, exp, tol=1e-12 * scale_of(exp))
        if not ok:
            raise Fail(f"collapse on {n} qubits: word {row_to_key(k)} has factor {got.get(k, 0)}, symbolic merging gives {exp.get(k, 0)} "
                       f"({len(got)} words returned, {len([v for v in exp.values() if v != 0])} expected)", sig="multiform:collapse:value")
        if any(f == 0 for f in fs):
            raise Fail("collapse kept a word with factor exactly 0", sig="multiform:collapse:zero-kept")
        if not np.array_equal(rows, r0) or not np.array_equal(fac, f0):
            raise Fail("collapse mutated its input arrays", sig="multiform:collapse:mutated")
        labels = {width_label(n)}
        if len(exp) < len(drows):
            labels.add("duplicates")
        if any(abs(v) == 0 for v in exp.values()):
            labels.add("zero-sum")
        keys = list(exp)
        for a in range(len(keys)):
            for b in range(a + 1, len(keys)):
                diff = [q for q in range(n) if keys[a][q] != keys[b][q]]
                if diff and max(diff) < 3:
                    labels.add("words-differ-on-low-qubits-only")
                if diff and min(diff) >= n - 3:
                    labels.add("words-differ-on-high-qubits-only")
        return len(exp) < len(drows), labels

    ctx.search("collapse", cases(), body)


# ------------------------------------------------------------------------------------------------ do_commute on large operators

L_DIGIT = "IXYZ"          # the check's own digit -> letter convention for generated words (x bit: X,Y ; z bit: Y,Z)


def affine_codes(n, k, a, b):
    """k distinct base-4 word codes on n qubits: i -> mix((a*i + b) mod 4**n) with a odd (a bijection of the 2n-bit integers),
    a pure function of the case data (large operators cannot be drawn element by element)."""
    m = 4 ** n
    out = []
    for i in range(k):
        x = ((2 * a + 1) * i + b) % m
        x ^= x >> n                  # xor-shift: bijective on 2n-bit integers
        out.append(x)
    return out


def code_digits(codes, n):
    d = np.zeros((len(codes), n), dtype=np.int64)
    for i, x in enumerate(codes):
        for q in range(n):
            d[i, q] = (x >> (2 * (n - 1 - q))) & 3
    return d


def digits_terms(d, coeff):
    terms = {}
    for i, row in enumerate(d):
        terms[tuple((q, L_DIGIT[int(v)]) for q, v in enumerate(row) if v)] = coeff(i)
    return terms


@part("commute_large", quick=48, thorough=2400)
def commute_large(ctx):
    """do_commute on operators with hundreds / thousands of words, judged by an independent vectorised symplectic product
    (x_a.z_b + z_a.x_b mod 2) computed from the check's own encoding of the generated words."""
    from tangelo.toolboxes.operators import QubitOperator, MultiformOperator
    from tangelo.toolboxes.operators.multiformoperator import do_commute

    @st.composite
    def cases(draw):
        n = draw(st.integers(30, 34)) if draw(st.integers(0, 5)) == 0 else draw(st.integers(5, 8))
        cap = 4 ** n if n <= 8 else 1200        # wide registers: fewer words (the cost is per letter)
        ra = {"s": (1, 8), "m": (100, 300), "l": (1000, 4096)}[draw(st.sampled_from(["s", "m", "m", "l", "l", "l"]))]
        rb = {"s": (1, 8), "m": (50, 120), "l": (120, 300)}[draw(st.sampled_from(["s", "m", "l", "l"]))]
        ka = min(cap, draw(st.integers(*ra)))
        kb = min(cap, draw(st.integers(*rb)))
        return {"n": n, "ka": ka, "kb": kb, "a": [draw(st.integers(0, 10**6)), draw(st.integers(0, 4 ** n - 1))],
                "b": [draw(st.integers(0, 10**6)), draw(st.integers(0, 4 ** n - 1))],
                "commuting_family": draw(st.integers(0, 7)) == 0}

    def body(case):
        n = case["n"]
        da = code_digits(affine_codes(n, case["ka"], *case["a"]), n)
        db = code_digits(affine_codes(n, case["kb"], *case["b"]), n)
        if case["commuting_family"]:
            # Z/I words only on both sides: everything commutes
            da, db = np.where(da % 2 == 1, 3, 0), np.where(db % 2 == 1, 3, 0)
            da, db = np.unique(da, axis=0), np.unique(db, axis=0)
        ta = digits_terms(da, lambda i: 1.0 + 0.001 * i)
        tb = digits_terms(db, lambda i: 0.5 + 0.003 * i)
        qa, qb = QubitOperator(), QubitOperator()
        qa.terms, qb.terms = dict(ta), dict(tb)
        A, B = MultiformOperator.from_qubitop(qa, n), MultiformOperator.from_qubitop(qb, n)
        xa, za = ((da == 1) | (da == 2)).astype(np.int64), ((da == 2) | (da == 3)).astype(np.int64)
        xb, zb = ((db == 1) | (db == 2)).astype(np.int64), ((db == 2) | (db == 3)).astype(np.int64)
        anti = (xa @ zb.T + za @ xb.T) % 2                       # [i, j] = 1 iff word i of A anticommutes with word j of B
        labels = {"n=5..8" if n <= 8 else "n=30..34", "ka=" + ("1..8" if len(da) <= 8 else ("100..300" if len(da) <= 300 else "1000+")),
                  "kb=" + ("1..8" if len(db) <= 8 else "50..300"), "work-array>2^20" if len(da) * len(db) * 2 * n > 2 ** 20 else "work-array<=2^20"}
        for X, Y, M, tx, ty, name in ((A, B, anti, ta, tb, "do_commute(A,B)"), (B, A, anti.T, tb, ta, "do_commute(B,A)")):
            exp_res = ~M.any(axis=1)
            got = np.asarray(do_commute(X, Y, term_resolved=True)).astype(bool)
            if got.shape != exp_res.shape or not np.array_equal(got, exp_res):
                bad = np.nonzero(got != exp_res)[0] if got.shape == exp_res.shape else []
                raise Fail(f"{name} term_resolved on {len(tx)} x {len(ty)} words, {n} qubits: {len(bad)} entries differ from the symplectic product, "
                           f"first at rows {list(bad[:5])} (expected {list(exp_res[bad[:5]])})", sig="multiform:do_commute:large:term_resolved")
            g = bool(do_commute(X, Y))
            if exp_res.all():
                labels.add("all-commute")
                if not g:
                    raise Fail(f"{name} is False although every pair of words commutes", sig="multiform:do_commute:large:false-negative")
            else:
                # certify AB-BA != 0 on one word before holding the global answer to False
                i, j = [int(v) for v in np.argwhere(M)[0]]
                kx, ky = list(tx), list(ty)
                _, w = RO.pauli_mul(kx[i], ky[j])
                coef = 0
                for t1, c1 in tx.items():
                    _, t2 = RO.pauli_mul(t1, w)
                    if t2 in ty and not RO.words_commute(t1, t2):
                        coef += 2 * RO.pauli_mul(t1, t2)[0] * c1 * ty[t2]
                if abs(coef) > 1e-9:
                    labels.add("commutator-certified-nonzero")
                    if g:
                        raise Fail(f"{name} is True although AB-BA has coefficient {coef} on {w}", sig="multiform:do_commute:large:false-positive")
                else:
                    labels.add("commutator-unjudged")
        return len(da) > 8 and len(db) > 8, labels

    ctx.search("commute_large", cases(), body)


# ------------------------------------------------------------------------------------------------ MultiformOperator histories

hist_coeff = st.tuples(st.sampled_from([0.5, 1.0, -1.0, 1.5, 2.0, -0.5]), st.sampled_from([0.0, 0.0, 0.0, 0.5, -1.0]))
hist_scalar = st.sampled_from([[2.0, 0.0], [-1.0, 0.0], [0.5, 0.0], [0.0, 1.0], [0.0, -0.5], [1.0, 1.0], [3.0, 0.0]])


@st.composite
def multiform_histories(draw, max_small, max_ops):
    n = draw(widths(max_small))
    start = draw(pauli_op(n, max_terms=4, coeff=hist_coeff))
    probe = draw(pauli_op(n, max_terms=3, coeff=hist_coeff))
    # blocks: 1-3 in-place operations, a re-synchronisation, then observations on the synchronised operator
    names = []
    while len(names) < max_ops:
        names += draw(st.lists(st.sampled_from(["iadd", "isub", "imul", "imul", "scale", "addc"]), min_size=1, max_size=3))
        names.append(draw(st.sampled_from(["compress", "compress", "compress", "compress", "update"])))
        names += draw(st.lists(st.sampled_from(["commute", "commute", "mul", "remove"]), min_size=0, max_size=3))
        if draw(st.integers(0, 2)) == 0:
            break
    ops = []
    for o in names[:max_ops]:
        rec = {"op": o}
        if o in ("iadd", "isub", "imul", "mul"):
            kind = draw(st.integers(0, 3))
            if kind <= 1 and o in ("iadd", "isub"):
                rec["own"] = draw(st.integers(0, 5))        # a word currently in the operator (taken modulo the term count)
                rec["c"] = list(draw(hist_coeff))
            else:
                rec["arg"] = draw(pauli_op(n, max_terms=1 if (o in ("imul", "mul") and kind <= 2) else 2, coeff=hist_coeff))
            if o == "mul":
                rec["keep"] = draw(st.booleans())
        elif o in ("scale", "addc"):
            rec["s"] = draw(hist_scalar)
        elif o == "remove":
            rec["idx"] = draw(st.lists(st.integers(0, 7), min_size=0, max_size=3))
            rec["form"] = draw(st.sampled_from(["array", "list", "int"]))
        ops.append(rec)
    return {"n": n, "start": start, "probe": probe, "ops": ops}


@part("multiform_history", quick=600, thorough=30000)
def multiform_history(ctx):
    """Chains of in-place symbolic arithmetic on a MultiformOperator, re-synchronised by compress()/_update()/remove_terms():
    whenever the class says the array forms are in sync, they must encode the current terms, and do_commute / the array
    product must answer for the current operator."""
    from tangelo.toolboxes.operators.multiformoperator import do_commute

    def sval(s):
        return complex(s[0], s[1]) if s[1] != 0 else float(s[0])

    def body(case):
        n = case["n"]
        M, _ = build_multiform(case["start"], n)
        model = dict(word_terms(case["start"]))
        probe, _ = build_multiform(case["probe"], n)
        tp = dict(probe.terms)
        labels = {width_label(n)}
        synced, executed, stale_then_sync = True, 0, 0
        dirty_kind = set()

        def check_sync(what):
            ok, k = terms_close(dict(M.terms), model, tol=1e-9 * scale_of(model))
            if not ok:
                raise Fail(f"{what}: terms {show(dict(M.terms))} differ from the symbolic model {show(model)} at {k}", sig="multiform:history:terms")
            if M.n_qubits != n:
                raise Fail(f"{what}: n_qubits became {M.n_qubits} (register {n})", sig="multiform:history:n_qubits")
            check_encoding(M, n, "history", strict=True)

        check_sync("from_qubitop")
        for i, rec in enumerate(case["ops"]):
            o = rec["op"]
            what = f"step {i} {o}"
            if o in ("iadd", "isub", "imul", "mul"):
                if "own" in rec:
                    keys = list(M.terms)
                    if not keys:
                        continue
                    k = keys[rec["own"] % len(keys)]
                    arg_terms = {k: (M.terms[k] if rec["own"] % 2 == 0 else sval(rec["c"]))}
                else:
                    arg_terms = word_terms(rec["arg"])
                if not arg_terms:
                    continue
                from tangelo.toolboxes.operators import QubitOperator, MultiformOperator
                q = QubitOperator()
                q.terms = dict(arg_terms)
                other = MultiformOperator.from_qubitop(q, n)
            if o == "iadd":
                M += other
                model = RO.qop_add(model, arg_terms, 1)
                synced = False
                dirty_kind.add("+=")
            elif o == "isub":
                M -= other
                model = RO.qop_add(model, arg_terms, -1)
                synced = False
                dirty_kind.add("-=")
            elif o == "imul":
                if len(model) * len(arg_terms) > 40:
                    continue
                M *= other
                model = RO.qop_mul(model, arg_terms)
                synced = False
                dirty_kind.add("*=word" if len(arg_terms) == 1 else "*=op")
            elif o == "scale":
                M *= sval(rec["s"])
                model = m_scale(model, sval(rec["s"]))
                synced = False
                dirty_kind.add("*=scalar")
            elif o == "addc":
                M += sval(rec["s"])
                model = m_add(model, {(): sval(rec["s"])})
                synced = False
                dirty_kind.add("+=scalar")
            elif o in ("compress", "update"):
                before = len(M.integer)
                if o == "compress":
                    M.compress(n_qubits=n)
                    model = {t: c for t, c in model.items() if abs(c) > 1e-8}
                else:
                    M._update(n_qubits=n)
                if not synced:
                    stale_then_sync += 1
                    labels.add("resync-after:" + "+".join(sorted(dirty_kind)))
                    if len(M.terms) == before:
                        labels.add("resync-with-unchanged-term-count")
                dirty_kind.clear()
                synced = True
                check_sync(what)
            elif o == "remove":
                # remove_terms works on the arrays: only meaningful when they are in sync and hold no negligible coefficient
                if not synced or not M.terms or any(abs(c) <= 1e-6 for c in model.values()) or len(model) != len(M.terms):
                    continue
                keys = list(M.terms)
                idx = sorted({j % len(keys) for j in rec["idx"]})
                if rec["form"] == "int":
                    idx = idx[:1]
                    if not idx:
                        continue
                    M.remove_terms(int(idx[0]))
                else:
                    M.remove_terms(np.array(idx, dtype=int) if rec["form"] == "array" else list(idx))
                for j in idx:
                    model.pop(keys[j], None)
                labels.add("remove_terms:" + rec["form"])
                check_sync(what)
            elif o == "mul":
                if not synced or not M.terms or len(model) * len(arg_terms) > 40:
                    continue
                P = M * other
                exp = RO.qop_mul(model, arg_terms)
                ok, k = terms_close(dict(P.terms), exp, tol=1e-9 * scale_of(exp))
                if not ok:
                    raise Fail(f"{what}: array product after the history differs from the symbolic product at {k}: got {P.terms.get(k, 0)}, expected {exp.get(k, 0)}",
                               sig="multiform:history:mul")
                check_encoding(P, n, "history-mul")
                labels.add("array-product")
                if rec.get("keep"):
                    M, model = P, {t: c for t, c in exp.items() if abs(c) > 1e-9 * scale_of(exp)}
                    check_sync(what)
            elif o == "commute":
                if not synced:
                    continue
                ta = {t: model.get(t, 0) for t in M.terms}
                check_commute(do_commute, M, ta, probe, tp, what, labels)
                check_commute(do_commute, probe, tp, M, ta, what + " (probe first)", labels)
                labels.add("commute-checked")
            executed += 1
            labels.add("op:" + o)
        if not M.terms:
            labels.add("ends-empty")
        return executed >= 3 and stale_then_sync >= 1, labels

    ctx.search("multiform_history", multiform_histories(4 if ctx.tier == "quick" else 6, 10 if ctx.tier == "quick" else 16), body)
