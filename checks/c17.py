"""C17 - circuits and operators survive export/import round trips (IonQ JSON, ProjectQ text, Gate repr/eval, operators).

Oracle = round trip, decided by the check's own field-by-field comparison (never Gate.__eq__/Circuit.__eq__, which round
parameters): same gate names (CNOT == CX), identical target and control lists, parameters bit-identical as IEEE doubles,
same circuit width.  Gates a format cannot express must be refused with ValueError by the writer.
"""
import json
import math
import struct

import numpy as np
from hypothesis import strategies as st

from vlib.runner import part, Fail, Skip
from vlib import strategies as S

PROPERTY = "C17"
RULE = ("Hypothesis-generated circuits over each format's supported gate set (IonQ JSON: H X Y Z S T RX RY RZ PHASE SWAP XX CRX CRY CRZ "
        "CPHASE CX CY CZ CNOT with 1-3 controls; ProjectQ text: H X Y Z S T RX RY RZ PHASE CNOT), registers of 1-6, 9-12, 20, 33, 101 qubits with the "
        "gates on the lowest, highest or spread (multi-digit) indices, idle inner and top qubits, fixed width, "
        "parameters from [-4pi,4pi], multiples of pi/4, 1e-20, 1e17, -0.0, 5e-324, 1.8e308, ints, numpy float64; export then import and compare "
        "field by field (parameters bit-identical); circuits containing >=1 gate outside the set must be refused with ValueError on export. "
        "Gate repr/eval: every built-in name + custom names, int/list/ndarray targets and controls, float/int/numpy/str/empty/dict-of-gates "
        "parameters, variational flag. Operators: qubit operators on <=12 qubits with gaps, identity term, complex coefficients through "
        "tangelo->cirq->tangelo and to_openfermion/from_openfermion. Non-trivial circuit = (>=1 parameterised and >=1 controlled gate) or an "
        "idle top qubit; gate = has control or parameter; operator = >=2 terms. Thorough adds atheris campaigns on the two importers with the "
        "oracle import -> export -> import is a fixed point. Distinct = distinct canonical JSON of the case.")
ASSUMPTIONS = ["OpenQASM / qiskit / braket circuit formats and projectq / qiskit / qulacs / pennylane operator formats need packages that are not "
               "installed: not exercised (the property conditions on their presence)",
               "ProjectQ MEASURE is excluded from round trips (the importer documents that Measure instructions are ignored)",
               "an int parameter may come back as the float of the same value from the ProjectQ text (value and sign compared, not the Python type)",
               "operator coefficients are 0 or >=1e-6 in magnitude (openfermion's containers drop |c|<1e-8 on addition by design); compared to 1e-12",
               "string parameters of Gate repr/eval are identifier-like (no quotes/backslashes)",
               "cirq's PauliSum and openfermion's qubit_operator_to_pauli_sum are part of the path under test, not of the oracle"]
SHARDS = {"quick": 4, "thorough": 16}

IONQ_SET = ["H", "X", "Y", "Z", "S", "T", "RX", "RY", "RZ", "PHASE", "SWAP", "XX", "CRX", "CRY", "CRZ", "CPHASE", "CX", "CY", "CZ", "CNOT"]
PROJECTQ_SET = ["H", "X", "Y", "Z", "S", "T", "RX", "RY", "RZ", "PHASE", "CNOT"]
SPECIAL_ANGLES = [1e-20, -1e-20, 1e17, -0.0, 0.0, 5e-324, 1.7976931348623157e308, 0.1 + 0.2, 1 / 3, 2 * math.pi, 1e-7, 123456789.123456789]


def bits(x):
    return struct.pack(">d", float(x))


def same_number(a, b):
    """Bit-identical as doubles (distinguishes -0.0 from 0.0; int 1 and float 1.0 are the same value)."""
    if isinstance(a, bool) or isinstance(b, bool):
        return a is b
    num = (int, float, np.integer, np.floating)
    if isinstance(a, num) and isinstance(b, num):
        if isinstance(a, (int, np.integer)) and isinstance(b, (int, np.integer)):
            return int(a) == int(b)
        return bits(a) == bits(b)
    return False


def same_param(a, b):
    if isinstance(a, str) or isinstance(b, str):
        return isinstance(a, str) and isinstance(b, str) and a == b
    if a is None or b is None:
        return a is None and b is None
    return same_number(a, b)


angle_st = st.one_of(S.angles(), st.sampled_from(SPECIAL_ANGLES), st.floats(allow_nan=False, allow_infinity=False))


WIDTHS = st.one_of(st.integers(1, 6), st.integers(1, 6), st.sampled_from([9, 10, 11, 12]), st.sampled_from([9, 10, 11, 12]), st.sampled_from([20, 33, 101]))


@st.composite
def rt_circuits(draw, names, max_width, max_gates, max_controls, fixed=None):
    """Gates are drawn on a few logical qubits and then placed on a register of 1-6, 9-12, 20, 33 or 101 qubits: on its lowest
    indices, on its highest indices, or spread (two- and three-digit indices; widths are just integers for these formats).
    fixed=False: width inferred from the gates; True: n_qubits always given (the register size, or 0-2 idle top qubits);
    None: mixed."""
    c = draw(S.circuits(max_width=max_width, max_gates=max_gates, names=names, max_controls=max_controls, angle=angle_st,
                        allow_fixed=False))
    used = 1 + max([max(g["t"] + (g["c"] or [])) for g in c["gates"]], default=-1)
    W = max(draw(WIDTHS), used, 1)
    place = draw(st.sampled_from(["low", "high", "spread"]))
    if place == "low" or used == 0:
        phys = list(range(used))
    elif place == "high":
        phys = list(range(W - used, W))
    else:
        phys = sorted(draw(st.lists(st.integers(0, W - 1), unique=True, min_size=used, max_size=used)))
        phys = draw(st.permutations(phys)) if draw(st.booleans()) else phys
    for g in c["gates"]:
        g["t"] = [phys[q] for q in g["t"]]
        g["c"] = [phys[q] for q in g["c"]] if g["c"] else None
    top = 1 + max([max(g["t"] + (g["c"] or [])) for g in c["gates"]], default=-1)
    if fixed or (fixed is None and draw(st.integers(0, 3)) == 0):
        c["nq"] = draw(st.sampled_from([W, W, max(top, 1) + draw(st.integers(0, 2))]))
        c["nq"] = max(c["nq"], top, 1)
    else:
        c["nq"] = None
    for g in c["gates"]:
        if g["p"] is not None:
            g["pt"] = draw(st.sampled_from(["float", "float", "npfloat", "int"]))
            if g["pt"] == "int":
                g["p"] = draw(st.integers(-7, 7))
    return c


def build_gate(g):
    from tangelo.linq import Gate
    kw = {}
    if g.get("c"):
        kw["control"] = list(g["c"])
    if g.get("p") is not None:
        p = g["p"]
        kw["parameter"] = np.float64(p) if g.get("pt") == "npfloat" else (int(p) if g.get("pt") == "int" else p)
    return Gate(g["n"], list(g["t"]) if len(g["t"]) > 1 else g["t"][0], **kw)


def build_circuit(case):
    from tangelo.linq import Circuit
    return Circuit([build_gate(g) for g in case["gates"]], n_qubits=case.get("nq"))


def canon_name(n):
    return "CX" if n == "CNOT" else n


def compare_circuits(fmt, case, src, back):
    """src: the circuit that was exported (its gate list is the truth), back: the re-imported circuit."""
    if back.width != src.width:
        used = 1 + max([max(g.target + (g.control or [])) for g in src._gates], default=-1)
        kind = "idle-top-qubits" if src.width > used else "other"
        raise Fail(f"{fmt}: width {src.width} became {back.width} after export+import (highest used qubit {used - 1})",
                   sig=f"{fmt}:width:{kind}")
    if len(back._gates) != len(src._gates):
        raise Fail(f"{fmt}: {len(src._gates)} gates became {len(back._gates)}", sig=f"{fmt}:gate-count")
    for i, (a, b) in enumerate(zip(src._gates, back._gates)):
        if canon_name(a.name) != canon_name(b.name):
            raise Fail(f"{fmt}: gate {i} {a.name} came back as {b.name}", sig=f"{fmt}:name:{a.name}")
        if list(a.target) != list(b.target):
            raise Fail(f"{fmt}: gate {i} {a.name} target {a.target} came back as {b.target}", sig=f"{fmt}:target:{a.name}")
        if (list(a.control) if a.control else None) != (list(b.control) if b.control else None):
            raise Fail(f"{fmt}: gate {i} {a.name} control {a.control} came back as {b.control}", sig=f"{fmt}:control:{a.name}")
        pa = None if (isinstance(a.parameter, str) and a.parameter == "") else a.parameter
        pb = None if (isinstance(b.parameter, str) and b.parameter == "") else b.parameter
        if not same_param(pa, pb):
            raise Fail(f"{fmt}: gate {i} {a.name} parameter {pa!r} came back as {pb!r}", sig=f"{fmt}:parameter:{a.name}")


def circuit_labels(case):
    out = set()
    n = S.circuit_width(case)
    used = 1 + max([max(g["t"] + (g["c"] or [])) for g in case["gates"]], default=-1)
    if n > used:
        out.add("idle-top-qubit")
    if len({q for g in case["gates"] for q in g["t"] + (g["c"] or [])}) < used:
        out.add("idle-inner-qubit")
    if not case["gates"]:
        out.add("empty")
    out.add("width:" + ("1-6" if n <= 6 else ("7-9" if n <= 9 else ("10-12" if n <= 12 else ("13-99" if n < 100 else "100+")))))
    if n > used and n >= 11 and used <= 10:
        out.add("idle-top-qubits-across-10")
    if any(q >= 10 for g in case["gates"] for q in g["t"] + (g["c"] or [])):
        out.add("multi-digit-index")
    for g in case["gates"]:
        out.add("gate:" + g["n"])
        if g["c"] and len(g["c"]) > 1:
            out.add("multi-control")
        if g["p"] is not None:
            out.add("ptype:" + g.get("pt", "float"))
            p = g["p"]
            if p == 0 and math.copysign(1, p) < 0:
                out.add("negative-zero")
            if p != 0 and abs(p) < 1e-15:
                out.add("tiny-angle")
            if abs(p) > 1e15:
                out.add("huge-angle")
    return out


def circuit_nontrivial(case):
    par = any(g["p"] is not None for g in case["gates"])
    ctl = any(g["c"] for g in case["gates"])
    used = 1 + max([max(g["t"] + (g["c"] or [])) for g in case["gates"]], default=-1)
    return (par and ctl) or S.circuit_width(case) > used


# ------------------------------------------------------------------------------------------------ IonQ JSON

@part("ionq", quick=1000, thorough=40000)
def ionq(ctx):
    from tangelo.linq import translate_circuit
    mw, mg = (6, 12) if ctx.tier == "quick" else (8, 30)

    def body(case):
        src = build_circuit(case)
        exported = translate_circuit(src, "ionq")
        labels = circuit_labels(case)
        if not isinstance(exported, dict):
            raise Fail(f"ionq export returned {type(exported).__name__}", sig="ionq:export-type")
        back = translate_circuit(exported, "tangelo", source="ionq")
        compare_circuits("ionq", case, src, back)
        # through actual JSON text
        try:
            text = json.dumps(exported)
        except TypeError as e:
            raise Fail(f"ionq export is not JSON-serialisable: {e}", sig="ionq:not-json")
        back2 = translate_circuit(json.loads(text), "tangelo", source="ionq")
        compare_circuits("ionq-json", case, src, back2)
        return circuit_nontrivial(case), labels

    ctx.search("roundtrip", rt_circuits(IONQ_SET, mw, mg, 3, fixed=False), body, frac=0.55)
    ctx.search("roundtrip_fixed_width", rt_circuits(IONQ_SET, mw, mg, 3, fixed=True), body, frac=0.3)

    other = [n for n in S.ALL_GATES if n not in IONQ_SET] + ["MEASURE", "MYGATE"]

    @st.composite
    def bad(draw):
        c = draw(rt_circuits(IONQ_SET, 5, 6, 2))
        n = S.circuit_width(c) or 1
        w = max(n, 3)
        nm = draw(st.sampled_from(other))
        if nm in ("MEASURE", "MYGATE"):
            g = {"n": nm, "t": [draw(st.integers(0, w - 1))], "c": None, "p": None}
        else:
            g = draw(S.gate_recs(w, names=[nm], max_controls=2))
        pos = draw(st.integers(0, len(c["gates"])))
        c["gates"].insert(pos, g)
        c["nq"] = None
        c["bad"] = nm
        return c

    def body_refuse(case):
        src = build_circuit(case)
        try:
            out = translate_circuit(src, "ionq")
        except ValueError:
            return True, ("refused:" + case["bad"],)
        raise Fail(f"ionq export accepted a circuit containing {case['bad']}: {json.dumps(out, default=str)[:300]}", sig=f"ionq:unsupported-accepted:{case['bad']}")

    ctx.search("refuse", bad(), body_refuse, frac=0.15)


# ------------------------------------------------------------------------------------------------ ProjectQ command text

@part("projectq", quick=1000, thorough=40000)
def projectq(ctx):
    from tangelo.linq import translate_circuit
    mw, mg = (6, 12) if ctx.tier == "quick" else (8, 30)

    def body(case):
        src = build_circuit(case)
        text = translate_circuit(src, "projectq")
        if not isinstance(text, str):
            raise Fail(f"projectq export returned {type(text).__name__}", sig="projectq:export-type")
        try:
            back = translate_circuit(text, "tangelo", source="projectq")
        except ValueError as e:
            # the writer produced it, the reader must understand it
            msg = str(e)
            name = msg.split("'")[1] if msg.count("'") >= 2 else "?"
            line = next((ln for ln in text.split("\n") if ln.startswith(name + "(") or ln.startswith(name + " ")), "")
            raise Fail(f"projectq importer refuses the writer's own output: {msg} (line {line!r})", sig=f"projectq:reader-refuses-writer:{name}")
        compare_circuits("projectq", case, src, back)
        return circuit_nontrivial(case), circuit_labels(case)

    excl = {"projectq:width:idle-top-qubits": lambda c: S.circuit_width(c) > 1 + max([max(g["t"] + (g["c"] or [])) for g in c["gates"]], default=-1),
            "projectq:reader-refuses-writer:R": lambda c: any(g["n"] == "PHASE" for g in c["gates"])}
    ctx.search("roundtrip", rt_circuits(PROJECTQ_SET, mw, mg, 1, fixed=False), body, frac=0.5, exclusions=excl)
    ctx.search("roundtrip_fixed_width", rt_circuits(PROJECTQ_SET, mw, mg, 1, fixed=True), body, frac=0.3, exclusions=excl)

    other = [n for n in S.ALL_GATES if n not in PROJECTQ_SET] + ["MYGATE", "CNOT2", "CNOT3"]

    @st.composite
    def bad(draw):
        c = draw(rt_circuits(PROJECTQ_SET, 5, 6, 1))
        w = max(S.circuit_width(c) or 1, 4)
        nm = draw(st.sampled_from(other))
        if nm == "MYGATE":
            g = {"n": nm, "t": [draw(st.integers(0, w - 1))], "c": None, "p": None}
        elif nm in ("CNOT2", "CNOT3"):
            qs = draw(st.permutations(list(range(w))))
            k = int(nm[-1])
            g = {"n": "CNOT", "t": [qs[0]], "c": list(qs[1:1 + k]), "p": None}
        else:
            g = draw(S.gate_recs(w, names=[nm], max_controls=2))
        c["gates"].insert(draw(st.integers(0, len(c["gates"]))), g)
        c["nq"] = None
        c["bad"] = "multi-controlled-CNOT" if nm.startswith("CNOT") else nm
        return c

    def body_refuse(case):
        src = build_circuit(case)
        try:
            out = translate_circuit(src, "projectq")
        except ValueError:
            return True, ("refused:" + case["bad"],)
        lines = [ln for ln in out.split("\n") if ln and "llocate" not in ln]
        raise Fail(f"projectq export accepted a circuit containing {case['bad']} and wrote {lines[:8]}", sig=f"projectq:unsupported-accepted:{case['bad']}")

    ctx.search("refuse", bad(), body_refuse, frac=0.2,
               exclusions={"projectq:unsupported-accepted:multi-controlled-CNOT": lambda c: c["bad"] == "multi-controlled-CNOT"})


# ------------------------------------------------------------------------------------------------ repr / eval

NAMES_NOCTRL = ["H", "X", "Y", "Z", "S", "T", "RX", "RY", "RZ", "PHASE", "XX", "SWAP", "MEASURE", "MYGATE", "u3", "sdag"]
NAMES_CTRL = ["CNOT", "CX", "CY", "CZ", "CH", "CRX", "CRY", "CRZ", "CPHASE", "CSWAP", "cx", "CMYGATE", "CMEASURE"]
ident = st.from_regex(r"[A-Za-z_][A-Za-z0-9_]{0,6}", fullmatch=True)
num_param = st.one_of(angle_st.map(lambda x: ["float", x]), angle_st.map(lambda x: ["npfloat", x]), st.integers(-10**6, 10**6).map(lambda x: ["int", x]))


@st.composite
def simple_gate(draw, allow_dict=True):
    ctrl = draw(st.booleans())
    nm = draw(st.sampled_from(NAMES_CTRL if ctrl else NAMES_NOCTRL))
    up = nm.upper()
    ntg = 2 if up in ("XX", "SWAP", "CSWAP") else (draw(st.integers(1, 3)) if up in ("MYGATE", "U3", "SDAG", "CMYGATE") else 1)
    nct = draw(st.integers(1, 3)) if (ctrl and up != "CMEASURE") else 0
    qs = draw(st.lists(st.integers(0, 9), unique=True, min_size=ntg + nct, max_size=ntg + nct))
    g = {"n": nm, "t": qs[:ntg], "c": qs[ntg:] or None, "v": draw(st.booleans()),
         "tf": draw(st.sampled_from(["int", "list", "np"])) if ntg == 1 else draw(st.sampled_from(["list", "np"])),
         "cf": draw(st.sampled_from(["int", "list", "np"])) if nct == 1 else draw(st.sampled_from(["list", "np"]))}
    if up == "CMEASURE" and allow_dict:
        g["p"] = ["dict", {k: draw(st.lists(simple_gate(allow_dict=False), max_size=2)) for k in ("0", "1")}]
    else:
        g["p"] = draw(st.one_of(st.just(["none", None]), num_param, ident.map(lambda s: ["str", s])))
    return g


def make_gate(g):
    from tangelo.linq import Gate
    def idx(v, form):
        if form == "int":
            return v[0]
        return np.array(v) if form == "np" else list(v)
    kw = {}
    if g["c"]:
        kw["control"] = idx(g["c"], g["cf"])
    kind, p = g["p"]
    if kind == "float":
        kw["parameter"] = float(p)
    elif kind == "npfloat":
        kw["parameter"] = np.float64(p)
    elif kind == "int":
        kw["parameter"] = int(p)
    elif kind == "str":
        kw["parameter"] = p
    elif kind == "dict":
        kw["parameter"] = {k: [make_gate(x) for x in v] for k, v in p.items()}
    if g["v"]:
        kw["is_variational"] = True
    return Gate(g["n"], idx(g["t"], g["tf"]), **kw)


def same_gate(a, b, path="gate"):
    for f in ("name", "target", "control", "is_variational"):
        if getattr(a, f) != getattr(b, f) or type(getattr(a, f)) is not type(getattr(b, f)):
            raise Fail(f"{path}: eval(repr(g)).{f} = {getattr(b, f)!r}, original {getattr(a, f)!r}", sig=f"repr:{f}")
    pa, pb = a.parameter, b.parameter
    if isinstance(pa, dict):
        if not isinstance(pb, dict) or list(pa) != list(pb):
            raise Fail(f"{path}: dictionary parameter keys {list(pa)} became {pb!r}", sig="repr:parameter:dict")
        for k in pa:
            if len(pa[k]) != len(pb[k]):
                raise Fail(f"{path}: parameter[{k!r}] has {len(pb[k])} gates, original {len(pa[k])}", sig="repr:parameter:dict")
            for i, (x, y) in enumerate(zip(pa[k], pb[k])):
                same_gate(x, y, f"{path}.parameter[{k!r}][{i}]")
    elif not same_param(pa, pb):
        raise Fail(f"{path}: eval(repr(g)).parameter = {pb!r}, original {pa!r} (repr: {a!r})", sig=f"repr:parameter:{type(pa).__name__}")


@part("gate_repr", quick=1500, thorough=60000)
def gate_repr(ctx):
    from tangelo.linq import Gate

    def body(case):
        g = make_gate(case)
        text = repr(g)
        try:
            h = eval(text, {"Gate": Gate})
        except (SyntaxError, NameError, TypeError, ValueError) as e:
            raise Fail(f"repr(gate) = {text!r} cannot be evaluated: {type(e).__name__}: {e}", sig=f"repr:not-evaluable:{case['p'][0]}")
        if not isinstance(h, Gate):
            raise Fail(f"eval(repr(gate)) is a {type(h).__name__}", sig="repr:type")
        same_gate(g, h)
        labels = {"param:" + case["p"][0], "name:" + case["n"].upper(), "target-form:" + case["tf"]}
        if case["c"]:
            labels.add("control-form:" + case["cf"])
        if case["v"]:
            labels.add("variational")
        return bool(case["c"]) or case["p"][0] != "none", labels

    ctx.search("gate_repr", simple_gate(), body)


# ------------------------------------------------------------------------------------------------ operators

op_coeff = st.one_of(st.floats(1e-6, 5, allow_nan=False), st.floats(-5, -1e-6, allow_nan=False), st.sampled_from([0.0, 1.0, -1.0, 0.5, 1e-6]))


@st.composite
def operators(draw, max_q):
    n = draw(st.integers(1, max_q))
    terms = draw(st.lists(S.pauli_terms(n), min_size=0, max_size=10, unique_by=lambda t: tuple(map(tuple, t))))
    cplx = draw(st.booleans())
    return [[t, draw(op_coeff), draw(op_coeff) if cplx and draw(st.booleans()) else 0.0] for t in terms]


def terms_equal(got, exp, what):
    for k in set(got) | set(exp):
        a, b = complex(got.get(k, 0)), complex(exp.get(k, 0))
        if abs(a - b) > 1e-12:
            raise Fail(f"{what}: term {k} has coefficient {a}, original {b}", sig=f"operator:{what}:coefficient")


@part("operators", quick=600, thorough=20000)
def operators_part(ctx):
    import openfermion as of
    from tangelo.toolboxes.operators import QubitOperator
    from tangelo.linq.translator import translate_operator
    mq = 8 if ctx.tier == "quick" else 12

    def body(case):
        exp = S.op_terms(case)
        cplx = any(im != 0 for _, _, im in case)
        q = QubitOperator()
        q.terms = {k: (v if cplx else v.real) for k, v in exp.items()}
        snap = dict(q.terms)
        labels = set()
        for k in exp:
            if k == ():
                labels.add("identity-term")
            qs = [a for a, _ in k]
            if qs and (max(qs) + 1 > len(qs)):
                labels.add("gaps")
        if cplx:
            labels.add("complex")
        if not exp:
            labels.add("empty")
        if any(v == 0 for v in exp.values()):
            labels.add("zero-coefficient")
        c = translate_operator(q, "tangelo", "cirq")
        back = translate_operator(c, "cirq", "tangelo")
        if not isinstance(back, QubitOperator):
            raise Fail(f"cirq->tangelo returned {type(back).__name__}", sig="operator:cirq:type")
        terms_equal(dict(back.terms), exp, "cirq")
        o = q.to_openfermion()
        if type(o) is not of.QubitOperator:
            raise Fail(f"to_openfermion returned {type(o).__name__}", sig="operator:openfermion:type")
        terms_equal(dict(o.terms), exp, "to_openfermion")
        b2 = QubitOperator.from_openfermion(o)
        if type(b2) is not QubitOperator:
            raise Fail(f"from_openfermion returned {type(b2).__name__}", sig="operator:openfermion:type")
        if dict(b2.terms) != snap:
            raise Fail("to_openfermion/from_openfermion changed the term dictionary", sig="operator:openfermion:terms")
        if dict(q.terms) != snap:
            raise Fail("conversion mutated the source operator", sig="operator:source-mutated")
        return len(exp) >= 2, labels

    ctx.search("operators", operators(mq), body)


# ------------------------------------------------------------------------------------------------ atheris campaigns (thorough only)

@part("fuzz_importers", quick=0, thorough=400000, shard=False)
def fuzz_importers(ctx):
    """Coverage-guided byte fuzzing of the two importers (vlib/h_c17.py).  The fuzzer only collects inputs; every failing
    input and a sample of accepted ones are re-evaluated here, in-process, by the same fixed-point oracle."""
    import os, shutil, subprocess, sys
    from vlib import h_c17 as H
    from vlib.runner import ROOT

    def body(case):
        try:
            res, info = H.fixed_point(case["fmt"], case["x"])
        except H.Mismatch as m:
            raise Fail(m.msg + f" (input {case['x']!r})"[:400], sig=m.sig)
        if res == "rejected":
            raise Skip("importer refused: " + info)
        return info >= 2, (case["fmt"] + ":accepted",)

    if ctx.replay is not None:
        for fmt in ("projectq", "ionq"):
            ctx.sweep("fuzz_" + fmt, [], body)
        return
    try:
        import atheris  # noqa
    except ImportError:
        ctx.rec.count("fuzz:skipped_atheris_missing")
        return
    for fmt in ("projectq", "ionq"):
        out = os.path.join(ROOT, ".work", f"c17-fuzz-{fmt}-{os.getpid()}")
        shutil.rmtree(out, ignore_errors=True)
        os.makedirs(os.path.join(out, "corpus"))
        runs = max(1000, ctx.n_total // 2)
        cmd = [sys.executable, "-W", "ignore", "-m", "vlib.h_c17", fmt, out, os.path.join(out, "corpus"),
               f"-runs={runs}", f"-seed={ctx.seed_for(fmt) % (2**31 - 1) + 1}", "-max_len=256", "-verbosity=0", "-print_final_stats=0"]
        p = subprocess.run(cmd, cwd=ROOT, stdout=subprocess.PIPE, stderr=subprocess.STDOUT, text=True, timeout=3000)
        cases = []
        stats = {}
        if os.path.exists(os.path.join(out, "stats.json")):
            stats = json.load(open(os.path.join(out, "stats.json")))
        for fn in ("failures.jsonl", "accepted.jsonl"):
            f = os.path.join(out, fn)
            if os.path.exists(f):
                cases += [json.loads(ln) for ln in open(f) if ln.strip()]
        shutil.rmtree(out, ignore_errors=True)
        if not stats:
            from vlib.runner import HarnessError
            raise HarnessError(f"atheris campaign on {fmt} produced no statistics (exit {p.returncode}): {p.stdout[-1500:]}")
        ctx.rec.count(f"fuzz_{fmt}:atheris_execs", stats.get("execs", 0))
        ctx.rec.count(f"fuzz_{fmt}:atheris_accepted_fixed_point_ok", stats.get("ok", 0))
        ctx.rec.count(f"fuzz_{fmt}:atheris_oracle_failures", stats.get("failures", 0))
        for k, v in stats.get("rejected", {}).items():
            ctx.rec.count(f"fuzz_{fmt}:atheris_rejected:{k}", v)
        ctx.sweep("fuzz_" + fmt, cases, body)
