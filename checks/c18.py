"""C18 - measurement grouping into qubit-wise-commuting bases and histogram processing conserve information.

Grouping: the groups returned by group_qwc partition the operator's terms (multiset of (term, coefficient) equal to the
operator's), every term is diagonal in its group's basis, map_measurements_qwc lists exactly the compatible bases, and the
expectation value assembled from exact per-basis histograms of a random state equals sum_k c_k <P_k>.
Histograms: aggregation, index removal (marginalisation), post-selection, bit-order reversal, splitting and resampling
conserve counts / normalisation exactly and agree with a direct dictionary model; marginalising qubits a Pauli word does
not act on leaves its expectation value unchanged.
"""
import math
from fractions import Fraction

import numpy as np
from hypothesis import strategies as st

from vlib.runner import part, Fail, Skip
from vlib import refsim as RS, strategies as S

PROPERTY = "C18"
RULE = ("Grouping: Hypothesis-generated qubit operators (1-6 qubits, 1-25 distinct Pauli words incl. identity, repeated supports with different "
        "letters, real/complex coefficients |c|>=1e-6), seed None / int, n_repeat 1-3, random complex state for the expectation value; "
        "non-trivial = >=2 groups; the groups and histograms handed to exp_value_from_measurement_bases / map_measurements_qwc are "
        "snapshotted and compared afterwards, the evaluation is repeated three times with the same objects and the partition is re-checked at the end. Histograms: counts (ints 0..10^6, zeros allowed, total>0) or probabilities (normalised floats), bitstring "
        "length 1-100 (<=62 where resampling converts to int64), 1-40 outcomes, msq_first on/off, index sets (empty, all, arbitrary), expected-outcome "
        "dictionaries (matching / non-matching), split index lists, shot numbers 1..10^6; non-trivial = >=3 outcomes and a non-empty index set "
        "(aggregation: >=2 histograms sharing a key; resampling: >=2 outcomes). histogram_history: 2-4 Histograms built from the same outcomes "
        "dictionary object or from each other's .counts, then <=6/12 steps of +=, +, aggregate_histograms, remove_qubit_indices, post_select, resample, "
        "further constructions; after every step every live histogram and the caller's dictionaries are compared with the model; non-trivial = >=2 steps "
        "and >=1 in-place operation on a histogram sharing its source. resample_chunks: sweep of shot numbers 10^7-1, 10^7, 10^7+1 (thorough also 2*10^7, "
        "3*10^7+5) around the sampling chunk size, exact total, support, 6.5 sigma band. Oracle = direct dictionary model (exact integer arithmetic for "
        "counts, Fraction-free float sums compared to 1e-12 relative for probabilities). Distinct = distinct canonical JSON of the case.")
ASSUMPTIONS = ["Histogram construction from probabilities with n_shots>0 rounds every entry (documented design); it is not among the operations the "
               "property lists and is only labelled, not held to exact conservation",
               "resampling draws from numpy's global RNG, pinned per case; only exact facts are checked (total = n, multiples of 1/n, support subset), "
               "no statistical claim",
               "group_qwc with seed=None / n_repeat>1 draws OS entropy through numpy.random.RandomState(None) inside openfermion; the check substitutes a "
               "RandomState seeded from the case for the duration of the call so that cases replay",
               "operator coefficients are >=1e-6 in magnitude (openfermion's containers drop |c|<1e-8 on addition)",
               "exact per-basis histograms come from the check's own basis change (H for X, H.S^dagger for Y) on vlib/refsim conventions",
               "only non-negative qubit indices are passed to remove_qubit_indices/post_select (negative indices are not documented)"]
SHARDS = {"quick": 4, "thorough": 16}

H_M = np.array([[1, 1], [1, -1]], dtype=complex) / math.sqrt(2)
SDG = np.diag([1, -1j]).astype(complex)
ROT = {"X": H_M, "Y": H_M @ SDG, "Z": np.eye(2, dtype=complex)}


def selftest():
    RS.selftest()
    # basis change: the rotated Pauli is Z
    for p in "XYZ":
        assert np.allclose(ROT[p] @ RS.PAULI[p] @ ROT[p].conj().T, RS.PAULI["Z"])
    # model helpers
    assert marginal({"010": 2, "110": 3, "011": 5}, [0]) == {"10": 5, "11": 5}
    assert parity_expectation(((0, "Z"),), {"0": 0.25, "1": 0.75}) == -0.5


# ------------------------------------------------------------------------------------------------ model helpers

def marginal(counts, remove):
    out = {}
    rm = set(remove)
    for k, v in counts.items():
        nk = "".join(ch for i, ch in enumerate(k) if i not in rm)
        out[nk] = out.get(nk, 0) + v
    return out


def parity_expectation(term, freqs):
    tot = 0.0
    for k, f in freqs.items():
        par = sum(1 for q, _ in term if k[q] == "1") % 2
        tot += (-1) ** par * f
    return tot


def close(a, b, rel=1e-12):
    return abs(a - b) <= rel * max(1.0, abs(a), abs(b))


def same_dict(got, exp, exact, what, sig):
    if set(got) != set(exp):
        raise Fail(f"{what}: keys {sorted(got)[:6]} vs expected {sorted(exp)[:6]}", sig=sig + ":keys")
    for k in exp:
        if (got[k] != exp[k]) if exact else not close(got[k], exp[k]):
            raise Fail(f"{what}: entry {k!r} is {got[k]!r}, expected {exp[k]!r}", sig=sig + ":value")


def compatible(t, b):
    d = dict(b)
    return all(d.get(q, p) == p for q, p in t)


# ------------------------------------------------------------------------------------------------ grouping

@st.composite
def grouping_cases(draw, max_n, max_terms):
    n = draw(st.integers(1, max_n))
    terms = draw(st.lists(S.pauli_terms(n), min_size=1, max_size=max_terms, unique_by=lambda t: tuple(map(tuple, t))))
    if draw(st.booleans()) and terms and terms[0]:
        # repeated support with different letters
        sup = [q for q, _ in terms[0]]
        extra = [[q, draw(st.sampled_from("XYZ"))] for q in sup]
        if extra not in terms:
            terms.append(extra)
    if [] not in terms and draw(st.integers(0, 2)) > 0:
        terms.append([])        # a non-zero constant (identity) term is the common case for Hamiltonians
    cplx = draw(st.booleans())
    c = st.one_of(st.floats(1e-6, 3, allow_nan=False), st.floats(-3, -1e-6, allow_nan=False), st.sampled_from([1.0, -1.0, 0.5]))
    op = [[t, draw(c), draw(c) if cplx and draw(st.booleans()) else 0.0] for t in terms]
    order = draw(st.permutations(list(range(len(op)))))
    op = [op[i] for i in order]
    return {"n": n, "op": op, "seed": draw(st.one_of(st.none(), st.integers(0, 2**31 - 1))), "n_repeat": draw(st.integers(1, 3)),
            "state": draw(S.statevectors(n, allow_none=False))}


@part("grouping", quick=600, thorough=25000)
def grouping(ctx):
    from tangelo.toolboxes.operators import QubitOperator
    from tangelo.toolboxes.measurements import group_qwc, exp_value_from_measurement_bases
    from tangelo.toolboxes.measurements.qubit_terms_grouping import map_measurements_qwc, check_bases_commute_qwc
    from vlib.runner import derive_seed
    from vlib.recorder import fingerprint
    mn, mt = (5, 16) if ctx.tier == "quick" else (6, 25)

    def body(case):
        n = case["n"]
        exp = S.op_terms(case["op"])
        cplx = any(im != 0 for _, _, im in case["op"])
        op = QubitOperator()
        op.terms = {k: (v if cplx else v.real) for k, v in exp.items()}
        snap = dict(op.terms)
        # openfermion seeds RandomState(None) from OS entropy: substitute a case-derived seed so that the case replays
        real_rs = np.random.RandomState
        counter = [derive_seed("C18", fingerprint(case)) % (2**31 - 1)]

        class DetRS(real_rs):
            def __init__(self, seed=None):
                if seed is None:
                    counter[0] += 1
                    seed = counter[0]
                super().__init__(seed)
        np.random.RandomState = DetRS
        try:
            groups = group_qwc(op, seed=case["seed"], n_repeat=case["n_repeat"])
        finally:
            np.random.RandomState = real_rs
        labels = {f"groups={min(len(groups), 6)}{'+' if len(groups) > 6 else ''}", f"n_repeat={case['n_repeat']}",
                  "seed=None" if case["seed"] is None else "seed=int"}
        if dict(op.terms) != snap:
            raise Fail("group_qwc mutated the input operator", sig="group_qwc:mutated-input")
        def check_partition(when):
            """every (term, coefficient) of the operator in exactly one group, diagonal in that group's basis"""
            seen = {}
            for basis, sub in groups.items():
                bq = [q for q, _ in basis]
                if bq != sorted(set(bq)) or any(p not in "XYZ" for _, p in basis):
                    raise Fail(f"{when}: basis {basis} is not a sorted tensor-product basis", sig="group_qwc:basis-form")
                for t, c in sub.terms.items():
                    if t in seen:
                        raise Fail(f"{when}: term {t} appears in two groups ({seen[t]} and {basis})", sig="group_qwc:term-twice")
                    seen[t] = basis
                    if t not in exp:
                        raise Fail(f"{when}: group {basis} contains term {t} that is not in the operator", sig="group_qwc:foreign-term")
                    if abs(complex(c) - exp[t]) > 1e-12:
                        raise Fail(f"{when}: term {t} has coefficient {c} in its group, {exp[t]} in the operator", sig="group_qwc:coefficient")
                    if not all(f in basis for f in t):
                        raise Fail(f"{when}: term {t} is not diagonal in its group's basis {basis}", sig="group_qwc:not-diagonal")
            missing = [t for t in exp if t not in seen]
            if missing:
                raise Fail(f"{when}: terms {missing[:4]} of the operator are in no group (the groups are not a partition of the operator)",
                           sig="group_qwc:term-missing" if when == "after group_qwc" else "grouping:partition-lost-after-use")

        check_partition("after group_qwc")
        group_objs = dict(groups)                               # the very same objects are reused below

        def snap_groups():
            return [(b, id(o), list(o.terms.items())) for b, o in groups.items()]

        def args_unchanged(fn, g0, h0=None):
            g1 = snap_groups()
            if [x[0] for x in g1] != [x[0] for x in g0] or any(groups[b] is not group_objs.get(b) for b in groups):
                raise Fail(f"{fn} changed the keys/objects of the groups dictionary it was given", sig="grouping:argument-mutated:groups-keys")
            for (b, _, t0), (_, _, t1) in zip(g0, g1):
                if t0 != t1:
                    lost = [t for t, _ in t0 if t not in dict(t1)]
                    raise Fail(f"{fn} changed the operator of group {b} it was given: terms {t0} became {t1} (lost {lost})",
                               sig="grouping:argument-mutated:groups")
            if h0 is not None and hists != h0:
                raise Fail(f"{fn} changed the histograms it was given", sig="grouping:argument-mutated:histograms")

        if () in exp:
            labels.add("identity-term:" + ("first" if case["op"][0][0] == [] else "later"))
        # --- map_measurements_qwc
        g0 = snap_groups()
        mm = map_measurements_qwc(groups)
        args_unchanged("map_measurements_qwc", g0)
        bases = list(groups)
        for t in exp:
            want = [b for b in bases if compatible(t, b)] if t else None
            got = mm.get(t)
            if t == ():
                # the identity is compatible with every basis; the code leaves it out - either is consistent with the documentation
                if got is not None and sorted(got) != sorted(bases):
                    raise Fail(f"map_measurements_qwc lists the identity term with {got}", sig="map_measurements_qwc:identity")
                continue
            if got is None or sorted(got) != sorted(want):
                raise Fail(f"map_measurements_qwc[{t}] = {got}, qubit-wise compatible bases are {want}", sig="map_measurements_qwc:bases")
        if set(mm) - set(exp):
            raise Fail(f"map_measurements_qwc has foreign keys {list(set(mm) - set(exp))[:3]}", sig="map_measurements_qwc:foreign-key")
        for b1 in bases:
            for b2 in bases:
                if check_bases_commute_qwc(b1, b2) != (compatible(b1, b2)):
                    raise Fail(f"check_bases_commute_qwc({b1},{b2}) wrong", sig="check_bases_commute_qwc")
        # --- expectation value from exact per-basis histograms
        psi = S.build_statevector(case["state"], n)
        hists = {}
        for basis in groups:
            phi = psi
            for q, p in basis:
                phi = RS.apply_matrix(phi, ROT[p], [q], [], n)
            pr = np.abs(phi) ** 2
            hists[basis] = {RS.bitstr(i, n): float(pr[i]) for i in range(2 ** n) if pr[i] > 0}
        want = sum(c * RS.qop_expectation({t: 1.0}, psi, n) for t, c in exp.items())
        scale = max(1.0, sum(abs(c) for c in exp.values()))
        h0 = {b: dict(f) for b, f in hists.items()}
        g0 = snap_groups()
        # the same grouping and histograms are evaluated repeatedly (as a caller re-using one grouping for many states would)
        for attempt in ("first", "second", "after map_measurements_qwc"):
            if attempt == "after map_measurements_qwc":
                map_measurements_qwc(groups)
            got = exp_value_from_measurement_bases(groups, hists)
            if abs(complex(got) - complex(want)) > 1e-9 * scale:
                raise Fail(f"exp_value_from_measurement_bases ({attempt} evaluation with the same arguments) = {got}, term-by-term value {want}"
                           + (f" (constant term of the operator: {exp.get((), 0)})" if attempt != "first" else ""),
                           sig="exp_value_from_measurement_bases:value" if attempt == "first" else "exp_value_from_measurement_bases:repeated-evaluation")
            args_unchanged(f"exp_value_from_measurement_bases ({attempt} evaluation)", g0, h0)
        check_partition("after the evaluations")
        return len(groups) >= 2, labels

    ctx.search("grouping", grouping_cases(mn, mt), body)


# ------------------------------------------------------------------------------------------------ histograms

@st.composite
def hist_data(draw, max_len=100, max_out=40, kind=None, min_out=1):
    L = draw(st.one_of(st.integers(1, 6), st.integers(2, 6), st.integers(1, max_len)))
    min_out = min(max(min_out, draw(st.sampled_from([1, 2, 3, 3, 3]))), 2 ** min(L, 6), max_out)
    keys = draw(st.lists(st.text("01", min_size=L, max_size=L), min_size=min_out, max_size=max_out, unique=True))
    kind = kind or draw(st.sampled_from(["counts", "counts", "probs"]))
    if kind == "counts":
        vals = [draw(st.one_of(st.integers(0, 50), st.integers(0, 10**6))) for _ in keys]
        if sum(vals) == 0:
            vals[0] = draw(st.integers(1, 100))
    else:
        w = [draw(st.floats(1e-6, 1.0, allow_nan=False)) for _ in keys]
        tot = math.fsum(w)
        vals = [x / tot for x in w]
    return {"kind": kind, "L": L, "out": dict(zip(keys, vals))}


def total(d):
    vals = list(d.values())
    return sum(vals) if all(isinstance(v, int) for v in vals) else math.fsum(vals)


def hist_labels(h):
    out = {h["kind"], "len<=6" if h["L"] <= 6 else ("len<=62" if h["L"] <= 62 else "len>62"), f"outcomes={'1' if len(h['out']) == 1 else ('2' if len(h['out']) == 2 else '3+')}"}
    if h["kind"] == "counts" and any(v == 0 for v in h["out"].values()):
        out.add("zero-count-entry")
    return out


@part("histogram", quick=3000, thorough=120000)
def histogram(ctx):
    from tangelo.toolboxes.post_processing.histogram import Histogram, aggregate_histograms
    from tangelo.toolboxes.post_processing.post_selection import post_select, strip_post_selection, split_frequency_dict, \
        split_frequency_dict_for_last_n_digits
    from tangelo.toolboxes.post_processing.bootstrapping import get_resampled_frequencies
    big = 100 if ctx.tier == "thorough" else 70

    # ---------------------------------------------------------------- construction, reversal, index removal, post selection
    @st.composite
    def method_cases(draw):
        h = draw(hist_data(max_len=big))
        L = h["L"]
        idx = draw(st.one_of(st.just([]), st.just(list(range(L))), st.lists(st.integers(0, L - 1), unique=True, max_size=min(L, 8))))
        keys = list(h["out"])
        pick = draw(st.integers(0, len(keys) - 1))
        sel_idx = draw(st.lists(st.integers(0, L - 1), unique=True, min_size=1, max_size=min(L, 4)))
        if draw(st.integers(0, 3)) > 0:
            sel = {str(i): keys[pick][i] for i in sel_idx}          # matches at least one outcome
        else:
            sel = {str(i): draw(st.sampled_from("01")) for i in sel_idx}
        tq = draw(st.lists(st.integers(0, L - 1), unique=True, min_size=0, max_size=min(L, 4)))
        term = [[q, draw(st.sampled_from("XYZ"))] for q in sorted(tq)]
        return {"h": h, "msq": draw(st.booleans()), "idx": idx, "sel": sel, "term": term}

    def body_methods(case):
        h, msq = case["h"], case["msq"]
        exact = h["kind"] == "counts"
        src = dict(h["out"])
        model = {(k[::-1] if msq else k): v for k, v in src.items()}
        H = Histogram(dict(src), msq_first=msq)
        labels = hist_labels(h) | {"msq_first" if msq else "lsq_first"}
        if src != h["out"]:
            raise Fail("Histogram() mutated its input dictionary", sig="histogram:init:mutated-input")
        same_dict(H.counts, model, True, "bit-order reversal / construction", "histogram:init")
        n0 = total(model)
        if (H.n_shots != n0) if exact else not close(H.n_shots, n0):
            raise Fail(f"n_shots {H.n_shots} != sum of outcomes {n0}", sig="histogram:n_shots")
        if H.n_qubits != h["L"]:
            raise Fail(f"n_qubits {H.n_qubits} != {h['L']}", sig="histogram:n_qubits")
        fr = H.frequencies
        if abs(math.fsum(fr.values()) - 1) > 1e-12 * max(1, len(fr)):
            raise Fail(f"frequencies sum to {math.fsum(fr.values())}", sig="histogram:frequencies-normalisation")
        # --- expectation of a word, then marginalise qubits it does not act on
        term = tuple((q, p) for q, p in case["term"])
        e0 = H.get_expectation_value(term, 1.0)
        want = parity_expectation(term, {k: v / n0 for k, v in model.items()})
        if abs(e0 - want) > 1e-12:
            raise Fail(f"get_expectation_value({term}) = {e0}, direct parity sum {want}", sig="histogram:expectation")
        touched = {q for q, _ in term}
        rm = [i for i in case["idx"] if i not in touched]
        H2 = Histogram(dict(src), msq_first=msq)
        H2.remove_qubit_indices(*rm)
        m2 = marginal(model, rm)
        same_dict(H2.counts, m2, exact, f"remove_qubit_indices{tuple(rm)}", "histogram:remove_qubit_indices")
        if (H2.n_shots != n0) if exact else not close(H2.n_shots, n0):
            raise Fail(f"remove_qubit_indices{tuple(rm)} changed n_shots from {n0} to {H2.n_shots}", sig="histogram:remove_qubit_indices:n_shots")
        term2 = tuple((q - sum(1 for r in rm if r < q), p) for q, p in term)
        if rm:
            labels.add("marginalised-untouched-qubits")
            if len(rm) == h["L"]:
                labels.add("all-qubits-removed")
            e1 = H2.get_expectation_value(term2, 1.0)
            if abs(e1 - e0) > 1e-12:
                raise Fail(f"expectation of {term} changed from {e0} to {e1} after marginalising untouched qubits {rm}", sig="histogram:marginalise:expectation")
        # --- removal of arbitrary indices (also touched ones): conservation only
        H3 = Histogram(dict(src), msq_first=msq)
        H3.remove_qubit_indices(*case["idx"])
        same_dict(H3.counts, marginal(model, case["idx"]), exact, f"remove_qubit_indices{tuple(case['idx'])}", "histogram:remove_qubit_indices")
        # --- post selection
        sel = {int(k): v for k, v in case["sel"].items()}
        H4 = Histogram(dict(src), msq_first=msq)
        H4.post_select(dict(sel))
        kept = {k: v for k, v in model.items() if all(k[i] == b for i, b in sel.items())}
        m4 = marginal(kept, list(sel))
        same_dict(H4.counts, m4, exact, f"post_select({sel})", "histogram:post_select")
        labels.add("post_select:" + ("some-match" if kept else "none-match"))
        if kept and ((H4.n_shots != total(kept)) if exact else not close(H4.n_shots, total(kept))):
            raise Fail(f"post_select kept {H4.n_shots} shots, matching outcomes hold {total(kept)}", sig="histogram:post_select:n_shots")
        return len(src) >= 3 and bool(case["idx"]), labels

    ctx.search("methods", method_cases(), body_methods, frac=0.35)

    # ---------------------------------------------------------------- aggregation
    @st.composite
    def agg_cases(draw):
        L = draw(st.one_of(st.integers(1, 4), st.integers(1, big)))
        k = draw(st.integers(1, 4))
        pool = draw(st.lists(st.text("01", min_size=L, max_size=L), min_size=1, max_size=12, unique=True))
        hs = []
        for _ in range(k):
            keys = draw(st.lists(st.sampled_from(pool), min_size=1, max_size=len(pool), unique=True))
            vals = [draw(st.one_of(st.integers(0, 20), st.integers(1, 10**6))) for _ in keys]
            if sum(vals) == 0:
                vals[0] = 1
            hs.append(dict(zip(keys, vals)))
        return {"L": L, "hs": hs, "mode": draw(st.sampled_from(["function", "add", "iadd"]))}

    def body_agg(case):
        hs = [Histogram(dict(d)) for d in case["hs"]]
        snaps = [dict(h.counts) for h in hs]
        model = {}
        for d in case["hs"]:
            for k, v in d.items():
                model[k] = model.get(k, 0) + v
        mode = case["mode"]
        if mode == "function":
            out = aggregate_histograms(*hs)
        elif mode == "add":
            out = hs[0]
            for h in hs[1:]:
                out = out + h
        else:
            out = Histogram(dict(case["hs"][0]))
            for h in hs[1:]:
                out += h
        got = {k: v for k, v in out.counts.items() if v != 0}
        want = {k: v for k, v in model.items() if v != 0}
        same_dict(got, want, True, f"aggregation ({mode}) of {len(hs)} histograms", "histogram:aggregate")
        if out.n_shots != sum(sum(d.values()) for d in case["hs"]):
            raise Fail(f"aggregation ({mode}): n_shots {out.n_shots} != sum of inputs", sig="histogram:aggregate:n_shots")
        for i, (h, s) in enumerate(zip(hs, snaps)):
            if h.counts != s:
                raise Fail(f"aggregation ({mode}) mutated input histogram #{i}", sig="histogram:aggregate:mutated-input")
        shared = len(hs) >= 2 and any(k in case["hs"][0] for d in case["hs"][1:] for k in d)
        return shared, {f"n_hists={len(hs)}", mode, "shared-key" if shared else "disjoint"}

    ctx.search("aggregate", agg_cases(), body_agg, frac=0.15)

    # ---------------------------------------------------------------- frequency-dictionary helpers
    @st.composite
    def freq_cases(draw):
        h = draw(hist_data(max_len=big, kind="probs"))
        L = h["L"]
        idx = draw(st.one_of(st.just([]), st.just(list(range(L))), st.lists(st.integers(0, L - 1), unique=True, max_size=min(L, 6))))
        keys = list(h["out"])
        k0 = keys[draw(st.integers(0, len(keys) - 1))]
        desired = None
        if idx and draw(st.booleans()):
            desired = "".join(k0[i] for i in idx) if draw(st.integers(0, 3)) > 0 else "".join(draw(st.sampled_from("01")) for _ in idx)
        return {"h": h, "idx": idx, "desired": desired, "last": draw(st.integers(0, L)), "scale": draw(st.sampled_from([1.0, 1.0, 0.5, 3.0]))}

    def body_freq(case):
        f = {k: v * case["scale"] for k, v in case["h"]["out"].items()}
        s0 = math.fsum(f.values())
        src = dict(f)
        L, idx = case["h"]["L"], case["idx"]
        labels = hist_labels(case["h"]) | {f"input-sum={case['scale']}"}
        # strip_post_selection: marginal, renormalised
        got = strip_post_selection(dict(f), *idx)
        want = {k: v / s0 for k, v in marginal(f, idx).items()}
        same_dict(got, want, False, f"strip_post_selection{tuple(idx)}", "strip_post_selection")
        if abs(math.fsum(got.values()) - 1) > 1e-12 * max(1, len(got)):
            raise Fail(f"strip_post_selection result sums to {math.fsum(got.values())}", sig="strip_post_selection:normalisation")
        # split_frequency_dict
        other = [i for i in range(L) if i not in idx]
        mid, marg = split_frequency_dict(dict(f), list(idx), case["desired"])
        same_dict(mid, {k: v / s0 for k, v in marginal(f, other).items()}, False, f"split_frequency_dict mid-circuit part (indices {idx})", "split_frequency_dict:mid")
        if case["desired"] is None:
            same_dict(marg, want, False, "split_frequency_dict marginal part", "split_frequency_dict:marginal")
            labels.add("split:plain")
        else:
            sel = dict(zip(idx, case["desired"]))
            kept = {k: v for k, v in f.items() if all(k[i] == b for i, b in sel.items())}
            sk = math.fsum(kept.values())
            wantp = {k: v / sk for k, v in marginal(kept, idx).items()} if kept else {}
            same_dict(marg, wantp, False, f"split_frequency_dict post-selected on {case['desired']!r}", "split_frequency_dict:post-selected")
            labels.add("split:desired-" + ("match" if kept else "nomatch"))
            gotp = post_select(dict(f), dict(sel))
            same_dict(gotp, wantp, False, f"post_select({sel})", "post_select")
            if kept and abs(math.fsum(gotp.values()) - 1) > 1e-12 * max(1, len(gotp)):
                raise Fail(f"post_select result sums to {math.fsum(gotp.values())}", sig="post_select:normalisation")
        # split_frequency_dict_for_last_n_digits: no renormalisation, both parts keep the input sum
        n = case["last"]
        f1, f2 = split_frequency_dict_for_last_n_digits(dict(f), n)
        same_dict(f1, marginal(f, list(range(L - n, L))), False, f"split_frequency_dict_for_last_n_digits({n}) first part", "split_last_n:first")
        same_dict(f2, marginal(f, list(range(0, L - n))), False, f"split_frequency_dict_for_last_n_digits({n}) last part", "split_last_n:last")
        for nm, part_ in (("first", f1), ("last", f2)):
            if not close(math.fsum(part_.values()), s0):
                raise Fail(f"split_frequency_dict_for_last_n_digits({n}): {nm} part sums to {math.fsum(part_.values())}, input {s0}", sig="split_last_n:sum")
        if f != src:
            raise Fail("a frequency helper mutated its input dictionary", sig="freq-helper:mutated-input")
        return len(f) >= 3 and bool(idx), labels

    ctx.search("freq_helpers", freq_cases(), body_freq, frac=0.3)

    # ---------------------------------------------------------------- resampling
    @st.composite
    def resample_cases(draw):
        h = draw(hist_data(max_len=62, max_out=20))
        n = draw(st.one_of(st.integers(1, 20), st.integers(1, 10**4), st.sampled_from([10**5, 10**6]) if draw(st.integers(0, 9)) == 0 else st.integers(1, 1000)))
        return {"h": h, "n": n}

    def body_resample(case):
        h, n = case["h"], case["n"]
        H = Histogram(dict(h["out"]))
        snap = dict(H.counts)
        support = {k for k, v in h["out"].items() if v > 0}
        labels = hist_labels(h) | {"shots<=20" if n <= 20 else ("shots<=1e4" if n <= 10**4 else "shots>1e4")}
        ctx.np_seed(case)
        R = H.resample(n)
        if not all(isinstance(v, (int, np.integer)) for v in R.counts.values()):
            raise Fail(f"resample({n}) produced non-integer counts {list(R.counts.values())[:4]}", sig="resample:non-integer")
        if R.n_shots != n:
            raise Fail(f"resample({n}) returned a histogram with {R.n_shots} shots", sig="resample:n_shots")
        if not set(R.counts) <= support:
            raise Fail(f"resample({n}) produced outcomes outside the support: {sorted(set(R.counts) - support)[:3]}", sig="resample:support")
        if any(len(k) != h["L"] for k in R.counts):
            raise Fail("resample changed the bitstring length", sig="resample:key-length")
        if H.counts != snap:
            raise Fail("resample mutated the source histogram", sig="resample:mutated-input")
        ctx.np_seed(case)
        fr = get_resampled_frequencies(H.frequencies, n)
        cnt = {k: v * n for k, v in fr.items()}
        if any(abs(c - round(c)) > 1e-6 for c in cnt.values()) or sum(round(c) for c in cnt.values()) != n:
            raise Fail(f"get_resampled_frequencies(n={n}): counts {list(cnt.values())[:4]} do not add up to n", sig="get_resampled_frequencies:total")
        if not set(fr) <= support or any(len(k) != h["L"] for k in fr):
            raise Fail("get_resampled_frequencies produced foreign outcomes", sig="get_resampled_frequencies:support")
        if {k: round(c) for k, c in cnt.items()} != dict(R.counts):
            raise Fail("Histogram.resample and get_resampled_frequencies disagree for the same RNG state", sig="resample:inconsistent")
        return len(support) >= 2, labels

    ctx.search("resample", resample_cases(), body_resample, frac=0.12)

    # ---------------------------------------------------------------- construction from probabilities with n_shots (labelled only)
    @st.composite
    def build_cases(draw):
        return {"h": draw(hist_data(max_len=30, kind="probs")), "n": draw(st.integers(1, 10**6)), "msq": draw(st.booleans())}

    def body_build(case):
        h, n = case["h"], case["n"]
        H = Histogram(dict(h["out"]), n_shots=n, msq_first=case["msq"])
        want = {(k[::-1] if case["msq"] else k): round(v * n) for k, v in h["out"].items()}
        same_dict(H.counts, want, True, "Histogram(probabilities, n_shots)", "histogram:init-probabilities")
        lab = "construction-rounding-keeps-n_shots" if H.n_shots == n else "construction-rounding-changes-n_shots"
        if abs(H.n_shots - n) > len(h["out"]) / 2 + 1e-6 * n:
            raise Fail(f"Histogram(probabilities, n_shots={n}) holds {H.n_shots} shots: more than rounding can explain", sig="histogram:init-probabilities:n_shots")
        return len(h["out"]) >= 3, hist_labels(h) | {lab}

    ctx.search("construct", build_cases(), body_build, frac=0.08)


# ------------------------------------------------------------------------------------------------ aliasing histories

@st.composite
def hist_histories(draw, max_ops):
    L = draw(st.integers(1, 5))
    pool = draw(st.lists(st.text("01", min_size=L, max_size=L), min_size=1, max_size=min(2 ** L, 6), unique=True))

    def counts():
        keys = draw(st.lists(st.sampled_from(pool), min_size=1, max_size=len(pool), unique=True))
        vals = [draw(st.one_of(st.integers(0, 9), st.integers(1, 10**5))) for _ in keys]
        if sum(vals) == 0:
            vals[0] = 1
        return dict(zip(keys, vals))
    dicts = [counts() for _ in range(draw(st.integers(1, 2)))]
    build = [{"src": "dict", "i": draw(st.integers(0, len(dicts) - 1))} for _ in range(draw(st.integers(2, 3)))]
    if draw(st.booleans()):
        build.append({"src": "counts", "i": draw(st.integers(0, len(build) - 1))})
    ops = []
    for _ in range(draw(st.integers(2, max_ops))):
        o = draw(st.sampled_from(["iadd", "iadd", "iadd", "add", "agg", "remove", "post_select", "resample", "new_dict", "new_counts"]))
        rec = {"op": o, "a": draw(st.integers(0, 7)), "b": draw(st.integers(0, 7)), "c": draw(st.integers(0, 7))}
        if o == "remove":
            rec["idx"] = draw(st.lists(st.integers(0, L - 1), unique=True, max_size=2))
        elif o == "post_select":
            rec["sel"] = {str(i): draw(st.sampled_from("01")) for i in draw(st.lists(st.integers(0, L - 1), unique=True, min_size=1, max_size=2))}
        elif o == "resample":
            rec["n"] = draw(st.integers(1, 200))
        ops.append(rec)
    return {"L": L, "dicts": dicts, "build": build, "ops": ops}


@part("histogram_history", quick=600, thorough=30000)
def histogram_history(ctx):
    """Several Histograms built from the SAME outcomes dictionary object (and from each other's .counts), then sequences of
    +=, +, aggregate_histograms, remove_qubit_indices, post_select, resample: after every step every live histogram and the
    caller's dictionaries must equal the dictionary model (the caller's dictionaries never change; a histogram changes only as
    the target of its own in-place operation)."""
    from tangelo.toolboxes.post_processing.histogram import Histogram, aggregate_histograms

    def nz(d):
        return {k: v for k, v in d.items() if v != 0}

    def body(case):
        raw = [dict(d) for d in case["dicts"]]            # the caller's dictionaries (handed over as they are)
        orig = [dict(d) for d in case["dicts"]]
        H, M, src = [], [], []

        def new_hist(obj, model, origin):
            H.append(obj)
            M.append(dict(model))
            src.append(origin)

        def verify(what, target=None):
            for i, (r, o) in enumerate(zip(raw, orig)):
                if r != o:
                    raise Fail(f"{what}: the caller's outcomes dictionary #{i} changed from {o} to {r}", sig="histogram:history:caller-dict-mutated")
            for j, (h, m) in enumerate(zip(H, M)):
                if h.counts != m:
                    role = "target" if j == target else "bystander"
                    raise Fail(f"{what}: histogram #{j} ({role}, built from {src[j]}) holds {h.counts}, dictionary model {m}",
                               sig=f"histogram:history:{role}-wrong")
                tot = sum(m.values())
                if h.n_shots != tot:
                    raise Fail(f"{what}: histogram #{j} n_shots {h.n_shots}, model {tot}", sig="histogram:history:n_shots")

        for b in case["build"]:
            if b["src"] == "dict":
                new_hist(Histogram(raw[b["i"]]), orig[b["i"]], f"dict#{b['i']}")
            else:
                j = b["i"] % len(H)
                new_hist(Histogram(H[j].counts), M[j], f"hist#{j}.counts")
        verify("construction")
        labels = {f"hists-from-same-dict={max(sum(1 for s_ in src if s_ == f'dict#{i}') for i in range(len(raw)))}"}
        if any(s_.startswith("hist#") for s_ in src):
            labels.add("built-from-other-counts")
        inplace_on_shared = 0
        executed = 0
        for k, rec in enumerate(case["ops"]):
            o = rec["op"]
            a, b, c = rec["a"] % len(H), rec["b"] % len(H), rec["c"] % len(H)
            what = f"step {k} {o}"
            target = None
            if o in ("iadd", "add", "agg"):
                ids = [a, b] if o != "agg" else [a, b, c]
                if any(not M[i] for i in ids):
                    continue
                lens = {len(next(iter(M[i]))) for i in ids}
                summed = {}
                for i in ids:
                    for key, v in M[i].items():
                        summed[key] = summed.get(key, 0) + v
                try:
                    if o == "iadd":
                        h = H[a]
                        h += H[b]
                        res = h
                    elif o == "add":
                        res = H[a] + H[b]
                    else:
                        res = aggregate_histograms(*[H[i] for i in ids])
                except ValueError:
                    if len(lens) > 1:        # documented: different bitstring lengths
                        labels.add(o + ":refused-different-lengths")
                        verify(what + " (refused)")
                        continue
                    raise
                if len(lens) > 1:
                    raise Fail(f"{what}: histograms with bitstring lengths {lens} were aggregated", sig="histogram:history:lengths-accepted")
                if o == "iadd":
                    H[a], M[a], target = res, nz(summed), a
                    if sum(1 for s_ in src if s_ == src[a]) > 1 or src[a].startswith("hist#") or any(s_ == f"hist#{a}.counts" for s_ in src):
                        inplace_on_shared += 1
                        labels.add("in-place-on-histogram-sharing-its-source")
                    if a == b:
                        labels.add("iadd-self")
                elif len(H) < 8:
                    new_hist(res, nz(summed), o)
                else:
                    if res.counts != nz(summed):
                        raise Fail(f"{what}: result {res.counts}, model {nz(summed)}", sig="histogram:history:result-wrong")
            elif o == "remove":
                if not M[a]:
                    continue
                cur = len(next(iter(M[a])))
                idx = [i for i in rec["idx"] if i < cur]
                H[a].remove_qubit_indices(*idx)
                M[a], target = marginal(M[a], idx), a
            elif o == "post_select":
                if not M[a]:
                    continue
                cur = len(next(iter(M[a])))
                sel = {int(i): v for i, v in rec["sel"].items() if int(i) < cur}
                if not sel:
                    continue
                H[a].post_select(dict(sel))
                kept = {key: v for key, v in M[a].items() if all(key[i] == bit for i, bit in sel.items())}
                M[a], target = marginal(kept, list(sel)), a
                labels.add("post_select:" + ("empty" if not M[a] else "kept"))
            elif o == "resample":
                if sum(M[a].values()) == 0 or len(H) >= 8 or len(next(iter(M[a]))) == 0:     # no qubit left: nothing to resample
                    continue
                ctx.np_seed({"case": case, "step": k})
                r = H[a].resample(rec["n"])
                if r.n_shots != rec["n"] or not set(r.counts) <= {key for key, v in M[a].items() if v > 0}:
                    raise Fail(f"{what}: resample({rec['n']}) gave {r.counts} from {M[a]}", sig="histogram:history:resample")
                new_hist(r, dict(r.counts), "resample")
            elif o == "new_dict":
                if len(H) >= 8:
                    continue
                i = rec["a"] % len(raw)
                new_hist(Histogram(raw[i]), orig[i], f"dict#{i}")
            elif o == "new_counts":
                if len(H) >= 8 or not M[a]:
                    continue
                new_hist(Histogram(H[a].counts), M[a], f"hist#{a}.counts")
            executed += 1
            labels.add("op:" + o)
            verify(what, target)
        return executed >= 2 and inplace_on_shared >= 1, labels

    ctx.search("histogram_history", hist_histories(6 if ctx.tier == "quick" else 12), body)


# ------------------------------------------------------------------------------------------------ resampling chunk boundary

@part("resample_chunks", quick=1, thorough=1)
def resample_chunks(ctx):
    """get_resampled_frequencies draws its samples in chunks of 10**7: shot numbers at and around the multiples of the chunk
    size must give exactly n shots on the support, within a 6.5 sigma band of the source frequencies (numpy RNG pinned)."""
    from tangelo.toolboxes.post_processing.bootstrapping import get_resampled_frequencies
    shots = [10**7 - 1, 10**7, 10**7 + 1] if ctx.tier == "quick" else [10**7 - 1, 10**7, 10**7 + 1, 2 * 10**7, 3 * 10**7 + 5]
    cases = [{"freqs": {"01": 0.75, "10": 0.25}, "n": s} for s in shots] + [{"freqs": {"1": 1.0}, "n": 10**7}]

    def body(case):
        f, n = case["freqs"], case["n"]
        ctx.np_seed(case)
        out = get_resampled_frequencies(dict(f), n)
        if not set(out) <= set(f):
            raise Fail(f"n={n}: outcomes {sorted(set(out) - set(f))} outside the support", sig="get_resampled_frequencies:chunk-boundary:support")
        cnt = {k: v * n for k, v in out.items()}
        tot = sum(round(c) for c in cnt.values())
        if any(abs(c - round(c)) > 1e-3 for c in cnt.values()) or tot != n:
            raise Fail(f"n={n}: resampled frequencies {out} hold {tot} shots (sum of frequencies {math.fsum(out.values())})",
                       sig="get_resampled_frequencies:chunk-boundary:total")
        for k, p in f.items():
            from vlib.stats import binomial_ok
            if not binomial_ok(out.get(k, 0.0) * n, n, p):
                raise Fail(f"n={n}: frequency of {k} is {out.get(k, 0.0)}, source {p} (>6.5 sigma)", sig="get_resampled_frequencies:chunk-boundary:dist")
        return True, (f"shots={n}", f"outcomes={len(f)}")

    ctx.sweep("resample_chunks", cases, body)
