"""C19 - noisy simulation applies exactly the specified channels (cirq translation + density-matrix simulation, the cirq
backend's noisy simulate / sampling / expectation values, zero-noise limit, rejection of malformed or unsupported noise)."""
import math
import numpy as np
from hypothesis import strategies as st

from vlib.runner import part, Fail, Skip
from vlib import refsim as R, strategies as S, h_c02 as H

PROPERTY = "C19"
RULE = ("Hypothesis-generated circuits over the full gate set (1-3 controls, arbitrary placement, idle qubits, <=4 qubits, <=10 gates) "
        "with a noise model assigning to gate names (mostly names occurring in the circuit, CNOT and CX treated as the distinct names the "
        "user wrote) a Pauli error [px,py,pz] (>=0, sum<=1, incl. 0.0 and 1.0), a depolarising error p in [0,1], or both. Oracle = "
        "independent density-matrix evolution: after every occurrence of a noisy gate the Pauli channel on each touched qubit (targets "
        "and controls) and the joint depolarising channel (1-p) rho + p (I/2^k (x) tr_k rho) on the k touched qubits. "
        "Non-trivial = >=1 occurrence of a noisy multi-qubit gate with a non-zero rate (history part: an error with non-zero rate for a "
        "gate of the circuit is added after the model was first used). The history part builds ONE NoiseModel in 2-3 stages and checks "
        "translation, the same backend object and a fresh backend after every stage against the errors added so far. "
        "Distinct = distinct canonical JSON of the case.")
ASSUMPTIONS = ["numpy linear algebra", "reference gate table, Pauli channel and joint depolarising channel in vlib/refsim.py (self-tested; "
               "depolarising channel additionally self-tested here against the explicit Pauli-twirl sum)",
               "cirq's DensityMatrixSimulator is used only as the executor of the translated circuit (it is part of the observed system)",
               "sampled frequencies / expectation values are tested with Bernstein bands at false-alarm probability 1e-11 per comparison, numpy seed pinned",
               "noisy expectation values are compared with tr(rho H) only for noise models without RX/RY errors, because the measurement-basis "
               "rotations appended by the backend are themselves RX/RY gates and would legitimately receive noise",
               "rates outside [0,1] count as malformed only where no valid channel results (negative, Pauli sum > 1, depolarising p >= 1.5)"]
SHARDS = {"quick": 4, "thorough": 16}

MULTI = set(S.CTRL_NOPAR + S.CTRL_PAR + S.TWO_T + S.TWO_T_PAR + ["CSWAP"])


def selftest():
    R.selftest()
    H.selftest()
    # joint depolarising channel == uniform Pauli twirl:  (1-p) rho + p/4^k sum_P P rho P
    import itertools
    rng = np.random.RandomState(7)
    n = 3
    a = rng.normal(size=(8, 8)) + 1j * rng.normal(size=(8, 8))
    rho = a @ a.conj().T
    rho /= np.trace(rho)
    for qs in ([1], [2, 0], [0, 1, 2]):
        acc = np.zeros_like(rho)
        for ps in itertools.product("IXYZ", repeat=len(qs)):
            M = R.pauli_matrix([(q, P) for q, P in zip(qs, ps) if P != "I"], n)
            acc += M @ rho @ M.conj().T
        want = 0.7 * rho + 0.3 * acc / 4 ** len(qs)
        assert np.allclose(R.depolarize_joint(rho, qs, 0.3, n), want, atol=1e-13)
    # Pauli channel with px=1 is conjugation by X
    Xq = R.pauli_matrix([(1, "X")], n)
    assert np.allclose(R.pauli_channel(rho, 1, 1.0, 0.0, 0.0, n), Xq @ rho @ Xq, atol=1e-13)
    assert abs(np.trace(reference_density([{"n": "H", "t": [0], "c": None, "p": None}], 1, {"H": [["depol", 1.0]]})) - 1) < 1e-13
    assert np.allclose(reference_density([{"n": "H", "t": [0], "c": None, "p": None}], 1, {"H": [["depol", 1.0]]}), np.eye(2) / 2)


# ------------------------------------------------------------------------------------------------ reference

def noise_table(noise):
    """[[gate name, type, params], ...] -> {gate name: [[type, params], ...]} in the order given."""
    tab = {}
    for name, typ, par in noise:
        tab.setdefault(name, []).append([typ, par])
    return tab


def reference_density(gates, n, tab, init=None, name_of=lambda g: g["n"]):
    psi = R.zero_state(n) if init is None else np.asarray(init, dtype=complex)
    rho = np.outer(psi, psi.conj())
    for g in gates:
        rho = R.apply_gate_density(rho, g, n)
        for typ, par in tab.get(name_of(g), []):
            qs = list(g["t"]) + list(g["c"] or [])
            if typ == "pauli":
                for q in qs:
                    rho = R.pauli_channel(rho, q, par[0], par[1], par[2], n)
            else:
                rho = R.depolarize_joint(rho, qs, par, n)
    return rho


def renamed(g):
    """Name under which a translator that rewrites multi-controlled CNOT into CX would look up the noise."""
    return "CX" if g["n"] == "CNOT" and g["c"] and len(g["c"]) > 1 else g["n"]


def build_noise(noise):
    from tangelo.linq.noisy_simulation import NoiseModel
    nm = NoiseModel()
    for name, typ, par in noise:
        nm.add_quantum_error(name, typ, list(par) if typ == "pauli" else par)
    return nm


def compare(rho, ref, case, n, tab, init, sig, what):
    rho = np.asarray(rho)
    if rho.shape != ref.shape:
        raise Fail(f"{what}: density matrix has shape {rho.shape}, expected {ref.shape}", sig=sig + ":shape")
    d = float(np.max(np.abs(rho - ref)))
    if d > 1e-8:
        # classify: is the result what one gets when multi-controlled CNOT gates are looked up under the name CX?
        alt = reference_density(case["gates"], n, tab, init, name_of=renamed)
        if float(np.max(np.abs(rho - alt))) <= 1e-8:
            raise Fail(f"{what}: a CNOT gate with several controls received the noise registered for 'CX' instead of the noise "
                       f"registered for 'CNOT' (max deviation from the specified channels {d:.3g})", sig="noise:multi-controlled-CNOT-looked-up-as-CX")
        raise Fail(f"{what}: density matrix differs from the specified channels by {d:.3g}", sig=sig,
                   diag_got=[float(x) for x in np.diag(rho).real[:16]], diag_ref=[float(x) for x in np.diag(ref).real[:16]])


def classify(case, tab):
    labs, nontrivial = set(), False
    for g in case["gates"]:
        for typ, par in tab.get(g["n"], []):
            k = len(g["t"]) + len(g["c"] or [])
            nz = (sum(par) if typ == "pauli" else par) > 0
            labs.add(f"{typ}-k={k}")
            if g["c"]:
                labs.add("noise-on-controlled-gate")
            if g["c"] and len(g["c"]) > 1:
                labs.add("noise-on-multi-control-gate")
            if len(g["t"]) > 1:
                labs.add("noise-on-two-target-gate")
            if k >= 2 and nz:
                nontrivial = True
        if len(tab.get(g["n"], [])) == 2:
            labs.add("both-channels-on-one-gate")
    rates = [x for _, typ, par in case["noise"] for x in (par if typ == "pauli" else [par])]
    if rates and all(x == 0 for x in rates):
        labs.add("all-zero-rates")
    if any(x == 1.0 for x in rates):
        labs.add("rate=1")
    if any(name not in {g["n"] for g in case["gates"]} for name, _, _ in case["noise"]):
        labs.add("noise-on-absent-gate")
    if case.get("init") is not None:
        labs.add("init-" + case["init"]["kind"])
    return nontrivial, labs


# ------------------------------------------------------------------------------------------------ strategies

@st.composite
def pauli_rates(draw):
    kind = draw(st.integers(0, 7))
    if kind == 3:
        return [0.0, 0.0, 0.0]
    if kind == 5:
        r = [0.0, 0.0, 0.0]
        r[draw(st.integers(0, 2))] = 1.0
        return r
    tot = draw(st.one_of(st.floats(0.02, 1.0, allow_nan=False), st.sampled_from([0.3, 1.0, 0.05])))
    w = [draw(st.floats(0.05, 1.0, allow_nan=False)) for _ in range(3)]
    if kind == 6:
        w[draw(st.integers(0, 2))] = 0.0
    W = sum(w)
    if W <= 0:
        return [0.0, 0.0, 0.0]
    r = [tot * x / W for x in w]
    # rounding only: keep the specification inside the documented domain whatever the order of the (uncompensated) additions
    while max((r[0] + r[1]) + r[2], r[0] + (r[1] + r[2]), (r[0] + r[2]) + r[1]) > 1.0:
        r = [x * (1 - 1e-12) for x in r]
    return r


depol_rates = st.one_of(st.floats(0.01, 1.0, allow_nan=False), st.floats(0.01, 1.0, allow_nan=False), st.sampled_from([0.25, 1.0, 0.75, 0.0]))


@st.composite
def noise_for(draw, gates, exclude=()):
    present = sorted({g["n"] for g in gates} - set(exclude))
    pool = [x for x in present if x in MULTI] * 4 + present * 2 + [x for x in ["CNOT", "CX", "H", "RZ", "CRY", "SWAP", "CSWAP", "XX"] if x not in exclude]
    names = draw(st.lists(st.sampled_from(pool), min_size=1, max_size=4, unique=True))
    out = []
    for nm in names:
        kind = draw(st.sampled_from(["pauli", "depol", "both", "both-reversed"]))
        p = [nm, "pauli", draw(pauli_rates())]
        d = [nm, "depol", float(draw(depol_rates))]
        out += {"pauli": [p], "depol": [d], "both": [p, d], "both-reversed": [d, p]}[kind]
    if draw(st.integers(0, 11)) == 7:
        out = [[nm, typ, [0.0, 0.0, 0.0] if typ == "pauli" else 0.0] for nm, typ, _ in out]
    return out


@st.composite
def noisy_cases(draw, max_width=4, max_gates=10, with_init=True, exclude=()):
    c = draw(S.circuits(max_width=max_width, max_gates=max_gates, min_gates=2, min_width=2))
    if draw(st.booleans()):
        # make sure multi-qubit gates are frequent (random draws on narrow registers are dominated by one-qubit gates)
        n = max(S.circuit_width(c), 2)
        c["gates"].insert(draw(st.integers(0, len(c["gates"]))), draw(S.gate_recs(n, names=sorted(MULTI))))
        if c["nq"] is not None:
            c["nq"] = max(c["nq"], 1 + max(q for g in c["gates"] for q in g["t"] + (g["c"] or [])))
    c["noise"] = draw(noise_for(c["gates"], exclude))
    n = S.circuit_width(c)
    c["init"] = draw(S.statevectors(n, allow_none=False)) if (with_init and draw(st.integers(0, 2)) == 1) else None
    return c


# ------------------------------------------------------------------------------------------------ exact density matrices

@part("density", quick=400, thorough=30000)
def density(ctx):
    import cirq
    from tangelo.linq import translate_circuit, get_backend

    def body(case):
        n = S.circuit_width(case)
        tab = noise_table(case["noise"])
        init = S.build_statevector(case["init"], n)
        ref0 = reference_density(case["gates"], n, tab)
        # (1) translation + density-matrix simulation of the translated circuit
        cc = translate_circuit(S.build_circuit(case), "cirq", output_options={"noise_model": build_noise(case["noise"])})
        rho = cirq.DensityMatrixSimulator(dtype=np.complex128).simulate(cc).final_density_matrix
        compare(rho, ref0, case, n, tab, None, "translate:density", "translate_circuit(noise_model) + DensityMatrixSimulator")
        # (2) the backend's own noisy simulation (returns the density matrix when the state is requested)
        be = get_backend("cirq", n_shots=1, noise_model=build_noise(case["noise"]))
        ctx.np_seed(case)
        _, rho2 = be.simulate(S.build_circuit(case), return_statevector=True, initial_statevector=None if init is None else init.copy())
        ref = ref0 if init is None else reference_density(case["gates"], n, tab, init)
        compare(rho2, ref, case, n, tab, init, "backend:density", "get_backend('cirq', noise_model).simulate")
        # zero rates reproduce the noiseless state
        nontrivial, labs = classify(case, tab)
        if "all-zero-rates" in labs:
            psi = R.run(case["gates"], n, init)
            d = float(np.max(np.abs(np.asarray(rho2) - np.outer(psi, psi.conj()))))
            if d > 1e-8:
                raise Fail(f"zero error rates: density matrix differs from the noiseless state by {d:.3g}", sig="zero-noise")
        # (3) expectation value of the mixed state
        if case.get("op"):
            terms = S.op_terms(case["op"])
            want = float(np.trace(ref @ R.qop_matrix(terms, n)).real)
            got = be.expectation_value_from_prepared_state(S.build_qubit_op(case["op"]), n, np.asarray(rho2))
            if abs(complex(got) - want) > 1e-8 * max(1.0, sum(abs(c) for c in terms.values())):
                raise Fail(f"expectation_value_from_prepared_state on the noisy density matrix: got {got}, tr(rho H) = {want}",
                           sig="backend:density-expectation")
        return nontrivial, labs

    @st.composite
    def cases(draw):
        c = draw(noisy_cases())
        c["op"] = draw(S.qubit_ops(S.circuit_width(c), max_terms=4, complex_coeffs=False)) if draw(st.booleans()) else None
        return c

    ctx.search("density", cases(), body)


# ------------------------------------------------------------------------------------------------ sampled frequencies / expectation

# ------------------------------------------------------------------------------------------------ one model built up in stages

@part("history", quick=160, thorough=6000)
def history(ctx):
    """One NoiseModel object: add errors, use it (translate / simulate), add more errors (new gate names, second error type on an
    already noisy gate, repeated types that must be refused leaving the model unchanged), use it again - with the same backend object and with fresh ones. After every stage the density matrix is
    the reference evolution for the errors added so far."""
    import cirq
    from tangelo.linq import translate_circuit, get_backend
    from tangelo.linq.noisy_simulation import NoiseModel

    @st.composite
    def cases(draw):
        c = draw(noisy_cases(with_init=False))
        entries = c.pop("noise")
        extra = draw(noise_for(c["gates"]))
        have = {(nm, typ) for nm, typ, _ in entries}
        entries += [e for e in extra if (e[0], e[1]) not in have]
        nst = draw(st.integers(2, 3))
        first = draw(st.sampled_from([1, 0, 1, 2]))          # number of entries in the first stage (0 = model used while still empty)
        stages = [[] for _ in range(nst)]
        for k, e in enumerate(entries):
            if k < first:
                stages[0].append(e)
            else:
                stages[draw(st.integers(1, nst - 1))].append(e)
        # further registrations on an already noisy gate with a type it already carries (must be refused): placed at the end of
        # the stage of the original registration or of a later one, i.e. typically after the gate received its other type too
        for _ in range(draw(st.sampled_from([0, 1, 0, 2]))):
            placed = [(k, e) for k, stg in enumerate(stages) for e in stg]
            if not placed:
                break
            k0, (nm_, typ, _) = draw(st.sampled_from(placed))
            par = draw(pauli_rates()) if typ == "pauli" else float(draw(depol_rates))
            stages[draw(st.integers(k0, nst - 1))].append([nm_, typ, par])
        c["stages"] = stages
        return c

    def body(case):
        n = S.circuit_width(case)
        nm = NoiseModel()
        be_same = None
        pending_dup = None
        sofar, labs, late_effect = [], set(), False
        present = {g["n"] for g in case["gates"]}
        for k, stage in enumerate(case["stages"]):
            for name, typ, par in stage:
                if k > 0:
                    old = {x[0] for x in sofar}
                    labs.add("second-type-on-noisy-gate-after-use" if name in old else "new-gate-name-after-use")
                    if name in present and (sum(par) if typ == "pauli" else par) > 0:
                        late_effect = True
                if any(x[0] == name and x[1] == typ for x in sofar):
                    # one channel per (gate, type): a repeated registration is refused, the model stays as it was
                    try:
                        nm.add_quantum_error(name, typ, list(par) if typ == "pauli" else par)
                    except ValueError:
                        labs.add("repeated-type-refused-at-registration" + ("-after-use" if k > 0 else ""))
                        continue
                    pending_dup = [name, typ, par]
                    continue
                nm.add_quantum_error(name, typ, list(par) if typ == "pauli" else par)
                sofar.append([name, typ, par])
            if k == 0 and not stage:
                labs.add("empty-first-stage")
            tab = noise_table(sofar)
            ref = reference_density(case["gates"], n, tab)
            what = f"stage {k} ({len(sofar)} errors added so far)"
            sub = {"gates": case["gates"], "noise": sofar}
            if pending_dup is not None:
                # accepted at registration: has to be refused at the latest when the model is used
                try:
                    translate_circuit(S.build_circuit(case), "cirq", output_options={"noise_model": nm})
                except ValueError:
                    return True, labs | {"repeated-type-refused-at-translation"}
                raise Fail(f"{what}: a second {pending_dup[1]!r} error on gate {pending_dup[0]!r} (which already carries one, registrations so far "
                           f"{[x[:2] for x in sofar]}) was accepted by add_quantum_error and by translation",
                           sig="history:repeated-type-accepted")
            cc = translate_circuit(S.build_circuit(case), "cirq", output_options={"noise_model": nm})
            rho = cirq.DensityMatrixSimulator(dtype=np.complex128).simulate(cc).final_density_matrix
            compare(rho, ref, sub, n, tab, None, "history:translate", f"{what}: translate_circuit with the staged model")
            if be_same is None:
                be_same = get_backend("cirq", n_shots=1, noise_model=nm)
            for tag, be in (("same-backend", be_same), ("fresh-backend", get_backend("cirq", n_shots=1, noise_model=nm))):
                ctx.np_seed({"k": k, "t": tag, "c": case})
                _, r2 = be.simulate(S.build_circuit(case), return_statevector=True)
                compare(r2, ref, sub, n, tab, None, "history:" + tag, f"{what}: simulate on the {tag}")
            if set(nm.noisy_gates) != set(tab):
                raise Fail(f"{what}: NoiseModel.noisy_gates is {sorted(nm.noisy_gates)}, errors were added for {sorted(tab)}",
                           sig="history:noisy_gates-stale")
        return late_effect and len([s_ for s_ in case["stages"] if s_]) >= 1, labs | {f"stages={len(case['stages'])}"}

    ctx.search("history", cases(), body)


def freq_band(p, N):
    return H.bernstein(p * (1 - p) / N, 1.0 / N)


@part("sampled", quick=80, thorough=6000)
def sampled(ctx):
    from tangelo.linq import get_backend

    @st.composite
    def cases(draw):
        c = draw(noisy_cases(max_width=3, max_gates=8, exclude=("RX", "RY")))
        c["op"] = draw(S.qubit_ops(S.circuit_width(c), max_terms=3, complex_coeffs=False, min_terms=1))
        c["shots"] = draw(st.sampled_from([2000, 20000, 100]))
        return c

    def body(case):
        n = S.circuit_width(case)
        N = case["shots"]
        tab = noise_table(case["noise"])
        init = S.build_statevector(case["init"], n)
        ref = reference_density(case["gates"], n, tab, init)
        p = np.clip(np.diag(ref).real, 0, 1)
        iv = lambda: None if init is None else init.copy()
        be = get_backend("cirq", n_shots=N, noise_model=build_noise(case["noise"]))
        ctx.np_seed(case)
        freqs, _ = be.simulate(S.build_circuit(case), initial_statevector=iv())
        tot = 0
        for k, f in freqs.items():
            if len(k) != n or set(k) - {"0", "1"}:
                raise Fail(f"noisy sampling: bad key {k!r}", sig="sampled:key")
            tot += round(f * N)
            if abs(f * N - round(f * N)) > 1e-6:
                raise Fail(f"noisy sampling: frequency {f} is not a multiple of 1/{N}", sig="sampled:granularity")
            if p[int(k, 2)] < 1e-12:
                raise Fail(f"noisy sampling: outcome {k} has probability {p[int(k, 2)]} in the reference mixed state", sig="sampled:support")
        if tot != N:
            raise Fail(f"noisy sampling: counts sum to {tot}, expected {N}", sig="sampled:total")
        for i, pi_ in enumerate(p):
            f = freqs.get(R.bitstr(i, n), 0.0)
            if abs(f - pi_) > freq_band(pi_, N) + 1e-9:
                raise Fail(f"noisy sampling: outcome {R.bitstr(i, n)} has frequency {f}, reference probability {pi_} (N={N}, band "
                           f"{freq_band(pi_, N):.3g}, p<1e-11)", sig="sampled:frequencies")
        # expectation value = that of the mixed state (noise model has no RX/RY error, so the basis rotations are noiseless)
        terms = S.op_terms(case["op"])
        e = {t: float(np.trace(ref @ R.pauli_matrix(t, n)).real) for t in terms}
        want = sum(c.real * e[t] for t, c in terms.items())
        ctx.np_seed({"e": case})
        got = be.get_expectation_value(S.build_qubit_op(case["op"]), S.build_circuit(case), initial_statevector=iv())
        band = H.estimate_band({t: c.real for t, c in terms.items()}, e, N) + 1e-9
        if not abs(complex(got) - want) <= band:
            raise Fail(f"noisy get_expectation_value: got {got}, tr(rho H) = {want}, band {band:.3g} (N={N}, p<1e-11)", sig="sampled:expectation")
        nontrivial, labs = classify(case, tab)
        return nontrivial, labs | {f"shots={N}"}

    ctx.search("sampled", cases(), body, shrink_calls=150)


# ------------------------------------------------------------------------------------------------ malformed / unsupported

MALFORMED = ["pauli-len2", "pauli-len4", "pauli-tuple", "pauli-scalar", "depol-int", "depol-list", "unknown-type", "duplicate-pauli",
             "duplicate-depol", "pauli-sum>1", "pauli-negative", "depol-negative", "depol>=1.5"]


@part("malformed", quick=1, thorough=1)
def malformed(ctx):
    from tangelo.linq import translate_circuit, get_backend
    from tangelo.linq.noisy_simulation import NoiseModel

    circuit = {"nq": None, "gates": [{"n": "H", "t": [0], "c": None, "p": None}, {"n": "CNOT", "t": [1], "c": [0], "p": None},
                                     {"n": "RZ", "t": [2], "c": None, "p": 0.3}, {"n": "CRY", "t": [0], "c": [2, 1], "p": -1.1}]}

    def specs(kind, x):
        return {"pauli-len2": [["pauli", [x, 0.0]]], "pauli-len4": [["pauli", [x / 4] * 4]], "pauli-tuple": [["pauli", ["tuple", [x / 3] * 3]]],
                "pauli-scalar": [["pauli", x]], "depol-int": [["depol", 1 if x > 0.5 else 0]], "depol-list": [["depol", [x]]],
                "unknown-type": [["depolarizing" if x > 0.5 else "Pauli", x]],
                "duplicate-pauli": [["pauli", [x / 3] * 3], ["pauli", [0.0, 0.0, x]]], "duplicate-depol": [["depol", x], ["depol", x / 2]],
                "pauli-sum>1": [["pauli", [0.4 + x / 2, 0.4, 0.3]]], "pauli-negative": [["pauli", [-x, 0.5, 0.2]]],
                "depol-negative": [["depol", -x]], "depol>=1.5": [["depol", 1.5 + x]]}[kind]

    items = [dict(circuit, gate=g, kind=k, spec=specs(k, x), via=via) for k in MALFORMED for g in ("H", "CNOT", "CRY")
             for x in (0.05, 0.3, 0.9) for via in ("translate", "backend")]

    def body(case):
        nm = NoiseModel()
        try:
            for typ, par in case["spec"]:
                if isinstance(par, list) and len(par) == 2 and par[0] == "tuple":
                    par = tuple(par[1])
                nm.add_quantum_error(case["gate"], typ, par)
        except ValueError:
            return True, ("refused-by-add:" + case["kind"],)
        circ = S.build_circuit(case)
        try:
            if case["via"] == "translate":
                translate_circuit(circ, "cirq", output_options={"noise_model": nm})
            else:
                be = get_backend("cirq", n_shots=10, noise_model=nm)
                ctx.np_seed(case)
                be.simulate(circ)
        except ValueError:
            return True, ("refused-by-" + case["via"] + ":" + case["kind"],)
        raise Fail(f"malformed noise specification {case['spec']} on gate {case['gate']} was accepted by add_quantum_error and by "
                   f"{case['via']}", sig="malformed-accepted:" + case["kind"])

    ctx.sweep("malformed", items, body)

    # Registration sequences on ONE gate: a type may occur once per gate. Every registration whose type the gate already carries
    # (adjacent or not) must be refused there - or, at the latest, the model must be refused at translation; registrations on another
    # gate in between do not matter; the accepted registrations are the channels applied.
    import itertools
    import cirq
    pars = {"pauli": [[0.25, 0.0, 0.0], [0.0, 0.1, 0.2], [0.05, 0.05, 0.05], [0.0, 0.0, 0.5]], "depol": [0.3, 0.15, 0.6, 0.05]}
    seqs = []
    for L in (2, 3, 4):
        for types in itertools.product(["pauli", "depol"], repeat=L):
            for g in ("H", "CNOT"):
                for other in (False, True):
                    seqs.append(dict(circuit, gate=g, other=other, seq=[[t, pars[t][i]] for i, t in enumerate(types)]))

    def body_seq(case):
        nm = NoiseModel()
        accepted, slipped = [], None
        for i, (typ, par) in enumerate(case["seq"]):
            if case["other"] and i == 1:
                nm.add_quantum_error("RZ", "depol", 0.2)
            try:
                nm.add_quantum_error(case["gate"], typ, list(par) if typ == "pauli" else par)
            except ValueError:
                if typ not in [a[1] for a in accepted]:
                    raise Fail(f"registration {i} ({typ}) on gate {case['gate']} was refused although the gate carries only "
                               f"{[a[1] for a in accepted]}", sig="sequence:first-of-its-type-refused")
                continue
            if typ in [a[1] for a in accepted]:
                slipped = slipped or (i, typ)
            else:
                accepted.append([case["gate"], typ, par])
        n = S.circuit_width(case)
        try:
            cc = translate_circuit(S.build_circuit(case), "cirq", output_options={"noise_model": nm})
        except ValueError:
            if slipped is None:
                raise
            return True, ("repeated-type-refused-at-translation",)
        if slipped is not None:
            raise Fail(f"registration sequence {[t for t, _ in case['seq']]} on gate {case['gate']}: registration {slipped[0]} repeats the type "
                       f"{slipped[1]!r} and was accepted by add_quantum_error and by translation", sig="sequence:repeated-type-accepted")
        noise = accepted + ([["RZ", "depol", 0.2]] if case["other"] and len(case["seq"]) > 1 else [])
        rho = cirq.DensityMatrixSimulator(dtype=np.complex128).simulate(cc).final_density_matrix
        tab = noise_table(noise)
        compare(rho, reference_density(case["gates"], n, tab), {"gates": case["gates"], "noise": noise}, n, tab, None,
                "sequence:density", f"registration sequence {[t for t, _ in case['seq']]} on {case['gate']}")
        types = [t for t, _ in case["seq"]]
        return True, ("no-repetition-accepted" if len(set(types)) == len(types) else "repeated-refused-at-registration:len=%d" % len(types),)

    ctx.sweep("sequences", seqs, body_seq)

    # noise on a backend without noisy simulation, or without shots, must be refused
    def body_unsupported(case):
        nm = build_noise(case["noise"])
        try:
            get_backend(case["target"], n_shots=case["shots"], noise_model=nm)
        except ValueError:
            return True, (f"refused:{case['target']}:shots={case['shots']}",)
        raise Fail(f"get_backend({case['target']!r}, n_shots={case['shots']}, noise_model=...) was accepted", sig=f"unsupported-accepted:{case['target']}")

    items = [{"target": t, "shots": s, "noise": nz} for t, s in (("sympy", 100), ("sympy", None), ("cirq", None))
             for nz in ([["H", "depol", 0.1]], [["CNOT", "pauli", [0.1, 0.0, 0.2]]], [["X", "depol", 0.0]])]
    ctx.sweep("unsupported", items, body_unsupported)
