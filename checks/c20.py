"""C20 - Fourier transform, state initialisation and phase estimation are exact.

* get_qft_circuit(qubits, n_qubits, inverse, swap): reference unitary == DFT matrix on the register (first listed qubit
  least significant, identity elsewhere); inverse=True is the adjoint; swap=False leaves the output in bit-reversed order.
* StateVector(v, order).initializing_circuit / uncomputing_circuit: e^{i phase} U_init |0..0> == v in the stated order,
  U_uncompute v is |0..0> up to a phase.
* QPESolver / IterativeQPESolver on an eigenstate with an eigenphase representable in the register return
  (-E t / 2 pi) mod 1 exactly, with certainty (TrotterSuzukiUnitary and CircuitUnitary).
"""
import itertools
from math import pi

import numpy as np
from hypothesis import strategies as st

from vlib.runner import part, Fail, Skip
from vlib import refsim as R, refops as O
from vlib.strategies import circuit_to_recs

PROPERTY = "C20"
RULE = ("QFT: Hypothesis-generated registers (0-5 distinct qubits in any order, or the int form) inside circuits of <= 6 qubits, "
        "inverse on/off, swap on/off, n_qubits given or not; oracle = DFT matrix e^{2 pi i xy/2^k}/sqrt(2^k) built entry by entry with the "
        "first listed qubit as least significant bit, identity on the other qubits (1e-8, no phase freedom); non-trivial = register "
        "length >= 2. State initialisation: complex / real / sparse / basis / two-term normalised vectors on 1-5 qubits, both orders, "
        "return_phase and set_n_qubits on/off; oracle = reference simulation of the returned circuit times e^{i phase} equals the "
        "vector (2e-7), uncomputing circuit maps the vector to |0..0> up to phase; non-trivial = >= 3 non-zero amplitudes or a "
        "relative phase; plus a sweep of all basis states on 1-3 qubits x order x return_phase x set_n_qubits (width honoured when set_n_qubits=True). Phase estimation: register m = 1-5, Hamiltonians with dyadic coefficients k/2^m (qubit-wise commuting "
        "families in random X/Y/Z bases with identity term, and XX/YY/ZZ on Bell states), time +-2 pi, Trotter orders 1/2, steps, "
        "methods time/repeat, CircuitUnitary circuits V^-1 D V with dyadic PHASE/RZ/CPHASE/CRZ (control_method all/variational, unitary Circuit with or without a fixed n_qubits); "
        "eigenstates prepared by gates or StateVector.initializing_circuit; oracle = eigenphase computed from the reference "
        "matrices; QPE (cirq, n_shots=None) must return it exactly with winning probability >= 1-1e-9; iterative QPE (1-4 shots, "
        "pinned numpy seed) must return it in every shot; on the same solver object simulate() is repeated 1-2 times and once more after a second build(), "
        "with the same required answer each time (reference circuit non-empty in the normal case). Non-trivial = phase with >= 2 non-zero bits. "
        "Distinct = distinct canonical JSON of the case.")
ASSUMPTIONS = ["numpy linear algebra; reference gate table vlib/refsim.py (self-tested)",
               "DFT sign/ordering convention: F[y,x] = exp(+2 pi i x y / 2^k)/sqrt(2^k), first listed qubit = least significant bit; "
               "swap=False = same transform with output bits in reversed register order (textbook meaning of omitting the swaps)",
               "state-preparation comparisons at 2e-7 (arccos-based angles lose amplitude ratios below sqrt(2 eps) ~ 1.5e-8), all others at 1e-8",
               "StateVector order 'lsq_first' = amplitude index lists qubit 0 first (Tangelo convention), 'msq_first' the reverse; input vectors normalised",
               "QPE value convention (-E t / 2 pi) mod 1; only the cirq backend is exercised; <= 9 qubits",
               "iterative QPE draws from numpy's global RNG: seeded per case"]
SHARDS = {"quick": 4, "thorough": 16}
TOL = 1e-8
# StateVector computes rotation angles as 2*arccos(|a|/r): amplitude ratios below ~1.5e-8 (= sqrt(2 eps)) are lost to rounding, per
# disentangling level.  That is conditioning, not a wrong circuit: the state-preparation comparisons use 2e-7.
SV_TOL = 2e-7


# ------------------------------------------------------------------------------------------------- helpers

def bit(x, q, n):
    return (x >> (n - 1 - q)) & 1


def dft_matrix(qs, n, inverse=False, swap=True):
    """Reference matrix on n qubits (qubit 0 = most significant index bit) of the DFT on register qs (qs[0] = LSB)."""
    k = len(qs)
    N = 2 ** k
    rest = [q for q in range(n) if q not in qs]
    U = np.zeros((2 ** n, 2 ** n), dtype=complex)

    def val(x, order):
        return sum(bit(x, q, n) << j for j, q in enumerate(order))

    out_order = qs if swap else qs[::-1]      # without the swaps the result appears bit-reversed in the register
    for x in range(2 ** n):
        for y in range(2 ** n):
            if all(bit(x, q, n) == bit(y, q, n) for q in rest):
                U[y, x] = np.exp(2j * pi * val(x, qs) * val(y, out_order) / N) / np.sqrt(N)
    return U.conj().T if inverse else U


def selftest():
    R.selftest()
    O.selftest()
    # 1-qubit DFT = H; 2-qubit DFT on qubits [1,0] (qubit 1 = LSB) = standard 4x4 DFT in the natural index order
    assert np.allclose(dft_matrix([0], 1), R.H)
    w = np.exp(2j * pi / 4)
    F4 = np.array([[w ** (a * b) for b in range(4)] for a in range(4)]) / 2
    assert np.allclose(dft_matrix([1, 0], 2), F4)
    assert np.allclose(dft_matrix([1, 0], 2, inverse=True), F4.conj().T)
    # textbook circuit for 2 qubits: H(msb) CPHASE(pi/2) H(lsb) SWAP
    gates = [{"n": "H", "t": [0]}, {"n": "CPHASE", "t": [0], "c": [1], "p": pi / 2}, {"n": "H", "t": [1]}, {"n": "SWAP", "t": [0, 1]}]
    assert np.allclose(R.unitary(gates, 2), F4)
    assert np.allclose(R.unitary(gates[:-1], 2), dft_matrix([1, 0], 2, swap=False))
    U = dft_matrix([2, 0], 3)
    assert np.allclose(U @ U.conj().T, np.eye(8))
    # identity on the spectator qubit 1
    assert abs(U[0b010, 0b000]) < 1e-15 and abs(U[0b010, 0b010] - 0.5) < 1e-15


# ------------------------------------------------------------------------------------------------- QFT

@st.composite
def qft_cases(draw, max_n):
    n = draw(st.integers(1, max_n))
    if draw(st.integers(0, 5)) == 0:
        k = draw(st.integers(0, min(5, n)))
        qubits = k                                   # int form: register [0..k-1]
    else:
        k = draw(st.integers(0, min(5, n)))
        qubits = list(draw(st.permutations(list(range(n)))))[:k]
    nq = draw(st.sampled_from([None, n, n]))
    return {"qubits": qubits, "n_qubits": nq, "inverse": draw(st.booleans()), "swap": draw(st.booleans())}


def qft_body(case):
    from tangelo.toolboxes.ansatz_generator.ansatz_utils import get_qft_circuit
    qubits = case["qubits"]
    qs = list(range(qubits)) if isinstance(qubits, int) else list(qubits)
    circ = get_qft_circuit(qubits if isinstance(qubits, int) else list(qubits), n_qubits=case["n_qubits"], inverse=case["inverse"], swap=case["swap"])
    need = max(qs) + 1 if qs else 0
    n = case["n_qubits"] if case["n_qubits"] is not None else need
    if circ.width != n:
        raise Fail(f"QFT circuit width {circ.width}, expected {n}", sig="qft:width")
    if n == 0:
        return False, {"empty"}
    U = R.unitary(circuit_to_recs(circ), n)
    ref = dft_matrix(qs, n, inverse=case["inverse"], swap=case["swap"])
    d = float(np.max(np.abs(U - ref)))
    if d > TOL:
        alt = float(np.max(np.abs(U - ref.conj())))
        raise Fail(f"QFT(qubits={qubits}, inverse={case['inverse']}, swap={case['swap']}) differs from the DFT matrix by {d:.3g}"
                   f" (from its complex conjugate: {alt:.3g})", sig=f"qft:matrix:inverse={case['inverse']}:swap={case['swap']}", max_abs=d)
    labels = {f"len={len(qs)}", "inverse" if case["inverse"] else "forward", "swap" if case["swap"] else "noswap",
              "int-form" if isinstance(qubits, int) else "list-form"}
    if qs and sorted(qs) != list(range(min(qs), min(qs) + len(qs))):
        labels.add("non-contiguous")
    if qs and qs != sorted(qs) and qs != sorted(qs, reverse=True):
        labels.add("scrambled-order")
    if n > need:
        labels.add("wider-circuit")
    if qs and min(qs) > 0:
        labels.add("offset-register")
    return len(qs) >= 2, labels


@part("qft", quick=300, thorough=16000)
def qft(ctx):
    ctx.search("qft", qft_cases(6 if ctx.tier == "quick" else 7), qft_body)


# ------------------------------------------------------------------------------------------------- StateVector

AMP = st.floats(-1, 1, allow_nan=False, width=32)


@st.composite
def sv_cases(draw, max_n):
    n = draw(st.integers(1, max_n))
    D = 2 ** n
    kind = draw(st.sampled_from(["complex", "complex", "real", "sparse", "basis", "two-term", "phases-only"]))
    re, im = [0.0] * D, [0.0] * D
    if kind in ("complex", "real", "sparse"):
        re = draw(st.lists(AMP, min_size=D, max_size=D))
        if kind != "real":
            im = draw(st.lists(AMP, min_size=D, max_size=D))
        if kind == "sparse":
            keep = draw(st.lists(st.booleans(), min_size=D, max_size=D))
            re = [a if kp else 0.0 for a, kp in zip(re, keep)]
            im = [a if kp else 0.0 for a, kp in zip(im, keep)]
    elif kind == "basis":
        i = draw(st.integers(0, D - 1))
        ph = draw(st.sampled_from([0, 1, 2, 3]))
        re[i], im[i] = [(1.0, 0.0), (0.0, 1.0), (-1.0, 0.0), (0.6, -0.8)][ph]
    elif kind == "two-term":
        i, j = draw(st.lists(st.integers(0, D - 1), min_size=2, max_size=2, unique=True))
        re[i] = 1.0
        re[j], im[j] = draw(AMP), draw(AMP)
    else:
        ks = draw(st.lists(st.integers(0, 7), min_size=D, max_size=D))
        re = [float(np.cos(k * pi / 4)) for k in ks]
        im = [float(np.sin(k * pi / 4)) for k in ks]
    if sum(a * a + b * b for a, b in zip(re, im)) < 1e-2:
        re[draw(st.integers(0, D - 1))] = 1.0
    return {"re": re, "im": im, "kind": kind, "order": draw(st.sampled_from(["msq_first", "lsq_first"])),
            "return_phase": draw(st.booleans()), "set_n_qubits": draw(st.booleans()),
            "as_list": draw(st.integers(0, 3)) == 0}


def sv_body(case):
    from tangelo.linq.helpers.circuits.statevector import StateVector
    v = np.array(case["re"], dtype=float) + 1j * np.array(case["im"], dtype=float)
    real_input = not any(case["im"])
    v = v / np.linalg.norm(v)
    n = int(round(np.log2(len(v))))
    arg = v.real.copy() if real_input else v.copy()
    if case["as_list"]:
        arg = [float(x) for x in arg] if real_input else [complex(x) for x in arg]
    sv = StateVector(arg, order=case["order"])
    tgt = v if case["order"] == "lsq_first" else R.reverse_order(v)     # reference index convention: qubit 0 most significant
    labels = {case["kind"], case["order"], f"n={n}"}
    nnz = int(np.sum(np.abs(v) > 1e-12))
    if nnz < len(v):
        labels.add("zero-amplitudes")

    def width_check(circ, what):
        if circ.width > n:
            raise Fail(f"{what} circuit width {circ.width} for a {n}-qubit vector", sig=f"statevector:{what}:too-wide")
        if case["set_n_qubits"] and circ.width != n:
            raise Fail(f"{what}_circuit(set_n_qubits=True) has width {circ.width} for a {n}-qubit vector", sig=f"statevector:{what}:set_n_qubits-ignored")

    # initialisation
    if case["return_phase"]:
        circ, phase = sv.initializing_circuit(return_phase=True, set_n_qubits=case["set_n_qubits"])
        labels.add("return_phase")
    else:
        circ, phase = sv.initializing_circuit(set_n_qubits=case["set_n_qubits"]), None
    width_check(circ, "initializing")
    out = R.run(circuit_to_recs(circ), n)
    if phase is not None:
        d = float(np.max(np.abs(np.exp(1j * phase) * out - tgt)))
        if d > SV_TOL:
            dp = R.equal_up_to_phase(out, tgt)[1]
            raise Fail(f"e^(i phase) U_init|0> differs from the vector by {d:.3g} (up to a global phase: {dp:.3g}), order={case['order']}",
                       sig="statevector:init" + (":phase-only" if dp <= SV_TOL else f":{case['order']}"), max_abs=d)
    else:
        ok, dp = R.equal_up_to_phase(out, tgt, tol=SV_TOL)
        if not ok:
            raise Fail(f"U_init|0> is not proportional to the vector (distance {dp:.3g}), order={case['order']}", sig=f"statevector:init:{case['order']}")
    # uncomputation
    if case["return_phase"]:
        ucirc, uphase = sv.uncomputing_circuit(return_phase=True, set_n_qubits=case["set_n_qubits"])
    else:
        ucirc, uphase = sv.uncomputing_circuit(set_n_qubits=case["set_n_qubits"]), None
    width_check(ucirc, "uncomputing")
    back = R.run(circuit_to_recs(ucirc), n, init=tgt)
    if abs(abs(back[0]) - 1) > SV_TOL or float(np.max(np.abs(back[1:]))) > SV_TOL:
        raise Fail(f"uncomputing circuit leaves |<0|U v>| = {abs(back[0]):.6g}, residual {float(np.max(np.abs(back[1:]))):.3g}",
                   sig=f"statevector:uncompute:{case['order']}")
    rel_phase = bool(np.max(np.abs(np.angle(v[np.abs(v) > 1e-12]) - np.angle(v[np.abs(v) > 1e-12][0]))) > 1e-9)
    if rel_phase:
        labels.add("relative-phase")
    if case["set_n_qubits"]:
        labels.add("set_n_qubits")
    return nnz >= 3 or rel_phase, labels


def sv_basis_cases():
    """every computational basis state (x a phase) on 1-3 qubits, both orders, both flags: small exhaustive sweep."""
    out = []
    for n in (1, 2, 3):
        for i in range(2 ** n):
            for order in ("msq_first", "lsq_first"):
                for rp in (False, True):
                    for sn in (False, True):
                        re, im = [0.0] * 2 ** n, [0.0] * 2 ** n
                        re[i], im[i] = [(1.0, 0.0), (0.0, 1.0), (-1.0, 0.0), (0.6, -0.8)][(i + n) % 4]
                        out.append({"re": re, "im": im, "kind": "basis", "order": order, "return_phase": rp, "set_n_qubits": sn,
                                    "as_list": False})
    return out


@part("statevector", quick=400, thorough=24000)
def statevector(ctx):
    ctx.sweep("statevector_basis", sv_basis_cases(), sv_body)
    ctx.search("statevector", sv_cases(5), sv_body)


# ------------------------------------------------------------------------------------------------- phase estimation

BASIS_PREP = {"Z": [], "X": ["H"], "Y": ["H", "S"]}       # |b> -> eigenvector of the letter with eigenvalue (-1)^b


@st.composite
def pe_cases(draw, iterative, max_m, max_state):
    m = draw(st.sampled_from([1] + [x for x in range(2, max_m + 1) for _ in range(2)]))
    kind = draw(st.sampled_from(["qwc", "qwc", "bell", "circuit", "circuit"]))
    K = 2 ** m
    coef = st.one_of(st.integers(-2 * K, 2 * K), st.integers(0, K // 2).map(lambda j: 2 * j + 1)).filter(lambda k: k != 0)
    case = {"solver": "iqpe" if iterative else "qpe", "m": m, "kind": kind}
    if kind == "qwc":
        n = draw(st.integers(1, max_state))
        letters = [draw(st.sampled_from("ZZXY")) for _ in range(n)]
        subsets = draw(st.lists(st.lists(st.integers(0, n - 1), min_size=1, max_size=n, unique=True).map(sorted),
                                min_size=1, max_size=4, unique_by=tuple))
        if not any(n - 1 in s for s in subsets):
            subsets.append([n - 1])          # the Hamiltonian defines the width of the state register
        case.update({"n": n, "letters": letters, "terms": [[s, draw(coef)] for s in subsets],
                     "identity": draw(st.sampled_from([0, 0, 1, 3, -1, K // 2, K + 1])), "bits": [draw(st.integers(0, 1)) for _ in range(n)],
                     "prep": draw(st.sampled_from(["gates", "statevector"]))})
    elif kind == "bell":
        case.update({"n": 2, "terms": [[l, draw(coef)] for l in draw(st.lists(st.sampled_from("XYZ"), min_size=1, max_size=3, unique=True))],
                     "identity": draw(st.sampled_from([0, 1, -3, K // 2])), "which": draw(st.integers(0, 3)),
                     "prep": draw(st.sampled_from(["gates", "statevector"]))})
    else:
        n = draw(st.integers(1, max_state))
        vg = []
        for _ in range(draw(st.integers(0, 4))):
            nm = draw(st.sampled_from(["H", "X", "Y", "Z", "CNOT", "CZ", "SWAP"] if n >= 2 else ["H", "X", "Y", "Z"]))
            qs = list(draw(st.permutations(list(range(n)))))
            if nm in ("CNOT", "CZ"):
                vg.append({"n": nm, "t": [qs[0]], "c": [qs[1]], "p": None})
            elif nm == "SWAP":
                vg.append({"n": nm, "t": qs[:2], "c": None, "p": None})
            else:
                vg.append({"n": nm, "t": [qs[0]], "c": None, "p": None})
        dg = []
        for _ in range(draw(st.integers(1, 4))):
            nm = draw(st.sampled_from(["PHASE", "RZ", "CPHASE", "CRZ"] if n >= 2 else ["PHASE", "RZ"]))
            qs = list(draw(st.permutations(list(range(n)))))
            k = draw(coef)
            # PHASE(2 pi k/K): eigenphases 0, k/K.  RZ(4 pi k/K): eigenphases -+k/K.
            dg.append({"n": nm, "t": [qs[0]], "c": [qs[1]] if nm[0] == "C" else None, "k": k})
        if not any(n - 1 in g["t"] + (g["c"] or []) for g in vg + dg):
            dg.append({"n": "PHASE", "t": [n - 1], "c": None, "k": draw(coef)})     # the circuit defines the width of the state register
        # idle qubit inside / below the state register (the circuit skips a qubit): in half of the cases with n >= 3 the
        # gates are re-mapped so that one qubit below the top one is never touched
        if n >= 3 and draw(st.booleans()):
            idle = draw(st.integers(0, n - 2))
            used = [q for q in range(n) if q != idle]
            remap = lambda q: used[q % len(used)] if q != n - 1 else n - 1
            for g in vg + dg:
                t = [remap(q) for q in g["t"]]
                c = [remap(q) for q in g["c"]] if g["c"] else None
                if len(set(t + (c or []))) == len(t + (c or [])):      # keep the gate valid (distinct qubits)
                    g["t"], g["c"] = t, c
            if not any(idle in g["t"] + (g["c"] or []) for g in vg + dg):
                case["idle_qubit"] = idle
        cm = draw(st.sampled_from(["all", "variational"]))
        for g in dg:      # "variational" controls only gates flagged variational: all phase gates must carry the flag; "all" must not need it
            g["v"] = True if cm == "variational" else draw(st.booleans())
        case.update({"n": n, "V": vg, "D": dg, "bits": [draw(st.integers(0, 1)) for _ in range(n)],
                     "control_method": cm, "fixed_width": draw(st.integers(0, 3)) == 0})
    if kind != "circuit":
        case.update({"tsign": draw(st.sampled_from([1, -1])), "order": draw(st.sampled_from([1, 2])), "steps": draw(st.integers(1, 2)),
                     "method": draw(st.sampled_from(["time", "repeat"]))})
    if iterative:
        case["shots"] = draw(st.integers(1, 4))
    # the eigenstate preparation (reference circuit) is non-empty in the normal case
    if "bits" in case and not any(case["bits"]) and draw(st.integers(0, 4)) > 0:
        case["bits"][draw(st.integers(0, len(case["bits"]) - 1))] = 1
    case["resim"] = draw(st.integers(1, 2))      # number of further simulate() calls on the same built solver
    return case


def prep_gates(case):
    """gate records preparing the eigenvector (reference side and, for prep='gates', the solver's ref_state)."""
    g = []
    if case["kind"] == "qwc":
        for q, b in enumerate(case["bits"]):
            if b:
                g.append({"n": "X", "t": [q], "c": None, "p": None})
            for nm in BASIS_PREP[case["letters"][q]]:
                g.append({"n": nm, "t": [q], "c": None, "p": None})
    elif case["kind"] == "bell":
        w = case["which"]                      # (|00> +- |11>)/sqrt2, (|01> +- |10>)/sqrt2
        if w & 1:
            g.append({"n": "X", "t": [0], "c": None, "p": None})
        if w & 2:
            g.append({"n": "X", "t": [1], "c": None, "p": None})
        g += [{"n": "H", "t": [0], "c": None, "p": None}, {"n": "CNOT", "t": [1], "c": [0], "p": None}]
    else:
        for q, b in enumerate(case["bits"]):
            if b:
                g.append({"n": "X", "t": [q], "c": None, "p": None})
        g += case["V"][::-1]                    # V consists of self-inverse gates: V^-1 = reversed list
    return g


def ham_terms(case):
    K = 2 ** case["m"]
    terms = {}
    if case["kind"] == "qwc":
        for s, k in case["terms"]:
            terms[tuple((q, case["letters"][q]) for q in s)] = k / K
    else:
        for l, k in case["terms"]:
            terms[((0, l), (1, l))] = k / K
    if case["identity"]:
        terms[()] = case["identity"] / K
    return terms


def d_gate_recs(case):
    K = 2 ** case["m"]
    out = []
    for g in case["D"]:
        ang = (2 * pi if g["n"].endswith("PHASE") else 4 * pi) * g["k"] / K
        out.append({"n": g["n"], "t": g["t"], "c": g["c"], "p": ang, "v": bool(g.get("v", True))})
    return out


def fixed_width_circuit(case):
    """input class of the CircuitUnitary defect: the unitary is a Circuit that carries a fixed n_qubits."""
    return case["kind"] == "circuit" and bool(case.get("fixed_width"))


def pe_body_factory(ctx):
    def pe_body(case):
        from tangelo.linq import Circuit
        from tangelo.linq.helpers.circuits.statevector import StateVector
        from tangelo.toolboxes.operators import QubitOperator
        from tangelo.algorithms.projective.qpe import QPESolver
        from tangelo.algorithms.projective.iqpe import IterativeQPESolver
        from vlib.strategies import build_gate
        m, n, kind = case["m"], case["n"], case["kind"]
        K = 2 ** m
        pg = prep_gates(case)
        v = R.run(pg, n)
        labels = {kind, f"m={m}", f"n={n}"}
        if case.get("idle_qubit") is not None:
            labels.add("circuit-unitary-skips-a-qubit")
        # ---- expected eigenphase, from the reference matrices
        if kind == "circuit":
            ug = case["V"] + d_gate_recs(case) + case["V"][::-1]
            U = R.unitary(ug, n)
            Uv = U @ v
            lam = np.vdot(v, Uv)
            assert np.max(np.abs(Uv - lam * v)) < 1e-9, "harness: prepared state is not an eigenvector of the circuit"
            phi = (np.angle(lam) / (2 * pi)) % 1.0
        else:
            terms = ham_terms(case)
            Hm = R.qop_matrix(terms, n)
            Hv = Hm @ v
            E = float(np.real(np.vdot(v, Hv)))
            assert np.max(np.abs(Hv - E * v)) < 1e-9, "harness: prepared state is not an eigenvector of H"
            t = case["tsign"] * 2 * pi
            phi = (-E * t / (2 * pi)) % 1.0
            if case["identity"]:
                labels.add("identity-term")
            labels.add("t<0" if t < 0 else "t>0")
            labels.add(f"order{case['order']}")
            labels.add(f"method={case['method']}")
            if any(l in "XY" for l in case.get("letters", "XY")):
                labels.add("non-diagonal")
        kphi = int(round(phi * K)) % K
        assert abs(phi * K - round(phi * K)) < 1e-7, "harness: eigenphase not representable"
        phi = kphi / K
        bits_expected = format(kphi, f"0{m}b")
        # ---- solver options
        if case.get("prep") == "statevector":
            ref_state = StateVector(v.copy(), order="lsq_first").initializing_circuit()
            labels.add("prep=StateVector")
            if ref_state.width > n:
                raise Fail("initializing circuit wider than the vector", sig="statevector:initializing:too-wide")
        else:
            ref_state = Circuit([build_gate(g) for g in pg], n_qubits=n)
        opts = {"size_qpe_register": m, "ref_state": ref_state}
        if kind == "circuit":
            opts["unitary"] = Circuit([build_gate(g) for g in ug], n_qubits=n if case["fixed_width"] else None)
            if case["fixed_width"]:
                labels.add("unitary-circuit-with-fixed-n_qubits")
            opts["unitary_options"] = {"control_method": case["control_method"]}
            labels.add(f"control_method={case['control_method']}")
            if not all(g.get("v", True) for g in case["D"]):
                labels.add("non-variational-phase-gates")
        else:
            qop = QubitOperator()
            for w, c in terms.items():
                qop.terms[w] = c
            opts["qubit_hamiltonian"] = qop
            opts["unitary_options"] = {"time": t, "trotter_order": case["order"], "n_trotter_steps": case["steps"], "n_steps_method": case["method"]}
        def guard(fn):
            try:
                return fn()
            except ValueError as e:
                if "Qubit index beyond expected maximal index" in str(e) and fixed_width_circuit(case):
                    raise Fail(f"CircuitUnitary.build_circuit fails for a unitary Circuit created with n_qubits={n}: {str(e).splitlines()[0]}",
                               sig="circuit-unitary:fixed-width-circuit") from e
                raise

        # schedule on ONE solver object: build, simulate, simulate again (1-2 times), build again, simulate
        schedule = ["simulate"] + ["simulate"] * int(case.get("resim", 1)) + ["build", "simulate"]
        if len(ref_state._gates) > 0:
            labels.add("non-empty-reference")
        else:
            labels.add("empty-reference")
        if case["solver"] == "qpe":
            opts["backend_options"] = {"target": "cirq"}
            s = QPESolver(opts)
            guard(s.build)
            k = 0
            for step in schedule:
                if step == "build":
                    guard(s.build)
                    continue
                k += 1
                val = s.simulate()
                pmax = max(s.qpe_freqs.values())
                tag = "" if k == 1 else ":repeated-simulate" if k <= 1 + int(case.get("resim", 1)) else ":after-rebuild"
                if s.bitstring != bits_expected or abs(val - phi) > 1e-12:
                    raise Fail(f"QPE simulate() #{k}{tag} returned {val} (bitstring {s.bitstring}, p={pmax:.6g}), expected (-E t/2pi) mod 1 = {phi} "
                               f"({bits_expected})", sig=f"qpe:value:{kind}{tag}", got=val, expected=phi)
                if pmax < 1 - 1e-9:
                    raise Fail(f"QPE simulate() #{k}{tag}: winning bitstring {s.bitstring} has probability {pmax}", sig=f"qpe:certainty:{kind}{tag}")
            labels.add(f"simulate-calls={k}")
        else:
            N = case["shots"]
            opts["backend_options"] = {"target": "cirq", "n_shots": N}
            s = IterativeQPESolver(opts)
            guard(s.build)
            k = 0
            for step in schedule:
                if step == "build":
                    guard(s.build)
                    continue
                k += 1
                ctx.np_seed({"case": case, "call": k})
                val = guard(s.simulate)
                tag = "" if k == 1 else ":repeated-simulate" if k <= 1 + int(case.get("resim", 1)) else ":after-rebuild"
                if set(s.qpe_freqs) != {bits_expected} or abs(val - phi) > 1e-12:
                    raise Fail(f"iterative QPE ({N} shots) simulate() #{k}{tag} returned {val} with outcomes {s.qpe_freqs}, expected {phi} "
                               f"({bits_expected}) in every shot", sig=f"iqpe:value:{kind}{tag}", got=val, expected=phi)
                if abs(sum(s.qpe_freqs.values()) - 1) > 1e-12:
                    raise Fail(f"iterative QPE frequencies {s.qpe_freqs} do not sum to one", sig="iqpe:freqs")
            labels.add(f"shots={N}")
            labels.add(f"simulate-calls={k}")
        nbits = bin(kphi).count("1")
        labels.add("phase-bits=" + ("0" if nbits == 0 else "1" if nbits == 1 else ">=2"))
        return nbits >= 2, labels
    return pe_body


@part("qpe", quick=72, thorough=3500)
def qpe(ctx):
    mm, ms = (4, 3) if ctx.tier == "quick" else (5, 4)
    ctx.search("qpe", pe_cases(False, mm, ms), pe_body_factory(ctx), exclusions={"circuit-unitary:fixed-width-circuit": fixed_width_circuit})


@part("iqpe", quick=72, thorough=3500)
def iqpe(ctx):
    mm, ms = (4, 3) if ctx.tier == "quick" else (5, 4)
    ctx.search("iqpe", pe_cases(True, mm, ms), pe_body_factory(ctx), exclusions={"circuit-unitary:fixed-width-circuit": fixed_width_circuit})
