#!/bin/bash
# Offline setup: make sure hypothesis (and atheris, optional) import under /venv/bin/python.
cd "$(dirname "$0")"
mkdir -p .deps evidence replay
if ! PYTHONPATH=.deps /venv/bin/python -c "import hypothesis" 2>/dev/null; then
  /venv/bin/pip install -q --no-index --find-links /opt/veriftools/wheels --target .deps hypothesis || exit 1
fi
if ! PYTHONPATH=.deps /venv/bin/python -c "import atheris" 2>/dev/null; then
  /venv/bin/pip install -q --no-index --find-links /opt/veriftools/wheels --target .deps atheris >/dev/null 2>&1 || echo "atheris not installable (optional; thorough fuzz parts will be skipped)"
fi
PYTHONPATH=.deps /venv/bin/python -c "import hypothesis, tangelo, os; assert os.path.realpath(tangelo.__file__).startswith('/repo/'), tangelo.__file__; print('setup ok: hypothesis', hypothesis.__version__)"
