#!/venv/bin/python
"""usage: tools/add_meta.py file.json  -- merge {"CNN": {technique,text,note}} objects into tools/manifest_meta.json"""
import json, sys, os
ROOT = os.path.dirname(os.path.dirname(os.path.abspath(__file__)))
p = os.path.join(ROOT, "tools", "manifest_meta.json")
m = json.load(open(p))
new = json.load(open(sys.argv[1]) if sys.argv[1] != "-" else sys.stdin)
for k, v in new.items():
    assert set(v) >= {"technique", "text", "note"}, k
    m["checks"][k] = {"technique": v["technique"], "text": v["text"], "note": v["note"]}
json.dump(m, open(p, "w"), indent=1)
print("meta now has", sorted(m["checks"]))
