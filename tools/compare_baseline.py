#!/venv/bin/python
"""usage: tools/compare_baseline.py junit.xml  -- every test in BASELINE.stable_pass must have passed."""
import json, sys, xml.etree.ElementTree as ET
b = json.load(open("/root/.vp/BASELINE.json"))
res = {}
for tc in ET.parse(sys.argv[1]).getroot().iter("testcase"):
    name = f"{tc.get('classname')}::{tc.get('name')}"
    st = "pass"
    for ch in tc:
        if ch.tag in ("failure", "error"): st = "fail"
        elif ch.tag == "skipped": st = "skip"
    res[name] = st
bad = [t for t in b["stable_pass"] if res.get(t) != "pass"]
newpass = [t for t in b["always_fail"] if res.get(t) == "pass"]
fails = [t for t, s in res.items() if s == "fail"]
print("stable_pass:", len(b["stable_pass"]), "not passing now:", len(bad)); print("\n".join(bad))
print("always_fail now passing:", len(newpass)); print("failing now:", fails)
