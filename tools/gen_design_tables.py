#!/venv/bin/python
"""Fill the generated tables of DESIGN.md §8 from known_findings.json and seeded/*/meta.json."""
import json, os, re
ROOT = os.path.dirname(os.path.dirname(os.path.abspath(__file__)))
k = json.load(open(os.path.join(ROOT, "known_findings.json")))
fixed = ["| property | commit | what failed |", "|---|---|---|"]
for line in k["fixed"]:
    m = re.match(r"fixed: property=(C\d+) (\S+) (.*)", line)
    fixed.append(f"| {m.group(1)} | `{m.group(2)}` | {m.group(3)} |")
fixed.append("")
fixed.append(f"({len(k['fixed'])} entries; some root causes were hit by several checks and are listed under the property that found them first.)")
opn = ["| property | signature | what fails |", "|---|---|---|"]
for e in k["open"]:
    opn.append(f"| {e['property']} | `{e['signature']}` | {e['what']} |")
sd = os.path.join(ROOT, "seeded")
seed = ["| seed | needs, to manifest | first run | now | caught by (signatures) | extension made after a miss |", "|---|---|---|---|---|---|"]
n = det = first_det = 0
for sid in sorted(os.listdir(sd)):
    p = os.path.join(sd, sid, "meta.json")
    if not os.path.exists(p):
        continue
    m = json.load(open(p))
    d = m.get("detected_by") or {}
    sigs = "; ".join(sorted({l.split("::")[0].replace("signature=", "").strip() for l in d.get("lines", []) if "signature=" in l}))[:140]
    if not m.get("not_counted"):
        n += 1
        det += d.get("status") == "DETECTED"
        first_det += m.get("first_quick_result") == "DETECTED"
    seed.append(f"| {sid} | {m['needs_to_manifest']} | {m.get('first_quick_result', '-')} | {d.get('status', 'not run')} | {sigs} | {m.get("extension", "")} {m.get("note", "")} |")
seed.append("")
seed.append(f"Totals: {n} confirmed and counted seeds; {first_det} caught by the quick tier of the check as it stood when the seed arrived; {det} caught by the committed quick tier (the rest: see the 'now' column).")
s = open(os.path.join(ROOT, "DESIGN.md")).read()
for tag, rows in (("FIXED-TABLE", fixed), ("OPEN-TABLE", opn), ("SEED-TABLE", seed)):
    s = re.sub(rf"<!-- {tag}-BEGIN -->.*?<!-- {tag}-END -->", lambda _: f"<!-- {tag}-BEGIN -->\n" + "\n".join(rows) + f"\n<!-- {tag}-END -->", s, flags=re.S)
open(os.path.join(ROOT, "DESIGN.md"), "w").write(s)
print(f"fixed={len(k['fixed'])} open={len(k['open'])} seeds={n} first={first_det} now={det}")
