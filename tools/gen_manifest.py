#!/venv/bin/python
"""Regenerate MANIFEST.json from the table below + the set of existing checks/cNN.py. Validates against the schema."""
import json, os, sys
ROOT = os.path.dirname(os.path.dirname(os.path.abspath(__file__)))
props = [json.loads(l) for l in open(os.path.join(ROOT, "properties.jsonl"))]
META = json.load(open(os.path.join(ROOT, "tools", "manifest_meta.json")))
checks, na = [], []
for p in props:
    pid = p["id"]
    if os.path.exists(os.path.join(ROOT, "checks", pid.lower() + ".py")) and pid in META["checks"]:
        m = META["checks"][pid]
        checks.append({
            "property_id": pid,
            "quick_cmd": f"./check {pid} --tier quick",
            "thorough_cmd": f"./check {pid} --tier thorough",
            "evidence_file": f"/verif/evidence/{pid}.json",
            "replay_cmd_template": f"./check {pid} --replay {{path}}",
            "engine": "hypothesis-runner",
            "level_claimed": {"category": "exploration", "text": m["text"], "design_ref": f"DESIGN.md §4 {pid}"},
            "level_note": m["note"],
            "technique": m["technique"],
        })
    else:
        na.append({"property_id": pid, "reason": META.get("not_applicable", {}).get(pid, "check not built yet in this round; design in DESIGN.md §4")})
man = {
    "version": 1,
    "setup_cmd": "./setup.sh",
    "hooks": {"guard": "TANGELO_VERIF", "enable": "no source hooks are needed: every observable is reachable through public API; ./check exports TANGELO_VERIF=1 for uniformity",
              "baseline_off_cmd": "cd /repo && /venv/bin/python -m pytest -ra -q -p no:cacheprovider --timeout=900 --continue-on-collection-errors",
              "source_commits": [], "add_only": True},
    "engines": [{"name": "hypothesis-runner", "path": "vlib/runner.py", "serves_properties": [c["property_id"] for c in checks],
                 "kind_free_text": "Hypothesis 6.168 generated search (plain-data strategies, seeded by VERIF_SEED, sharded over processes) + exhaustive sweeps against independent reference oracles (vlib/ref*.py); shrunk failures become replay/*.json"}],
    "checks": checks,
    "not_applicable": na,
    "notes": META.get("notes", ""),
}
json.dump(man, open(os.path.join(ROOT, "MANIFEST.json"), "w"), indent=1)
try:
    import jsonschema
    jsonschema.validate(man, json.load(open("/root/.vp/MANIFEST.schema.json")))
    print("MANIFEST valid;", len(checks), "checks,", len(na), "not yet claimed")
except ImportError:
    print("jsonschema missing; wrote MANIFEST without validation")
