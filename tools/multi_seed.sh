#!/bin/bash
# usage: tools/multi_seed.sh "<seeds>" [checks...]  -- runs quick tier for each seed/check (dev mode: evidence not overwritten), logs to .work/multiseed.log
seeds="$1"; shift
checks="${@:-C01 C02 C03 C04 C05 C06 C07 C08 C09 C10 C11 C12 C13 C14 C15 C16 C17 C18 C19 C20}"
mkdir -p .work
for s in $seeds; do for c in $checks; do
  out=$(VERIF_SEED=$s VERIF_DEVRUN=1 ./check $c --no-corpus 2>&1 | grep -E "^(OK|VIOLATION|HARNESS|KNOWN|  signature)" | cut -c1-260 | tr '\n' ' ')
  echo "seed=$s $c :: $out" >> .work/multiseed.log
done; done
echo "multi_seed done: $seeds" >> .work/multiseed.log
