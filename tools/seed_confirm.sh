#!/bin/bash
# usage: tools/seed_confirm.sh <dir with patch.diff + demo.py> [pytest targets...]
# Confirms in a scratch worktree of /repo HEAD: demo passes clean, patch applies, demo fails with patch, given tests pass with patch.
d=$(realpath "$1"); shift
wt=/tmp/confirm_$$
git -C /repo worktree add -q --detach $wt HEAD || exit 2
trap 'git -C /repo worktree remove --force $wt' EXIT
cd $wt
OMP_NUM_THREADS=1 OPENBLAS_NUM_THREADS=1 PYTHONPATH=$wt /venv/bin/python -W ignore "$d/demo.py" >/tmp/confirm_$$.clean 2>&1; c=$?
echo "demo on clean tree: exit $c"
git apply "$d/patch.diff" || { echo "PATCH DOES NOT APPLY"; exit 2; }
OMP_NUM_THREADS=1 OPENBLAS_NUM_THREADS=1 PYTHONPATH=$wt /venv/bin/python -W ignore "$d/demo.py" >/tmp/confirm_$$.patched 2>&1; p=$?
echo "demo on patched tree: exit $p"; tail -3 /tmp/confirm_$$.patched
if [ $# -gt 0 ]; then
  PYTHONPATH=$wt /venv/bin/python -m pytest -q -p no:cacheprovider -n 4 "$@" 2>&1 | tail -4
fi
rm -f /tmp/confirm_$$.clean /tmp/confirm_$$.patched
[ $c -eq 0 ] && [ $p -ne 0 ] && echo "CONFIRMED(demo)" || echo "NOT CONFIRMED"
