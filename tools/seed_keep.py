#!/venv/bin/python
"""usage: tools/seed_keep.py <src dir> <seed id e.g. C09_1> <property> "<needs>" "<what I ran>" """
import json, os, shutil, sys
src, sid, prop, needs, ran = sys.argv[1:6]
dst = os.path.join(os.path.dirname(os.path.dirname(os.path.abspath(__file__))), "seeded", sid)
os.makedirs(dst, exist_ok=True)
for f in ("patch.diff", "demo.py", "notes.md"):
    if os.path.exists(os.path.join(src, f)):
        shutil.copy(os.path.join(src, f), dst)
meta = {"id": sid, "property": prop, "needs_to_manifest": needs, "confirmed_by_main_session": ran,
        "base_commit": os.popen("git -C /repo rev-parse --short HEAD").read().strip(), "detected_by": None}
json.dump(meta, open(os.path.join(dst, "meta.json"), "w"), indent=1)
print("kept", dst)
