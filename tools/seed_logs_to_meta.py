#!/venv/bin/python
"""Parse /tmp/confirm_*.log (output of confirm_batch.sh) and update seeded/<id>/meta.json (confirmation + detection)."""
import glob, json, os, re
ROOT = os.path.dirname(os.path.dirname(os.path.abspath(__file__)))
for log in glob.glob("/tmp/confirm_*.log"):
    txt = open(log).read()
    blocks = re.split(r"^=== ", txt, flags=re.M)[1:]
    for b in blocks:
        sid = b.split("\n", 1)[0].strip()
        mp = os.path.join(ROOT, "seeded", sid, "meta.json")
        if not os.path.exists(mp):
            continue
        m = json.load(open(mp))
        conf, _, chk = b.partition("--- check")
        if "CONFIRMED(demo)" in conf:
            tests = re.findall(r"(\d+ passed[^\n]*|\d+ failed[^\n]*)", conf)
            m["confirmed_by_main_session"] = ("tools/seed_confirm.sh in a scratch worktree of /repo HEAD: demo.py exit 0 on the clean tree, non-zero with the patch; "
                                              "relevant repo test modules with the patch: " + (tests[-1].strip() if tests else "n/a"))
        elif "NOT CONFIRMED" in conf or "PATCH DOES NOT APPLY" in conf:
            m["confirmed_by_main_session"] = "NOT CONFIRMED: " + conf[-300:]
        if "exit=" in chk and not m.get("detected_by"):
            lines = [l.strip() for l in chk.splitlines() if l.startswith("VIOLATION") or l.strip().startswith("signature=")]
            status = "DETECTED" if "VIOLATION" in chk else ("MISSED" if "exit=0" in chk else "ERROR")
            m.setdefault("first_quick_result", status)
            m["detected_by"] = {"status": status, "tier": "quick", "lines": [l[:300] for l in lines[:6]]}
        json.dump(m, open(mp, "w"), indent=1)
        print(sid, m.get("detected_by", {}).get("status") if m.get("detected_by") else None, m["confirmed_by_main_session"][:40])
