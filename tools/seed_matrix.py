#!/venv/bin/python
"""Run every kept seed against its property's quick check (in scratch worktrees, in parallel) and write seeded/RESULTS.md.
usage: tools/seed_matrix.py [ids...]   (default: all)"""
import json, os, subprocess, sys, concurrent.futures as cf
ROOT = os.path.dirname(os.path.dirname(os.path.abspath(__file__)))
sd = os.path.join(ROOT, "seeded")
ids = sys.argv[1:] or sorted(d for d in os.listdir(sd) if os.path.isdir(os.path.join(sd, d)))
def run(sid):
    meta = json.load(open(os.path.join(sd, sid, "meta.json")))
    prop = meta["property"]
    if not os.path.exists(os.path.join(ROOT, "checks", prop.lower() + ".py")):
        return sid, None, "no check yet"
    r = subprocess.run([os.path.join(ROOT, "tools", "seed_run.sh"), os.path.join(sd, sid), prop], capture_output=True, text=True)
    out = r.stdout + r.stderr
    viol = [l for l in out.splitlines() if l.startswith("VIOLATION") or l.strip().startswith("signature=")]
    status = "DETECTED" if "VIOLATION" in out else ("MISSED" if "exit=0" in out else "ERROR")
    seed = os.environ.get("VERIF_SEED", "1")
    if seed != "1":
        meta[f"status_at_seed_{seed}"] = status
        json.dump(meta, open(os.path.join(sd, sid, "meta.json"), "w"), indent=1)
        return sid, status, "; ".join(l.strip() for l in viol[:2])
    meta.setdefault("first_quick_result", status)
    meta["detected_by"] = {"status": status, "tier": "quick", "lines": [l[:300] for l in viol[:6]],
                           "verif_commit": os.popen(f"git -C {ROOT} rev-parse --short HEAD").read().strip()}
    json.dump(meta, open(os.path.join(sd, sid, "meta.json"), "w"), indent=1)
    return sid, status, "; ".join(l.strip() for l in viol[:4]) if status != "ERROR" else out[-600:]
with cf.ThreadPoolExecutor(max_workers=int(os.environ.get("SEED_JOBS", "3"))) as ex:
    res = list(ex.map(run, ids))
for sid, st, info in res:
    print(sid, st, info[:300])
