#!/bin/bash
# usage: tools/seed_run.sh <dir with patch.diff> <CHECK-ID> [extra ./check args]
# Applies the patch in a scratch worktree of /repo HEAD and runs the check against it (VERIF_REPO), then removes the worktree.
d=$(realpath "$1"); id=$2; shift 2
wt=/tmp/seedrun_$$
git -C /repo worktree add -q --detach $wt HEAD || exit 2
trap 'git -C /repo worktree remove --force $wt' EXIT
git -C $wt apply "$d/patch.diff" || { echo "PATCH DOES NOT APPLY"; exit 2; }
cd /verif && VERIF_REPO=$wt ./check $id "$@"; echo "exit=$?"
