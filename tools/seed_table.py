#!/venv/bin/python
"""Write seeded/RESULTS.md (markdown table) from seeded/*/meta.json."""
import json, os
ROOT = os.path.dirname(os.path.dirname(os.path.abspath(__file__)))
sd = os.path.join(ROOT, "seeded")
rows = []
for sid in sorted(os.listdir(sd)):
    p = os.path.join(sd, sid, "meta.json")
    if not os.path.exists(p):
        continue
    m = json.load(open(p))
    d = m.get("detected_by") or {}
    sigs = "; ".join(sorted({l.split("::")[0].replace("signature=", "").strip() for l in d.get("lines", []) if "signature=" in l}))[:160]
    rows.append(f"| {sid} | {m["property"]} | {m["needs_to_manifest"]} | first run: {m.get("first_quick_result","-")}; now: {d.get("status", "not run")} | {sigs} | {m.get('note', '')} |")
out = ["# Seeded changes and which check detects them", "",
       "Each row: an independently authored change to Tangelo (sub-agent given only the property text) that breaks the property while passing the repository's tests;",
       "confirmed by the main session (demo fails with the patch, passes without; relevant test modules pass with the patch). `status` is the result of",
       "`tools/seed_run.sh seeded/<id> <property>` (quick tier, seed 1, scratch worktree via VERIF_REPO).", "",
       "| seed | property | needs, to manifest | status | failing signatures | note |", "|---|---|---|---|---|---|"] + rows
open(os.path.join(sd, "RESULTS.md"), "w").write("\n".join(out) + "\n")
print("\n".join(rows))
