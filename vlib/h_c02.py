"""Helpers for C02: mid-circuit measurement branches, reference expectation values / variances, rigorous sampling bands,
and a user-defined Backend (the documented extension point) that offers no native expectation-value shortcut.

Written from the definitions, not from Tangelo code.  Index convention as in refsim (bit string lists qubit 0 first).
"""
import math
import numpy as np

from . import refsim as R


# ------------------------------------------------------------------------------------------------ measurement branches

def project(psi, q, r, n):
    """Unnormalised projection of psi on qubit q == r."""
    t = np.array(psi, dtype=complex).reshape([2] * n)
    idx = [slice(None)] * n
    idx[q] = 1 - r
    t[tuple(idx)] = 0
    return t.reshape(-1)


def branches(gates, n, init=None, pmin=1e-13):
    """Enumerate the outcome strings of the MEASURE gates of `gates` (records {"n":"MEASURE","t":[q]}).
    Returns a list of (outcome string in order of appearance, probability, normalised final state)."""
    live = [("", 1.0, R.zero_state(n) if init is None else np.asarray(init, dtype=complex).copy())]
    for g in gates:
        name, tg, _, _ = R.fields(g)
        if name == "MEASURE":
            new = []
            for bits, p, psi in live:
                for r in (0, 1):
                    v = project(psi, tg[0], r, n)
                    w = float(np.vdot(v, v).real)
                    if p * w > pmin:
                        new.append((bits + str(r), p * w, v / math.sqrt(w)))
            live = new
        else:
            live = [(bits, p, R.apply_gate(psi, g, n)) for bits, p, psi in live]
    return live


def unitary_part(gates):
    return [g for g in gates if R.fields(g)[0] != "MEASURE"]


# ------------------------------------------------------------------------------------------------ reference values

def term_expectations(terms, psi, n):
    """{term: <psi|P|psi>} (real numbers) for the Pauli words of `terms`."""
    return {t: float(np.vdot(psi, R.apply_pauli_term(psi, t, n)).real) for t in terms}


def mixed_term_expectations(terms, brs, n):
    out = {t: 0.0 for t in terms}
    for _, p, psi in brs:
        for t, e in term_expectations(terms, psi, n).items():
            out[t] += p * e
    return out


def expectation(terms, e):
    return sum(c * e[t] for t, c in terms.items())


def variance_formula(terms, e):
    """Documented 'no correlation between terms' propagation: sum_k c_k^2 (1 - <P_k>^2), applied to real and imaginary
    parts of the coefficients separately and added (the documented complex-variance convention)."""
    return sum((c.real ** 2 + c.imag ** 2) * (1 - e[t] ** 2) for t, c in terms.items())


# ------------------------------------------------------------------------------------------------ sampling bands

LOG_2_OVER_DELTA = math.log(2 / 1e-11)


def bernstein(V, b, L=LOG_2_OVER_DELTA):
    """Deviation t with P(|S-ES| >= t) <= 2 exp(-L') = 1e-11 for a sum S of independent variables with total variance V,
    each deviating from its mean by at most b (Bernstein's inequality)."""
    a = b * L / 3
    return a + math.sqrt(a * a + 2 * V * L)


def estimate_band(coefs, e, N):
    """Band for sum_k c_k m_k (c_k real), m_k = mean of N independent +-1 draws with mean e_k, terms independent."""
    V = sum(c * c * (1 - e[t] ** 2) for t, c in coefs.items() if t) / N
    b = max([2 * abs(c) / N for t, c in coefs.items() if t] + [0.0])
    return bernstein(V, b)


def variance_interval(coefs2, e, N, nterms):
    """Interval containing sum_k w_k (1 - m_k^2) (w_k >= 0) with probability >= 1 - nterms*1e-11."""
    L = LOG_2_OVER_DELTA
    lo = hi = 0.0
    for t, w in coefs2.items():
        if not t:
            continue
        tk = bernstein((1 - e[t] ** 2) / N, 2.0 / N, L)
        a, b = max(-1.0, e[t] - tk), min(1.0, e[t] + tk)
        m2max = max(a * a, b * b)
        m2min = 0.0 if a <= 0 <= b else min(a * a, b * b)
        lo += w * (1 - m2max)
        hi += w * (1 - m2min)
    return lo, hi


# ------------------------------------------------------------------------------------------------ user-defined backend

def make_generic_backend(n_shots=None):
    """A user-defined Backend subclass (extension point documented in tangelo/linq/target/backend.py): it delegates circuit
    simulation to the cirq target but offers no `expectation_value_from_prepared_state`, so the generic routes of
    Backend are used."""
    from tangelo.linq.target.backend import Backend
    from tangelo.linq.target.target_cirq import CirqSimulator

    class PlainBackend(Backend):
        def __init__(self, n_shots=None, noise_model=None):
            super().__init__(n_shots=n_shots, noise_model=noise_model)
            self._inner = CirqSimulator(n_shots=n_shots, noise_model=noise_model)

        def simulate_circuit(self, source_circuit, return_statevector=False, initial_statevector=None,
                             desired_meas_result=None, save_mid_circuit_meas=False):
            out = self._inner.simulate_circuit(source_circuit, return_statevector=return_statevector,
                                               initial_statevector=initial_statevector,
                                               desired_meas_result=desired_meas_result,
                                               save_mid_circuit_meas=save_mid_circuit_meas)
            if hasattr(self._inner, "all_frequencies"):
                self.all_frequencies = self._inner.all_frequencies
            return out

        @staticmethod
        def backend_info():
            return {"statevector_available": True, "statevector_order": "lsq_first", "noisy_simulation": True}

    return PlainBackend(n_shots=n_shots)


def selftest():
    # projection / branches: H on q0, measure q0, CNOT -> two branches of probability 1/2 with states |00>, |11>
    g = [{"n": "H", "t": [0]}, {"n": "MEASURE", "t": [0]}, {"n": "CNOT", "t": [1], "c": [0]}]
    br = branches(g, 2)
    assert [b[0] for b in br] == ["0", "1"] and all(abs(b[1] - 0.5) < 1e-14 for b in br)
    assert abs(br[0][2][0] - 1) < 1e-14 and abs(br[1][2][3] - 1) < 1e-14
    # measurement of qubit 1 of |01> (index 1): only outcome "1"
    br = branches([{"n": "X", "t": [1]}, {"n": "MEASURE", "t": [1]}], 2)
    assert len(br) == 1 and br[0][0] == "1" and abs(br[0][2][1] - 1) < 1e-14
    # <+|X|+> = 1, <+|Z|+> = 0, <+i|Y|+i> = 1
    plus = R.run([{"n": "H", "t": [0]}], 1)
    e = term_expectations({((0, "X"),): 1, ((0, "Z"),): 1}, plus, 1)
    assert abs(e[((0, "X"),)] - 1) < 1e-14 and abs(e[((0, "Z"),)]) < 1e-14
    pi_ = R.run([{"n": "H", "t": [0]}, {"n": "S", "t": [0]}], 1)
    assert abs(term_expectations({((0, "Y"),): 1}, pi_, 1)[((0, "Y"),)] - 1) < 1e-14
    # qop_expectation agrees with the dense matrix
    terms = {((0, "X"), (2, "Y")): 0.3 - 1j, (): 2.0, ((1, "Z"),): -1.5}
    psi = R.run([{"n": "H", "t": [0]}, {"n": "RX", "t": [2], "p": 0.4}, {"n": "CRY", "t": [1], "c": [0], "p": 1.1}], 3)
    assert abs(R.qop_expectation(terms, psi, 3) - np.vdot(psi, R.qop_matrix(terms, 3) @ psi)) < 1e-13
    assert abs(expectation(terms, term_expectations(terms, psi, 3)) - R.qop_expectation(terms, psi, 3)) < 1e-13
    assert bernstein(1.0, 0.0) > 6.5 and bernstein(0.0, 1.0) > 0
