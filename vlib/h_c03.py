"""Helpers for checks/c03.py: plain-data fermion operators, term algebra written from the definitions, fast restriction of a
second-quantised operator to a list of determinants, molecular-form Hamiltonians, qubit-operator matrices.

Conventions as in vlib/refops.py: m modes, mode 0 = most significant bit of the basis index,
a_p |x> = (-1)^{sum_{q<p} x_q} x_p |x with bit p cleared>.  Terms: {((p, dag), ...): coeff}; the rightmost factor acts first.
"""
import itertools
import numpy as np

from . import refsim as R, refops as F

_POP = {}


def _pop(m):
    if m not in _POP:
        _POP[m] = np.array([bin(x).count("1") for x in range(2 ** m)], dtype=np.int64)
    return _POP[m]


# ------------------------------------------------------------------------------------------------ term algebra

def case_to_terms(op):
    """[[ [[p,d],...], re, im ], ...] -> {term: coeff}, duplicates merged, exact zeros kept out."""
    d = {}
    for t, re, im in op:
        k = tuple((int(p), int(a)) for p, a in t)
        d[k] = d.get(k, 0) + complex(re, im)
    return {k: v for k, v in d.items() if v != 0}


def dagger_terms(a):
    out = {}
    for t, c in a.items():
        k = tuple((p, 1 - d) for p, d in reversed(t))
        out[k] = out.get(k, 0) + np.conj(c)
    return out


def mul_terms(a, b):
    """Literal product (concatenation of ladder strings, no re-ordering)."""
    out = {}
    for ta, ca in a.items():
        for tb, cb in b.items():
            out[ta + tb] = out.get(ta + tb, 0) + ca * cb
    return out


def lin_terms(a, b, ca=1.0, cb=1.0):
    out = {}
    for t, c in a.items():
        out[t] = out.get(t, 0) + ca * c
    for t, c in b.items():
        out[t] = out.get(t, 0) + cb * c
    return out


def modes_of(a):
    return sorted({p for t in a for p, _ in t})


def build_fop(terms):
    """Tangelo FermionOperator holding exactly these terms (no arithmetic of the class under test is used)."""
    from tangelo.toolboxes.operators import FermionOperator
    op = FermionOperator()
    for t, c in terms.items():
        c = complex(c)
        op.terms[tuple(t)] = c.real if c.imag == 0 else c
    return op


# ------------------------------------------------------------------------------------------------ matrices

def apply_term(term, states, m):
    """Apply a ladder string to basis states (int array). Returns (new_states, amplitude in {0,+1,-1})."""
    pop = _pop(m)
    s = states.copy()
    amp = np.ones(len(s))
    for p, d in reversed(term):
        bit = 1 << (m - 1 - p)
        occ = (s & bit) != 0
        ok = ~occ if d else occ
        par = pop[s >> (m - p)] & 1
        amp = amp * ok * (1 - 2 * par)
        s = s ^ bit
    return s, amp


def sub_matrix(terms, m, idx):
    """Matrix of P O P on the determinants listed in idx (P = projector on their span)."""
    idx = np.asarray(idx, dtype=np.int64)
    pos = -np.ones(2 ** m, dtype=np.int64)
    pos[idx] = np.arange(len(idx))
    M = np.zeros((len(idx), len(idx)), dtype=complex)
    cols = np.arange(len(idx))
    for t, c in terms.items():
        new, amp = apply_term(t, idx, m)
        rows = pos[new]
        ok = (amp != 0) & (rows >= 0)
        np.add.at(M, (rows[ok], cols[ok]), c * amp[ok])
    return M


def leaks(terms, m, idx):
    """Largest amplitude with which the operator maps a listed determinant outside the list (0 = invariant subspace)."""
    idx = np.asarray(idx, dtype=np.int64)
    inside = np.zeros(2 ** m, dtype=bool)
    inside[idx] = True
    acc = {}
    for t, c in terms.items():
        new, amp = apply_term(t, idx, m)
        for j in np.nonzero((amp != 0) & ~inside[new])[0]:
            k = (int(new[j]), int(j))
            acc[k] = acc.get(k, 0) + c * amp[j]
    return max((abs(v) for v in acc.values()), default=0.0)


def qop_max_qubit(terms):
    return max((q for t in terms for q, _ in t), default=-1)


def qmat(terms, nq):
    return R.qop_matrix(terms, nq)


def spectra_equal(e1, e2, tol):
    e1, e2 = np.sort(np.real(e1)), np.sort(np.real(e2))
    if e1.shape != e2.shape:
        return False, np.inf
    d = float(np.max(np.abs(e1 - e2))) if len(e1) else 0.0
    return d <= tol, d


# ------------------------------------------------------------------------------------------------ sectors

def parity_sector(m, n_par, na_par):
    """Interleaved ordering: determinants with N = n_par and N_alpha (even modes) = na_par (mod 2)."""
    out = []
    for x in range(2 ** m):
        b = F.bits_of(x, m)
        if sum(b) % 2 == n_par % 2 and sum(b[0::2]) % 2 == na_par % 2:
            out.append(x)
    return out


def seniority_zero(M):
    """Interleaved ordering on 2M modes: every spatial orbital doubly occupied or empty."""
    out = []
    for occ in itertools.product((0, 1), repeat=M):
        bits = []
        for o in occ:
            bits += [o, o]
        out.append(F.index_of(bits))
    return out


# ------------------------------------------------------------------------------------------------ molecular form

def molecular_terms(const, h, eri):
    """H = const + sum_{pq,s} h[p][q] a+_{ps} a_{qs} + 1/2 sum_{pqrs,s,t} (pq|rs) a+_{ps} a+_{rt} a_{st} a_{qs}
    with spin-orbital index 2*p + (0 alpha | 1 beta); eri[p][q][r][s] = (pq|rs) (chemist).  Every non-zero coefficient
    becomes one term (also the ones whose ladder string vanishes identically), which is the layout of the Hamiltonians that
    Tangelo's molecules produce."""
    h = np.asarray(h)
    eri = np.asarray(eri)
    M = h.shape[0]
    terms = {}
    if const != 0:
        terms[()] = const
    for p, q in itertools.product(range(M), repeat=2):
        if h[p, q] != 0:
            for s in (0, 1):
                terms[((2 * p + s, 1), (2 * q + s, 0))] = h[p, q]
    for p, q, r, s in itertools.product(range(M), repeat=4):
        v = eri[p, q, r, s]
        if v != 0:
            for s1 in (0, 1):
                for s2 in (0, 1):
                    terms[((2 * p + s1, 1), (2 * r + s2, 1), (2 * s + s2, 0), (2 * q + s1, 0))] = 0.5 * v
    return terms


def integrals_from_case(c):
    """case -> const, h, eri (chemist notation eri[p,q,r,s] = (pq|rs)).

    Keys: "M", "const", "h" (upper triangle, real parts), "L" (list of upper-triangle factors, real parts); optional
    "hi" / "Li" (strict upper triangle, imaginary parts: the matrices are then complex Hermitian), "Ls" (sign +-1 per factor)
    and "X" (sparse extra two-body entries [[p,q,r,s], re, im]).
      eri = sum_k s_k L_k (x) L_k  +  sum_X sym4(G)
    where sym4(G)[pqrs] = G[pqrs] + G[rspq] + conj(G[qpsr]) + conj(G[srqp]).  Real symmetric L_k without "X" give the full 8-fold
    symmetry of real orbitals; Hermitian L_k and the X entries only have the symmetries forced by particle exchange and
    Hermiticity, (pq|rs) = (rs|pq) = conj((qp|sr)), but not (pq|rs) = (qp|rs)."""
    M = c["M"]

    def herm(tri, tri_im=None):
        A = np.zeros((M, M), dtype=complex)
        it = iter(tri)
        for i in range(M):
            for j in range(i, M):
                A[i, j] = A[j, i] = next(it)
        if tri_im is not None:
            it = iter(tri_im)
            for i in range(M):
                for j in range(i + 1, M):
                    v = next(it)
                    A[i, j] += 1j * v
                    A[j, i] -= 1j * v
        return A
    h = herm(c["h"], c.get("hi"))
    eri = np.zeros((M, M, M, M), dtype=complex)
    Li = c.get("Li") or [None] * len(c["L"])
    Ls = c.get("Ls") or [1.0] * len(c["L"])
    for tri, tri_im, sgn in zip(c["L"], Li, Ls):
        L = herm(tri, tri_im)
        eri += sgn * np.einsum("pq,rs->pqrs", L, L)
    for (p, q, r, s), re, im in c.get("X") or []:
        v = complex(re, im)
        eri[p, q, r, s] += v
        eri[r, s, p, q] += v
        eri[q, p, s, r] += np.conj(v)
        eri[s, r, q, p] += np.conj(v)
    if not (np.iscomplexobj(h) and (np.any(h.imag) or np.any(eri.imag))):
        h, eri = h.real.copy(), eri.real.copy()
    return c["const"], h, eri


def eri_symmetry(eri):
    """(hermitian+exchange symmetric?, additionally (pq|rs) == (qp|rs)?) -- used for self-tests and labels."""
    four = np.allclose(eri, eri.transpose(2, 3, 0, 1)) and np.allclose(eri, eri.transpose(1, 0, 3, 2).conj())
    eight = np.allclose(eri, eri.transpose(1, 0, 2, 3))
    return four, eight


# ------------------------------------------------------------------------------------------------ self test

def selftest():
    F.selftest()
    m = 4
    terms = {((0, 1), (2, 0)): 0.7, ((3, 1), (1, 1), (0, 0), (2, 0)): -0.3 + 0.2j, ((1, 1), (1, 0)): 1.5, (): 0.25,
             ((2, 0), (2, 1)): 0.5, ((0, 1),): 0.1}
    full = F.fermion_matrix(terms, m)
    allidx = list(range(2 ** m))
    assert np.allclose(sub_matrix(terms, m, allidx), full)
    idx = F.sector_indices(m, n_total=2)
    assert np.allclose(sub_matrix(terms, m, idx), full[np.ix_(idx, idx)])
    # term algebra against matrices
    a = {((0, 1), (1, 0)): 2.0, ((2, 1),): 1j}
    b = {((1, 1), (3, 0)): -1.0, (): 0.5}
    A, B = F.fermion_matrix(a, m), F.fermion_matrix(b, m)
    assert np.allclose(F.fermion_matrix(mul_terms(a, b), m), A @ B)
    assert np.allclose(F.fermion_matrix(dagger_terms(a), m), A.conj().T)
    assert np.allclose(F.fermion_matrix(lin_terms(a, b, 2.0, -1j), m), 2 * A - 1j * B)
    # leak detector: a+_0 a_1 keeps the particle number, a+_0 alone does not
    assert leaks({((0, 1), (1, 0)): 1.0}, m, idx) == 0.0 and leaks({((0, 1),): 1.0}, m, idx) == 1.0
    # molecular form: two electrons in one orbital have energy 2h + (00|00)
    t = molecular_terms(0.5, [[-1.0]], [[[[0.25]]]])
    E = sub_matrix(t, 2, [3])[0, 0]
    assert abs(E - (0.5 - 2.0 + 0.25)) < 1e-14
    assert seniority_zero(2) == [0, 3, 12, 15]
    # integral families: 8-fold (real symmetric factors), 4-fold (Hermitian factors / sparse extras); the Hamiltonian is Hermitian
    c8 = {"M": 2, "const": 0.5, "h": [1.0, 0.25, -1.0], "L": [[0.5, 0.25, -0.5]]}
    c4 = dict(c8, hi=[0.5], Li=[[0.75]], X=[[[0, 1, 0, 1], 0.25, 0.5]])
    c4r = dict(c8, X=[[[0, 1, 0, 1], 0.25, 0.0], [[0, 0, 0, 1], 0.5, 0.0]])
    assert eri_symmetry(integrals_from_case(c8)[2]) == (True, True)
    for c in (c4, c4r):
        k, hh, g = integrals_from_case(c)
        assert eri_symmetry(g) == (True, False)
        Hm = F.fermion_matrix(molecular_terms(k, hh, g), 4)
        assert np.allclose(Hm, Hm.conj().T)
    assert not np.iscomplexobj(integrals_from_case(c4r)[2]) and np.iscomplexobj(integrals_from_case(c4)[2])
    assert parity_sector(2, 0, 0) == [0] and parity_sector(2, 1, 1) == [2]
