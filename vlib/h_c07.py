"""Helpers shared by the ansatz checks C07 (update == rebuild histories) and C12 (conserving ansaetze):
fixed molecule pool (built once per process), ansatz factory over plain-data configurations, explicit configuration
lists, gate-record conversion for the reference simulator, length-agnostic parameter recipes."""
import contextlib, copy, io, math

import numpy as np
from hypothesis import strategies as st

from vlib.runner import Fail
from vlib import refsim as R, strategies as S

# ------------------------------------------------------------------------------------------------ molecule pool

_XYZ_H2 = [["H", [0.0, 0.0, 0.0]], ["H", [0.0, 0.0, 0.7414]]]
_XYZ_H3 = [["H", [0.0, 0.0, 0.0]], ["H", [0.0, 0.1, 0.9]], ["H", [0.8, 0.2, 0.3]]]
_XYZ_H4 = [["H", [0.7071067811865476, 0.0, 0.0]], ["H", [0.0, 0.7071067811865476, 0.0]],
           ["H", [-1.0071067811865476, 0.0, 0.0]], ["H", [0.0, -1.0071067811865476, 0.0]]]
_XYZ_LiH = [["Li", [0.0, 0.0, 0.0]], ["H", [0.0, 0.0, 1.5949]]]
MOL_SPECS = {
    "H2": dict(xyz=_XYZ_H2, q=0, spin=0, frozen=None, uhf=False),
    "H3": dict(xyz=_XYZ_H3, q=0, spin=1, frozen=None, uhf=False),                 # doublet, ROHF
    "H4": dict(xyz=_XYZ_H4, q=0, spin=0, frozen=None, uhf=False),
    "LiH": dict(xyz=_XYZ_LiH, q=0, spin=0, frozen=[0, 3, 4], uhf=False),           # 3 active orbitals
    "H4uhf": dict(xyz=_XYZ_H4, q=0, spin=0, frozen=[[1], []], uhf=True),           # UHF, 3 alpha / 4 beta active orbitals
}
_MOLS = {}


def mol(name):
    """Fixed pool, built once per process (SCF is the expensive part). Molecules are only read by the ansatz classes."""
    if name not in _MOLS:
        from tangelo import SecondQuantizedMolecule
        s = MOL_SPECS[name]
        with quiet():
            _MOLS[name] = SecondQuantizedMolecule([(a, tuple(x)) for a, x in s["xyz"]], s["q"], s["spin"], basis="sto-3g",
                                                  frozen_orbitals=copy.deepcopy(s["frozen"]), uhf=s["uhf"])
    return _MOLS[name]


@contextlib.contextmanager
def quiet():
    with contextlib.redirect_stdout(io.StringIO()):
        yield


# ------------------------------------------------------------------------------------------------ simulation helpers

def recs(circ):
    """Tangelo circuit -> gate records (Gate subclasses dict, so refsim.fields would mis-read a Gate object)."""
    out = []
    for g in circ:
        p = g.parameter
        if isinstance(p, str):
            if p != "":
                raise Fail(f"gate {g.name} on {g.target} still carries the symbolic parameter {p!r} after build/update",
                           sig="symbolic-parameter-left")
            p = None
        if p is not None and np.iscomplexobj(p):
            if complex(p).imag != 0.0:
                raise Fail(f"gate {g.name} on {g.target} carries the complex parameter {p!r}", sig="complex-gate-parameter")
            p = complex(p).real
        out.append({"n": g.name, "t": [int(t) for t in g.target], "c": [int(c) for c in g.control] if g.control else None,
                    "p": None if p is None else float(p)})
    return out


def state_of(circ, n):
    return R.run(recs(circ), n)


def fidelity(a, b):
    return float(abs(np.vdot(a, b)) ** 2)


def jw_reference_index(n_qubits, n_alpha, n_beta, utd):
    bits = [0] * n_qubits
    for i in range(n_alpha):
        bits[i if utd else 2 * i] = 1
    for i in range(n_beta):
        bits[n_qubits // 2 + i if utd else 2 * i + 1] = 1
    x = 0
    for b in bits:
        x = (x << 1) | b
    return x



# ------------------------------------------------------------------------------------------------ configurations

def _adapt_pool(cfg):
    """Pool operators exactly as ADAPTSolver.build prepares them (UCCGSD pool, mapped, coefficients cast to +-1)."""
    key = ("pool", cfg["mol"], cfg["map"], cfg["utd"])
    if key not in _MOLS:
        from tangelo.toolboxes.ansatz_generator._general_unitary_cc import uccgsd_generator, get_singles_number, get_doubles_number
        from tangelo.toolboxes.qubit_mappings.mapping_transform import fermion_to_qubit_mapping
        m = mol(cfg["mol"])
        n = m.n_active_sos
        ferm = uccgsd_generator(n, single_coeffs=np.ones(get_singles_number(n // 2)), double_coeffs=np.ones(get_doubles_number(n // 2)))
        ops = [fermion_to_qubit_mapping(fermion_operator=f, mapping=cfg["map"], n_spinorbitals=n, n_electrons=m.n_active_electrons,
                                        up_then_down=cfg["utd"], spin=m.active_spin) for f in ferm]
        for q in ops:
            for term, coeff in q.terms.items():
                q.terms[term] = math.copysign(1., coeff.imag)
        _MOLS[key] = ops
    return _MOLS[key]


def make(cfg, adapt_ops=()):
    """Fresh ansatz object for a configuration (plain data). `adapt_ops` = pool indices already added (ADAPT only)."""
    from tangelo.toolboxes import ansatz_generator as AG
    a = cfg["a"]
    with quiet():
        if a == "UCCSD":
            return AG.UCCSD(mol(cfg["mol"]), mapping=cfg["map"], up_then_down=cfg["utd"])
        if a == "RUCC":
            return AG.RUCC(cfg["n"])
        if a == "UpCCGSD":
            return AG.UpCCGSD(mol(cfg["mol"]), mapping=cfg["map"], up_then_down=cfg["utd"], k=cfg["k"])
        if a == "UCCGD":
            return AG.UCCGD(mol(cfg["mol"]), mapping=cfg["map"], up_then_down=cfg["utd"])
        if a == "HEA":
            if cfg.get("mol"):
                return AG.HEA(molecule=mol(cfg["mol"]), mapping=cfg["map"], up_then_down=cfg["utd"], n_layers=cfg["layers"],
                              rot_type=cfg["rot"], reference_state=cfg["ref"])
            return AG.HEA(n_qubits=cfg["nq"], n_electrons=cfg["ne"], mapping="jw", up_then_down=cfg["utd"], n_layers=cfg["layers"],
                          rot_type=cfg["rot"], reference_state=cfg["ref"], spin=0)
        if a == "QMF":
            return AG.QMF(mol(cfg["mol"]), mapping=cfg["map"], up_then_down=cfg["utd"], init_qmf=copy.deepcopy(cfg.get("init")))
        if a == "QCC":
            return AG.QCC(mol(cfg["mol"]), mapping=cfg["map"], up_then_down=cfg["utd"], max_qcc_gens=cfg.get("max"))
        if a == "ILC":
            return AG.ILC(mol(cfg["mol"]), mapping=cfg["map"], up_then_down=cfg["utd"], max_ilc_gens=cfg.get("max"))
        if a == "pUCCD":
            return AG.pUCCD(mol(cfg["mol"]))
        if a == "VSQS":
            nav = S.build_qubit_op(cfg["nav"]) if cfg.get("nav") else None
            if cfg.get("mol"):
                return AG.VSQS(mol(cfg["mol"]), mapping=cfg["map"], up_then_down=cfg["utd"], intervals=cfg["iv"], time=cfg["time"],
                               trotter_order=cfg["order"], h_nav=nav)
            from tangelo.linq import Circuit, Gate
            ref = Circuit([Gate("X", q) for q in cfg["refx"]], n_qubits=cfg["nq"])
            return AG.VSQS(qubit_hamiltonian=S.build_qubit_op(cfg["ham"]), h_init=S.build_qubit_op(cfg["hinit"]), reference_state=ref,
                           intervals=cfg["iv"], time=cfg["time"], trotter_order=cfg["order"], h_nav=nav)
        if a == "ADAPT":
            m = mol(cfg["mol"])
            pool = _adapt_pool(cfg)
            ops = [copy.deepcopy(pool[i % len(pool)]) for i in adapt_ops]
            return AG.ADAPTAnsatz(m.n_active_sos, m.n_active_electrons, m.active_spin,
                                  {"mapping": cfg["map"], "up_then_down": cfg["utd"], "operators": ops})
        if a == "VarCirc":
            return AG.VariationalCircuitAnsatz(S.build_circuit(cfg["circ"]))
    raise KeyError(a)


# keywords of set_var_params exercised through build_circuit(<keyword>); None = build_circuit() default. Only keywords whose
# evaluation is cheap and does not need anything outside the ansatz (UCCSD's "mp2" runs a solver: not part of this property).
KEYWORDS = {"UCCSD": ["ones", "random"], "RUCC": [None, "ones", "zeros", "random"], "UpCCGSD": [None, "ones", "random"],
            "UCCGD": [None, "ones", "random"], "HEA": [None, "ones", "zeros", "random"],
            "QMF": [None, "vacuum", "half_pi", "minus_half_pi", "full_pi", "random", "hf_state"],
            "QCC": [None, "qmf_state", "qcc_tau_guess", "random"], "ILC": ["qmf_state", "ilc_tau_guess", "random"],
            "VSQS": [None], "pUCCD": [None, "ones", "random"], "ADAPT": [None], "VarCirc": [None, "ones", "zeros", "random"]}


def family_configs(fam, tier):
    """Explicit configuration lists (plain data). Every entry constructs on the pinned tree (checked when the module was written)."""
    q = tier == "quick"
    maps = ["jw", "bk", "scbk", "jkmn"]
    out = []
    if fam == "UCCSD":
        for m in ["H2", "H3", "LiH", "H4", "H4uhf"]:
            for mp in (maps if m != "H4uhf" else ["jw", "bk", "jkmn"]):
                for utd in (False, True):
                    out.append({"a": "UCCSD", "mol": m, "map": mp, "utd": utd})
        out.append({"a": "UCCSD", "mol": "H2", "map": "JW", "utd": False})
    elif fam == "RUCC":
        out = [{"a": "RUCC", "n": 1}, {"a": "RUCC", "n": 3}]
    elif fam == "UpCCGSD":
        for m in ["H2", "H3", "LiH", "H4"]:
            for k in (1, 2, 3, 4):
                if m == "H4" and k == 4 and q:
                    continue
                for mp in (["jw", "bk", "jkmn"] + (["scbk"] if m in ("H2", "LiH", "H4") else [])):
                    for utd in (False, True):
                        out.append({"a": "UpCCGSD", "mol": m, "map": mp, "utd": utd, "k": k})
    elif fam == "UCCGD":
        for m in (["H2", "H3", "LiH"] + ([] if q else ["H4"])):
            for mp in (["jw", "bk", "jkmn"] + (["scbk"] if m != "H3" else [])):
                for utd in (False, True):
                    out.append({"a": "UCCGD", "mol": m, "map": mp, "utd": utd})
    elif fam == "HEA":
        for m in ["H2", "H3", "LiH"]:
            for mp in ["jw", "bk", "scbk"]:
                for layers in (1, 2, 3):
                    for rot in ("euler", "real"):
                        out.append({"a": "HEA", "mol": m, "map": mp, "utd": layers % 2 == 0, "layers": layers, "rot": rot,
                                    "ref": "HF" if rot == "euler" or layers != 2 else "zero"})
        for nq, ne in ((2, 2), (4, 2), (5, 0), (6, 4)):
            out.append({"a": "HEA", "mol": None, "nq": nq, "ne": ne, "utd": False, "layers": 2, "rot": "real", "ref": "HF" if ne else "zero"})
    elif fam in ("QMF", "QCC", "ILC"):
        for m in (["H2", "H3", "LiH"] + ([] if q or fam == "QMF" else ["H4"])):
            for mp in maps:
                for utd in (False, True):
                    c = {"a": fam, "mol": m, "map": mp, "utd": utd}
                    out.append(c)
                    if fam == "QMF" and mp == "jw":
                        out.append(dict(c, init={"init_params": "vacuum"}))
                    if fam in ("QCC", "ILC") and mp == "jw" and m != "H2":
                        out.append(dict(c, max=2))
    elif fam == "pUCCD":
        out = [{"a": "pUCCD", "mol": m} for m in ("H2", "LiH", "H4")]
    elif fam == "ADAPT":
        for m in ["H2", "H3", "LiH", "H4"]:
            for mp in ["jw", "bk", "jkmn"] + (["scbk"] if m != "H4" else []):
                for utd in (False, True):
                    out.append({"a": "ADAPT", "mol": m, "map": mp, "utd": utd})
    return out


def n_params_vsqs(cfg):
    return (cfg["iv"] - 1) * (3 if cfg.get("nav") else 2)


# ------------------------------------------------------------------------------------------------ theta recipes

def expand(rec, n, prev):
    """Length-agnostic recipe -> explicit list of n floats (n is the number of parameters the ansatz advertises)."""
    if n <= 0:
        return []
    k = rec["k"]
    if k == "zeros":
        return [0.0] * n
    base = [float(x) for x in rec["base"]]
    if k == "prev" and prev is not None and len(prev) == n:
        th = [float(x) for x in prev]
        for j in rec.get("set", []):
            th[j % n] = base[j % len(base)]
        for j in rec.get("flip", []):
            th[j % n] = -th[j % n]
    else:
        # exact zeros stay exact zeros; a non-zero drift makes every entry distinct (periodic vectors would hide offset errors)
        drift = float(rec.get("drift", 0.0))
        th = [base[i % len(base)] + (drift * i if base[i % len(base)] != 0.0 else 0.0) for i in range(n)]
    for j in rec.get("zero", []):
        th[j % n] = 0.0
    return th


def values():
    two_pi = 2 * math.pi
    plain = st.floats(-math.pi, math.pi, allow_nan=False)
    return st.one_of(
        plain, plain, plain,
        st.tuples(st.floats(0.05, 3.0), st.integers(1, 3), st.sampled_from([-1.0, 1.0])).map(lambda t: t[2] * (t[0] + two_pi * t[1])),
        st.sampled_from([0.0, 0.0, 1e-9, -1e-9, 1e-7, -1e-5, 0.1, -0.1, 0.5, 1.0, -1.0]),
        st.integers(-8, 8).map(lambda j: j * math.pi / 2),
    )


@st.composite
def recipes(draw):
    """Explicit selector integers give the intended weights (one_of over repeated strategies does not)."""
    idx = st.integers(0, 63)
    sel = draw(st.integers(0, 9))
    if sel == 0:
        return {"k": "zeros"}
    base = draw(st.lists(values(), min_size=1, max_size=6))
    few = draw(st.lists(idx, max_size=3)) if draw(st.integers(0, 2)) == 0 else []
    if sel <= 5:
        return {"k": "cycle", "base": base, "drift": draw(st.sampled_from([0.0, 0.013, -0.07, 0.211, 0.5])), "zero": few}
    if sel <= 7:     # previous vector with some entries zeroed / re-set (support change on purpose)
        return {"k": "prev", "base": base, "zero": draw(st.lists(idx, min_size=1, max_size=3)), "flip": draw(st.lists(idx, max_size=2)),
                "set": draw(st.lists(idx, max_size=3))}
    return {"k": "prev", "base": base, "zero": [], "flip": draw(st.lists(idx, min_size=1, max_size=3)), "set": draw(st.lists(idx, max_size=3))}
