"""Helpers for C08 / C13: a small plain-data molecule generator with a per-process molecule cache, variational
parameter vectors as plain data, circuit -> gate-record conversion, and the symmetry operators N, Sz, S^2 written
from their definitions (not taken from tangelo.toolboxes.ansatz_generator.fermionic_operators).

Molecule case (plain JSON-able data; same field names as vlib/h_mol.py):
    {"family": "H4-ring", "atoms": [["H", [x, y, z]], ...], "q": 0, "spin": 0, "basis": "sto-3g", "uhf": False,
     "frozen": None | int | [i, ...] | [[alpha i ...], [beta i ...]]}        (per-spin lists only with uhf=True)
"""
import math
from collections import OrderedDict

import numpy as np
from hypothesis import strategies as st

from . import recorder as REC

# ---------------------------------------------------------------------------------------------- base geometries

S3 = math.sqrt(3.0) / 2
BASES = {
    # family: (atoms (angstrom), basis list, admissible (charge, spin) pairs)
    "H2": ([["H", [0, 0, 0]], ["H", [0, 0, 0.74]]], ["sto-3g", "6-31g"], [(0, 0), (0, 2), (1, 1), (-1, 1)]),
    "H3": ([["H", [0, 0, 0]], ["H", [0, 0, 0.95]], ["H", [0, 0.9 * S3, 0.45]]], ["sto-3g"],
           [(0, 1), (1, 0), (-1, 0), (-1, 2), (1, 2)]),
    "H4-chain": ([["H", [0, 0, 0.9 * k]] for k in range(4)], ["sto-3g"], [(0, 0), (0, 2), (1, 1), (-1, 1), (2, 0), (1, 3)]),
    "H4-ring": ([["H", [0.65, 0.65, 0]], ["H", [-0.65, 0.65, 0]], ["H", [-0.65, -0.65, 0]], ["H", [0.65, -0.65, 0]]],
                ["sto-3g"], [(0, 0), (0, 2), (1, 1), (-1, 1), (2, 0)]),
    "H4-rand": ([["H", [0, 0, 0]], ["H", [0, 0.1, 0.9]], ["H", [0.8, 0.2, 0.3]], ["H", [1.5, 1.0, -0.2]]],
                ["sto-3g"], [(0, 0), (0, 2), (1, 1), (-1, 1), (2, 0), (1, 3)]),
    "LiH": ([["Li", [0, 0, 0]], ["H", [0, 0, 1.6]]], ["sto-3g"], [(0, 0), (1, 1), (0, 2)]),
    "H2O": ([["O", [0, 0, 0.12]], ["H", [0, 0.76, -0.47]], ["H", [0, -0.76, -0.47]]], ["sto-3g"], [(0, 0), (1, 1), (0, 2)]),
}
ZNUC = {"H": 1, "Li": 3, "O": 8}
NAO = {"sto-3g": {"H": 1, "Li": 5, "O": 5}, "6-31g": {"H": 2, "Li": 9, "O": 9}}


def n_mos_of(atoms, basis):
    return sum(NAO[basis][a] for a, _ in atoms)


def n_elec_of(atoms, q):
    return sum(ZNUC[a] for a, _ in atoms) - q


def static_occ(case):
    """(n_mos, n_alpha, n_beta) of the whole molecule (aufbau: the n lowest orbitals of each spin are occupied)."""
    ne = n_elec_of(case["atoms"], case["q"])
    na, nb = (ne + case["spin"]) // 2, (ne - case["spin"]) // 2
    return n_mos_of(case["atoms"], case["basis"]), na, nb


def _admissible(kind, atoms, p):
    q, s = p
    # One-electron systems are left out: PySCF returns its HF1e object without stored two-electron integrals
    # (mean_field._eri is None), which Tangelo's UHF integral code and FCISolver.simulate cannot handle (AttributeError);
    # that is outside the properties checked with this generator (recorded as an observation in the C08/C13 reports).
    if n_elec_of(atoms, q) <= 1:
        return False
    if kind == "rhf":
        return s == 0
    if kind == "rohf":
        return s > 0
    return True


@st.composite
def molecules(draw, families=None, min_active=2, max_active=4, refs=("rhf", "rohf", "uhf"), frozen_prob=0.6, max_mos=7):
    """Molecule cases with min_active <= active MOs (per spin) <= max_active.  refs restricts the reference kinds:
    'rhf' (spin 0 restricted), 'rohf' (spin > 0 restricted), 'uhf'."""
    # (order: the first entry is what Hypothesis tries first in every search; keep it an informative one)
    pref = ["H3", "H4-ring", "H2", "H4-chain", "LiH", "H4-rand", "H2O"]
    fams = [f for f in pref if f in (families or pref) and n_mos_of(BASES[f][0], BASES[f][1][0]) <= max_mos]
    fam = draw(st.sampled_from(fams))
    atoms0, bases, qs = BASES[fam]
    basis = draw(st.sampled_from(bases))
    if n_mos_of(atoms0, basis) > max_mos:
        basis = bases[0]
    # reference kind first (so that RHF / ROHF / UHF are equally frequent), then an admissible (charge, spin) pair
    kinds = [k for k in ("rhf", "rohf", "uhf") if k in refs and any(_admissible(k, atoms0, p) for p in qs)]
    kind = draw(st.sampled_from(kinds))
    q, spin = draw(st.sampled_from([p for p in qs if _admissible(kind, atoms0, p)]))
    uhf = kind == "uhf"
    # geometry: uniform bond scaling plus small per-coordinate displacements (rounded so that replay files stay readable)
    scale = draw(st.sampled_from([1.0, 1.0, 0.8, 1.25, 1.6]) | st.floats(0.75, 1.8).map(lambda x: round(x, 3)))
    wiggle = draw(st.booleans())
    atoms = []
    for a, xyz in atoms0:
        d = [draw(st.floats(-0.08, 0.08).map(lambda x: round(x, 3))) if wiggle else 0.0 for _ in range(3)]
        atoms.append([a, [round(scale * c + e, 4) for c, e in zip(xyz, d)]])
    case = {"family": fam, "atoms": atoms, "q": q, "spin": spin, "basis": basis, "uhf": uhf, "frozen": None}
    n_mos, na, nb = static_occ(case)

    def pick_active(docc, socc, virt):
        """Active index set of one (restricted or single-spin) reference, admissible by construction: contains every
        half-filled MO, at least one occupied MO and at least one MO that is not full."""
        must = list(socc)
        if not socc:
            if docc:
                must.append(draw(st.sampled_from(docc)))
            if virt:
                must.append(draw(st.sampled_from(virt)))
        lo = max(min_active, len(must), 1)
        hi = max(min(max_active, n_mos), lo)
        n_true = max(0, min(4, round(4 * frozen_prob)))
        if n_mos > hi or draw(st.sampled_from([False] * (4 - n_true) + [True] * n_true)):
            k = draw(st.integers(lo, hi))
        else:
            k = hi
        others = [i for i in range(n_mos) if i not in must]
        perm = list(draw(st.permutations(others))) if others else []
        return sorted(must + perm[: max(0, k - len(must))])

    def spell(fr_sets):
        """frozen specification in one of the documented spellings: None / int (first n) / list / per-spin lists"""
        if all(not f for f in fr_sets):
            return draw(st.sampled_from([None, 0]))
        if all(f == fr_sets[0] for f in fr_sets) and fr_sets[0] == list(range(len(fr_sets[0]))) and draw(st.booleans()):
            return len(fr_sets[0])
        lists = [list(draw(st.permutations(f))) if f else [] for f in fr_sets]      # order of a list must not matter
        return lists if uhf else lists[0]

    if not uhf:
        act = pick_active(list(range(nb)), list(range(nb, na)), list(range(na, n_mos)))
        case["frozen"] = spell([[i for i in range(n_mos) if i not in act]])
    else:
        act_a = pick_active(list(range(na)), [], list(range(na, n_mos)))
        if draw(st.integers(0, 2)) > 0:
            act_b = act_a                                  # mostly the same list for both spins
        else:
            act_b = pick_active(list(range(nb)), [], list(range(nb, n_mos)))
        ne_act = sum(1 for i in act_a if i < na) + sum(1 for i in act_b if i < nb)
        if ne_act == 0 or ne_act == len(act_a) + len(act_b):
            act_a = act_b = list(range(n_mos)) if n_mos <= max_active else sorted({max(na - 1, 0), min(na, n_mos - 1)})
        case["frozen"] = spell([[i for i in range(n_mos) if i not in act_a], [i for i in range(n_mos) if i not in act_b]])
    return case


def frozen_lists(case):
    """(frozen alpha, frozen beta) index sets named by the case."""
    n_mos, _, _ = static_occ(case)
    fr = case["frozen"]
    if fr is None:
        fr = 0
    if isinstance(fr, int):
        return set(range(fr)), set(range(fr))
    if case["uhf"]:
        return set(fr[0]), set(fr[1])
    return set(fr), set(fr)


def active_info(case):
    """Expected active-space data computed from the case alone (aufbau occupations):
    dict(act_a, act_b, na, nb, n_sos, occ_pos_a, occ_pos_b) -- occ_pos_* = positions of the occupied orbitals within
    Tangelo's active register order (occupied first, then virtual)."""
    n_mos, na, nb = static_occ(case)
    fa, fb = frozen_lists(case)
    act_a = [i for i in range(n_mos) if i not in fa]
    act_b = [i for i in range(n_mos) if i not in fb]
    if not case["uhf"]:
        # restricted register: occupied (mo_occ > 0) first, then virtual
        order = [i for i in act_a if i < na] + [i for i in act_a if i >= na]
        pos_a = [k for k, i in enumerate(order) if i < na]
        pos_b = [k for k, i in enumerate(order) if i < nb]
        return {"act_a": order, "act_b": order, "na": len(pos_a), "nb": len(pos_b), "n_sos": 2 * len(order),
                "occ_pos_a": pos_a, "occ_pos_b": pos_b}
    oa = [i for i in act_a if i < na] + [i for i in act_a if i >= na]
    ob = [i for i in act_b if i < nb] + [i for i in act_b if i >= nb]
    pos_a = [k for k, i in enumerate(oa) if i < na]
    pos_b = [k for k, i in enumerate(ob) if i < nb]
    return {"act_a": oa, "act_b": ob, "na": len(pos_a), "nb": len(pos_b), "n_sos": 2 * max(len(oa), len(ob)),
            "occ_pos_a": pos_a, "occ_pos_b": pos_b}


# ---------------------------------------------------------------------------------------------- molecule cache

_MOL_CACHE = OrderedDict()
_MOL_CACHE_MAX = 48


def scf_key(case):
    return REC.fingerprint({k: case[k] for k in ("atoms", "q", "spin", "basis", "uhf")})


def get_molecule(case, rec=None, fresh=False):
    """SecondQuantizedMolecule for the case. The mean field (SCF) is computed once per process and geometry/charge/
    spin/basis/reference and re-used; the frozen-orbital choice is applied with freeze_mos(..., inplace=False), which is
    what SecondQuantizedMolecule.__post_init__ does with its frozen_orbitals argument.  Raises vlib.runner.Skip for
    the documented refusals of a frozen-orbital list."""
    from tangelo import SecondQuantizedMolecule
    from .runner import Skip
    key = scf_key(case)
    base = None if fresh else _MOL_CACHE.get(key)     # fresh=True: private mean field (the caller is going to change mo_coeff)
    if base is None:
        xyz = [(a, tuple(float(c) for c in p)) for a, p in case["atoms"]]
        try:
            base = SecondQuantizedMolecule(xyz, q=case["q"], spin=case["spin"], basis=case["basis"], uhf=case["uhf"],
                                           frozen_orbitals=None)
        except ValueError as e:
            if "did not converge" not in str(e):
                raise
            base = "scf-not-converged"
        if not fresh:
            _MOL_CACHE[key] = base
        while len(_MOL_CACHE) > _MOL_CACHE_MAX:
            _MOL_CACHE.popitem(last=False)
        if rec is not None:
            rec.count("scf_computed")
    else:
        _MOL_CACHE.move_to_end(key)
        if rec is not None:
            rec.count("scf_cache_hit")
    if isinstance(base, str):
        raise Skip("Hartree-Fock calculation did not converge")
    fr = case["frozen"]
    if isinstance(fr, list):
        fr = [list(x) for x in fr] if case["uhf"] else list(fr)
    try:
        return base.freeze_mos(fr, inplace=False)
    except ValueError as e:
        if "no active electrons" in str(e) or "fully occupied" in str(e):
            raise Skip("frozen list leaves no active electron / hole")
        raise
    except NotImplementedError as e:
        if "half-filled" in str(e):
            raise Skip("freezing half-filled orbitals (ROHF) not implemented")
        raise


def aufbau_ok(mol, case):
    """True when the SCF occupations are the aufbau pattern the generator assumed (lowest orbitals occupied)."""
    n_mos, na, nb = static_occ(case)
    if case["uhf"]:
        ea = [1.0 if i < na else 0.0 for i in range(n_mos)]
        eb = [1.0 if i < nb else 0.0 for i in range(n_mos)]
        return list(np.asarray(mol.mo_occ[0], float)) == ea and list(np.asarray(mol.mo_occ[1], float)) == eb
    exp = [2.0 if i < nb else (1.0 if i < na else 0.0) for i in range(n_mos)]
    return list(np.asarray(mol.mo_occ, float)) == exp


# ---------------------------------------------------------------------------------------------- parameter vectors

@st.composite
def theta_specs(draw, allow_zero_vector=True):
    """Plain-data recipe of a parameter vector of yet unknown length n:
       {"mode": "cycle", "vals": [...]}      theta_i = vals[i % len(vals)]
       {"mode": "one", "k": k, "v": v}       all zero except theta_{k % n} = v
       {"mode": "zeros"}"""
    m = draw(st.integers(0, 9))
    ang = st.one_of(st.sampled_from([0.7, -0.3, 0.0, math.pi / 2, -math.pi / 2, math.pi, math.pi / 4, 2 * math.pi, 1e-3, 0.0, 4.1, -7.9]),
                    st.floats(-math.pi, math.pi).map(lambda x: round(x, 6)))
    if m == 9 and allow_zero_vector:
        return {"mode": "zeros"}
    if m >= 7:
        return {"mode": "one", "k": draw(st.integers(0, 63)), "v": draw(ang.filter(lambda x: x != 0.0))}
    vals = draw(st.lists(ang, min_size=1, max_size=7))
    if all(v == 0.0 for v in vals) and not allow_zero_vector:
        vals[0] = 0.37
    return {"mode": "cycle", "vals": vals}


def theta_vector(spec, n):
    if spec["mode"] == "zeros":
        return [0.0] * n
    if spec["mode"] == "one":
        v = [0.0] * n
        if n:
            v[spec["k"] % n] = float(spec["v"])
        return v
    vals = spec["vals"]
    return [float(vals[i % len(vals)]) for i in range(n)]


# ---------------------------------------------------------------------------------------------- circuits and states

def gate_recs(circuit):
    """Tangelo Circuit (or iterable of Gate) -> list of refsim gate records. Gate is a dict subclass, so the records are
    built explicitly."""
    out = []
    for g in circuit:
        p = g.parameter
        out.append({"n": g.name, "t": [int(t) for t in g.target], "c": [int(c) for c in g.control] if g.control else None,
                    "p": None if (isinstance(p, str) and p == "") else p})
    return out


def run_circuits(circuits, n=None):
    """State prepared by the concatenation of Tangelo circuits, on n qubits (default: the largest width)."""
    from . import refsim as R
    recs, w = [], 0
    for c in circuits:
        if c is None:
            continue
        recs += gate_recs(c)
        w = max(w, c.width)
    n = max(n or 0, w, 1)
    return R.run(recs, n), n


def op_n_qubits(terms):
    return 1 + max((q for t in terms for q, _ in t), default=-1)


def expectation(terms, psi, n):
    """<psi|O|psi> for a QubitOperator term dict; dense matrix for n <= 8, term by term above."""
    from . import refsim as R
    if n <= 8:
        M = R.qop_matrix(terms, n)
        return complex(np.vdot(psi, M @ psi)), M
    return complex(R.qop_expectation(terms, psi, n)), None


def lambda_min(terms):
    from . import refsim as R
    k = max(op_n_qubits(terms), 1)
    M = R.qop_matrix(terms, k)
    herm = float(np.max(np.abs(M - M.conj().T)))
    w = np.linalg.eigvalsh((M + M.conj().T) / 2)
    return float(w[0]), herm


def is_basis_state(psi, tol=1e-9):
    return int(np.sum(np.abs(psi) > tol)) <= 1


# ---------------------------------------------------------------------------------------------- N, Sz, S^2 from definitions

def sym_fermion_terms(which, n_orb):
    """Term dictionary {((mode, dag), ...): coeff} of N, Sz or S^2 on n_orb spatial orbitals in the interleaved
    convention (mode 2i = orbital i alpha, 2i+1 = orbital i beta), straight from the definitions:
        N = sum_p a+_p a_p;  Sz = 1/2 sum_i (n_ia - n_ib);  S+ = sum_i a+_ia a_ib;  S^2 = S- S+ + Sz^2 + Sz."""
    a = lambda i: 2 * i
    b = lambda i: 2 * i + 1
    out = {}

    def add(term, c):
        out[term] = out.get(term, 0.0) + c
    if which == "N":
        for p in range(2 * n_orb):
            add(((p, 1), (p, 0)), 1.0)
        return out
    sz = [(((a(i), 1), (a(i), 0)), 0.5) for i in range(n_orb)] + [(((b(i), 1), (b(i), 0)), -0.5) for i in range(n_orb)]
    if which == "Sz":
        for t, c in sz:
            add(t, c)
        return out
    assert which == "S^2"
    for t, c in sz:
        add(t, c)
    for t1, c1 in sz:
        for t2, c2 in sz:
            add(t1 + t2, c1 * c2)
    for i in range(n_orb):          # S- = sum_i a+_ib a_ia ; S+ = sum_j a+_ja a_jb
        for j in range(n_orb):
            add(((b(i), 1), (a(i), 0), (a(j), 1), (b(j), 0)), 1.0)
    return out


def determinant_sym_values(pos_a, pos_b):
    """<N>, <Sz>, <S^2> of the determinant with alpha orbitals pos_a and beta orbitals pos_b occupied:
    <S^2> = Sz^2 + Sz + n_beta - |A & B|   (from S^2 = S-S+ + Sz^2 + Sz and <S-S+> = n_beta - |A & B|)."""
    na, nb = len(pos_a), len(pos_b)
    sz = (na - nb) / 2
    return {"N": float(na + nb), "Sz": sz, "S^2": sz * sz + sz + nb - len(set(pos_a) & set(pos_b))}


def selftest():
    from . import refops as O
    # the term dictionaries reproduce the matrices of vlib.refops (written independently from ladder matrices)
    for n_orb in (1, 2, 3):
        m = 2 * n_orb
        assert np.allclose(O.fermion_matrix(sym_fermion_terms("N", n_orb), m), O.number_op(m).toarray())
        assert np.allclose(O.fermion_matrix(sym_fermion_terms("Sz", n_orb), m), O.sz_op(m).toarray())
        assert np.allclose(O.fermion_matrix(sym_fermion_terms("S^2", n_orb), m), O.s2_op(m).toarray())
    # determinant formula against the matrices
    m = 6
    S2 = O.s2_op(m).toarray()
    for pa, pb in (([0, 1], [0]), ([0], [1, 2]), ([0, 2], [0, 2]), ([1], [])):
        bits = [0] * m
        for i in pa:
            bits[2 * i] = 1
        for i in pb:
            bits[2 * i + 1] = 1
        v = np.zeros(2 ** m); v[O.index_of(bits)] = 1
        assert abs(v @ S2 @ v - determinant_sym_values(pa, pb)["S^2"]) < 1e-12
    assert theta_vector({"mode": "one", "k": 5, "v": 0.5}, 3) == [0.0, 0.0, 0.5]
