"""C10 helpers: branch-enumerating reference interpreter for circuits with MEASURE / CMEASURE gates, the family of
classical-control programs used by the generated cases, Hypothesis strategies and Tangelo object builders.

Written from the definitions (Born rule: outcome r on qubit q has probability ||P_r psi||^2, the state becomes
P_r psi / ||P_r psi||; a measurement-controlled gate inserts, right after the measurement, the gate list selected by
the outcome; inserted lists may contain further measurements).  Nothing here calls Tangelo's simulators.

Gate records (plain data, see vlib/strategies.py) extended by
    {"n": "MEASURE",  "t": [q], "c": None, "p": None}
    {"n": "CMEASURE", "t": [q], "c": None, "p": None, "d": {"0": [recs], "1": [recs]}}     dictionary control
    {"n": "CMEASURE", "t": [q], "c": None, "p": None}                                       control = the circuit's ctrl
Control programs (case["ctrl"], one per circuit, shared by every CMEASURE without a dictionary):
    {"kind": "func_table", "on": {"0": [recs], "1": [recs]}}             stateless function measurement -> gates
    {"kind": "func_rus", "fail": "0"|"1", "retry": [unitary recs], "q": qubit, "done": [recs]}
                                                                         stateless function: on `fail` return
                                                                         retry + [CMEASURE q] (repeat until success)
    {"kind": "class_hist", "table": {history: [recs]}}                   ClassicalControl subclass with state: the
                                                                         string of outcomes it was called with in the
                                                                         current shot selects the gates ([] if absent);
                                                                         finalize() logs the history and resets it
"""
import numpy as np
from hypothesis import strategies as st

from . import refsim as R, strategies as S

MEAS = ("MEASURE", "CMEASURE")
P_ALIVE = 1e-9     # conditional outcome probability above which every claim is checked
P_DEAD = 1e-30     # conditional outcome probability below which the outcome counts as impossible (norm < 1e-15)


# ------------------------------------------------------------------------------------------- control programs (pure)

def ctrl_step(ctrl, hist, m):
    """Pure model of one call of the classical control: (gates to insert, new control state)."""
    k = ctrl["kind"]
    if k == "func_table":
        return list(ctrl["on"][m]), hist
    if k == "func_rus":
        if m == ctrl["fail"]:
            return list(ctrl["retry"]) + [{"n": "CMEASURE", "t": [ctrl["q"]], "c": None, "p": None}], hist
        return list(ctrl["done"]), hist
    if k == "class_hist":
        h = hist + m
        return list(ctrl["table"].get(h, [])), h
    raise KeyError(k)


def inserted(g, ctrl, hist, m):
    if g["n"] == "MEASURE":
        return [], hist
    if g.get("d") is not None:
        return list(g["d"][m]), hist
    return ctrl_step(ctrl, hist, m)


# ------------------------------------------------------------------------------------------- the interpreter

def project(psi, q, r, n):
    """Zero every amplitude whose bit q differs from r (no renormalisation). Returns (vector, squared norm)."""
    t = psi.reshape([2] * n).copy()
    idx = [slice(None)] * n
    idx[q] = 1 - r
    t[tuple(idx)] = 0
    v = t.reshape(-1)
    return v, float(np.vdot(v, v).real)


def walk(case, n, init=None, script=None, cap_meas=10, max_leaves=100000, quantum=True):
    """Enumerate (script=None) or follow (script = outcome string) the measurement branches of a case.

    Returns a list of leaves: dicts with
      b        outcome string so far, in order of occurrence
      p        joint probability of b (product of conditional Born probabilities)
      psi      normalised state at the end of the branch (None unless status == "alive")
      applied  execution trace: records of the gates executed, measurements carrying their outcome in "p"
      hist     final state of the control program (class_hist: outcomes it was called with)
      status   "alive"  branch ran to the end of the program
               "dead"   the last outcome in b has conditional probability < P_DEAD
               "fuzzy"  the last outcome in b has conditional probability in [P_DEAD, P_ALIVE)  (no claims made)
               "trunc"  enumeration cut at cap_meas measurements / script exhausted before the program ended
      nontrivial  some measurement on the path had both outcomes possible and either a later gate touched the measured
                  qubit or the two outcomes select different gate lists
    With a script, thresholds are not applied (the branch is followed whatever its probability) and exactly one leaf is
    returned; status is "alive", "trunc" or "dead" (exactly zero norm).
    """
    ctrl = case.get("ctrl")
    psi0 = None
    if quantum:
        psi0 = R.zero_state(n) if init is None else np.asarray(init, dtype=complex).copy()
    leaves = []

    def leaf(b, p, psi, applied, hist, status, events):
        if len(leaves) >= max_leaves:
            raise OverflowError("too many branches")
        nt = False
        for pos, q, both, distinct in events:
            if not both:
                continue
            if distinct or any(g["n"] not in MEAS and q in (g["t"] + (g.get("c") or [])) for g in applied[pos + 1:]):
                nt = True
        vec = None
        if status == "alive" and quantum:
            vec = psi / np.sqrt(p) if p > 0 else None
        leaves.append({"b": b, "p": p, "psi": vec, "applied": applied, "hist": hist, "status": status, "nontrivial": nt})

    def rec(todo, psi, p, b, applied, hist, events, pos_script):
        todo = list(todo)
        applied = list(applied)
        while todo:
            g = todo.pop(0)
            if g["n"] not in MEAS:
                if quantum:
                    psi = R.apply_gate(psi, g, n)
                applied.append(g)
                continue
            if (script is None and len(b) >= cap_meas) or (script is not None and pos_script >= len(script)):
                leaf(b, p, psi, applied, hist, "trunc", events)
                return
            q = g["t"][0]
            outs = []
            for r in "01":
                if quantum:
                    v, pr = project(psi, q, int(r), n)
                else:
                    v, pr = None, 1.0
                ins, h2 = inserted(g, ctrl, hist, r)
                outs.append((r, v, pr, ins, h2))
            cond = [o[2] / p if (quantum and p > 0) else 1.0 for o in outs]
            both = all(c > P_ALIVE for c in cond)
            distinct = g["n"] == "CMEASURE" and outs[0][3] != outs[1][3]
            ev = events + [(len(applied), q, both, distinct)]
            for (r, v, pr, ins, h2), c in zip(outs, cond):
                if script is not None and r != script[pos_script]:
                    continue
                app2 = applied + [{"n": g["n"], "t": [q], "c": None, "p": r}]
                if script is None and quantum:
                    if c < P_DEAD:
                        leaf(b + r, pr, None, app2, h2, "dead", ev)
                        continue
                    if c < P_ALIVE:
                        leaf(b + r, pr, None, app2, h2, "fuzzy", ev)
                        continue
                if script is not None and quantum and pr == 0.0:
                    leaf(b + r, 0.0, None, app2, h2, "dead", ev)
                    continue
                rec(ins + todo, v, pr if quantum else p, b + r, app2, h2, ev, pos_script + 1)
            return
        leaf(b, p, psi, applied, hist, "alive", events)

    rec(case["gates"], psi0, 1.0 if not quantum else float(np.vdot(psi0, psi0).real), "", [], "", [], 0)
    return leaves


def count_paths(case, cap_meas, max_leaves):
    """Number of syntactic outcome paths (no amplitudes), or None if above max_leaves."""
    try:
        return len(walk(case, 0, quantum=False, cap_meas=cap_meas, max_leaves=max_leaves))
    except OverflowError:
        return None


def follow(case, n, init, b):
    """Exact probability / state / trace of one outcome string (no thresholds)."""
    return walk(case, n, init, script=b)[0]


def mixture(leaves, n):
    """sum_b p_b |psi_b|^2 over alive leaves (vector of length 2**n) and the probability mass not covered."""
    d = np.zeros(2 ** n)
    mass = 0.0
    for l in leaves:
        if l["status"] == "alive":
            d += l["p"] * R.probs(l["psi"])
            mass += l["p"]
    return d, 1.0 - mass


def dephased_density_diag(gates, n, init=None):
    """Independent second opinion for MEASURE-only circuits: density-matrix evolution where a measurement is the
    channel rho -> P0 rho P0 + P1 rho P1.  Returns diag(rho_final)."""
    psi = R.zero_state(n) if init is None else np.asarray(init, dtype=complex)
    rho = np.outer(psi, psi.conj())
    for g in gates:
        if g["n"] == "MEASURE":
            q = g["t"][0]
            bit = np.array([(i >> (n - 1 - q)) & 1 for i in range(2 ** n)])
            same = (bit[:, None] == bit[None, :])
            rho = rho * same
        else:
            rho = R.apply_gate_density(rho, g, n)
    return np.real(np.diag(rho))


def same_gate(got, ref):
    """Tangelo Gate vs reference trace record: identical name (CNOT == CX), targets, controls, parameter."""
    nm = lambda s: "CX" if s == "CNOT" else s
    if nm(got.name) != nm(ref["n"]):
        return False
    if list(got.target) != list(ref["t"]):
        return False
    if (list(got.control) if got.control else []) != (list(ref["c"]) if ref.get("c") else []):
        return False
    gp = got.parameter
    rp = ref.get("p")
    if rp is None:
        return isinstance(gp, str) and gp == ""
    if isinstance(rp, str):
        return isinstance(gp, str) and gp == rp
    return isinstance(gp, (int, float)) and float(gp) == float(rp)


def trace_str(recs):
    out = []
    for g in recs:
        s = g["n"] + str(g["t"])
        if g.get("c"):
            s += "c" + str(g["c"])
        if g.get("p") is not None:
            s += f"({g['p']})"
        out.append(s)
    return " ".join(out)


def gates_str(gs):
    return " ".join(f"{g.name}{list(g.target)}" + (f"c{list(g.control)}" if g.control else "") +
                    (f"({g.parameter})" if not (isinstance(g.parameter, str) and g.parameter == "") else "") for g in gs)


# ------------------------------------------------------------------------------------------- Tangelo object builders

def build_gate(g):
    from tangelo.linq import Gate
    if g["n"] == "MEASURE":
        return Gate("MEASURE", g["t"][0])
    if g["n"] == "CMEASURE":
        if g.get("d") is not None:
            return Gate("CMEASURE", g["t"][0], parameter={k: [build_gate(x) for x in v] for k, v in g["d"].items()})
        return Gate("CMEASURE", g["t"][0])
    return S.build_gate(g)


def build_control(ctrl):
    """Returns the object handed to Circuit(cmeasure_control=...): a Python function or a ClassicalControl instance."""
    if ctrl is None:
        return None
    k = ctrl["kind"]
    if k == "func_table":
        on = ctrl["on"]

        def table_control(measurement):
            return [build_gate(g) for g in on[measurement]]
        return table_control
    if k == "func_rus":
        from tangelo.linq import Gate

        def rus_control(measurement):
            if measurement == ctrl["fail"]:
                return [build_gate(g) for g in ctrl["retry"]] + [Gate("CMEASURE", ctrl["q"])]
            return [build_gate(g) for g in ctrl["done"]]
        return rus_control
    if k == "class_hist":
        from tangelo.linq import ClassicalControl

        class HistoryControl(ClassicalControl):
            def __init__(self, table):
                self.table = table
                self.history = ""
                self.log = []          # one entry per finalize() call = per shot
                self.calls = 0

            def return_gates(self, measurement):
                self.calls += 1
                self.history += measurement
                return [build_gate(g) for g in self.table.get(self.history, [])]

            def finalize(self):
                self.log.append(self.history)
                self.history = ""
        return HistoryControl(ctrl["table"])
    raise KeyError(k)


def build_circuit(case):
    from tangelo.linq import Circuit
    return Circuit([build_gate(g) for g in case["gates"]], n_qubits=case.get("nq"), cmeasure_control=build_control(case.get("ctrl")))


def all_recs(case):
    """Every gate record of a case, nested ones included."""
    out = []

    def go(lst):
        for g in lst:
            out.append(g)
            if g.get("d") is not None:
                go(g["d"]["0"]); go(g["d"]["1"])
    go(case["gates"])
    c = case.get("ctrl")
    if c:
        if c["kind"] == "func_table":
            go(c["on"]["0"]); go(c["on"]["1"])
        elif c["kind"] == "func_rus":
            go(c["retry"]); go(c["done"])
        else:
            for v in c["table"].values():
                go(v)
    return out


def width_of(case):
    used = 1 + max([max(g["t"] + (g.get("c") or [])) for g in all_recs(case)], default=-1)
    if case.get("ctrl") and case["ctrl"]["kind"] == "func_rus":
        used = max(used, case["ctrl"]["q"] + 1)
    return max(used, case.get("nq") or 0, 1)


def dict_depth(lst):
    d = 0
    for g in lst:
        if g.get("d") is not None:
            d = max(d, 1 + max(dict_depth(g["d"]["0"]), dict_depth(g["d"]["1"])))
    return d


# ------------------------------------------------------------------------------------------- strategies

def _meas(q):
    return {"n": "MEASURE", "t": [q], "c": None, "p": None}


MIX_NAMES = S.ALL_GATES + ["H", "H", "RX", "RY", "RY", "CRY", "CH", "XX"]     # bias towards gates that create superpositions


@st.composite
def progs(draw, width, max_unitary, max_meas, depth, bare, names=None, angle=None, prelude=False, min_meas=0):
    """A gate list on `width` qubits with up to max_unitary unitary gates and up to max_meas MEASURE/CMEASURE gates at
    arbitrary positions. depth = remaining dictionary nesting allowed; bare = CMEASURE without dictionary allowed.
    prelude: optionally start with H / RY gates on a random subset of qubits (so that outcomes are not all certain)."""
    names = names or MIX_NAMES
    kinds = ["M", "M", "D", "D", "B"] if bare else ["M", "M", "D", "D"]
    pre = []
    if prelude and draw(st.integers(0, 5)) > 0:
        for q in draw(st.lists(st.integers(0, width - 1), unique=True, min_size=1, max_size=width)):
            if draw(st.booleans()):
                pre.append({"n": "H", "t": [q], "c": None, "p": None})
            else:
                pre.append({"n": "RY", "t": [q], "c": None, "p": draw(st.floats(0.3, 2.8))})
    uni = draw(st.lists(S.gate_recs(width, names=names, angle=angle), min_size=0, max_size=max_unitary))
    ms = []
    for k in draw(st.lists(st.sampled_from(kinds), min_size=min_meas, max_size=max_meas)):
        q = draw(st.integers(0, width - 1))
        if k == "D" and depth > 0:
            g = {"n": "CMEASURE", "t": [q], "c": None, "p": None,
                 "d": {"0": draw(progs(width, 2, 1, depth - 1, bare, names, angle)),
                       "1": draw(progs(width, 2, 1, depth - 1, bare, names, angle))}}
        elif k == "B":
            g = {"n": "CMEASURE", "t": [q], "c": None, "p": None}
        else:
            g = _meas(q)
        ms.append((draw(st.integers(0, len(uni))), g))
    items = list(uni)
    for pos, g in sorted(ms, key=lambda x: -x[0]):      # insert from the back so that positions stay valid
        items.insert(pos, g)
    items = pre + items
    return items


def _angles():
    # generic angles plus special values that make outcomes impossible / certain
    return st.one_of(S.angles(big=False), st.sampled_from([0.0, np.pi, np.pi / 2, -np.pi / 2, 2 * np.pi]))


@st.composite
def measure_cases(draw, max_width=4, max_unitary=10, max_meas=4):
    """MEASURE-only circuits."""
    width = draw(st.integers(1, max_width))
    gates = draw(progs(width, max_unitary, max_meas, 0, False, angle=_angles(), prelude=True, min_meas=1))
    if not any(g["n"] == "MEASURE" for g in gates):
        gates.insert(draw(st.integers(0, len(gates))), _meas(draw(st.integers(0, width - 1))))
    nq = width if draw(st.booleans()) else None
    case = {"gates": gates, "nq": nq, "ctrl": None}
    n = width_of(case)
    case["init"] = draw(S.statevectors(n)) if draw(st.integers(0, 2)) == 0 else None
    return case


@st.composite
def controls(draw, width, depth, kind):
    ang = _angles()
    if kind == "func_table":
        return {"kind": "func_table", "on": {"0": draw(progs(width, 3, 1, depth, False, angle=ang)),
                                             "1": draw(progs(width, 3, 1, depth, False, angle=ang))}}
    if kind == "func_rus":
        q = draw(st.integers(0, width - 1))
        # the retry block re-prepares the measured qubit (otherwise a failure would repeat for ever)
        first = ({"n": "H", "t": [q], "c": None, "p": None} if draw(st.booleans())
                 else {"n": draw(st.sampled_from(["RY", "RX"])), "t": [q], "c": None, "p": draw(st.floats(0.6, 2.6))})
        retry = [first] + draw(st.lists(S.gate_recs(width, angle=ang), min_size=0, max_size=2))
        if draw(st.integers(0, 7)) == 0:
            retry = retry[1:]
        return {"kind": "func_rus", "fail": draw(st.sampled_from(["0", "1"])), "retry": retry, "q": q,
                "done": draw(progs(width, 2, 1, 0, False, angle=ang))}
    keys = draw(st.lists(st.sampled_from(["0", "1", "00", "01", "10", "11", "000", "001", "010", "011", "100", "101", "110", "111"]),
                         min_size=1, max_size=5, unique=True))
    return {"kind": "class_hist", "table": {k: draw(progs(width, 3, 1, min(depth, 1), True, angle=ang)) for k in sorted(keys)}}


@st.composite
def cmeasure_cases(draw, max_width=4, max_unitary=10, max_meas=3, depth=2, cap_meas=8, max_paths=32, kinds=None):
    """Circuits with at least one CMEASURE; control by dictionary, function or ClassicalControl class."""
    width = draw(st.integers(1, max_width))
    kind = draw(st.sampled_from(kinds or ["class_hist", "dict", "func_rus", "func_table", "dict", "class_hist"]))
    ctrl = None if kind == "dict" else draw(controls(width, depth - 1, kind))
    gates = draw(progs(width, max_unitary, max_meas, depth, ctrl is not None, angle=_angles(), prelude=True, min_meas=1))
    if ctrl is not None and not any(g["n"] == "CMEASURE" and g.get("d") is None for g in gates):
        gates.insert(draw(st.integers(0, len(gates))), {"n": "CMEASURE", "t": [draw(st.integers(0, width - 1))], "c": None, "p": None})
    if ctrl is not None and draw(st.booleans()) and not any(g["n"] == "CMEASURE" and g.get("d") is not None for g in gates):
        # both styles in one circuit: a dictionary-controlled gate (its dictionary decides) next to the circuit-level control
        q = draw(st.integers(0, width - 1))
        gates.insert(draw(st.integers(0, len(gates))),
                     {"n": "CMEASURE", "t": [q], "c": None, "p": None,
                      "d": {"0": draw(progs(width, 2, 1, max(depth - 1, 0), False, angle=_angles())),
                            "1": draw(progs(width, 2, 1, max(depth - 1, 0), False, angle=_angles()))}})
    if ctrl is None and not any(g["n"] == "CMEASURE" for g in gates):
        q = draw(st.integers(0, width - 1))
        gates.insert(draw(st.integers(0, len(gates))),
                     {"n": "CMEASURE", "t": [q], "c": None, "p": None,
                      "d": {"0": draw(progs(width, 2, 1, depth - 1, False, angle=_angles())),
                            "1": draw(progs(width, 2, 1, depth - 1, False, angle=_angles()))}})
    case = {"gates": gates, "nq": None, "ctrl": ctrl}
    # Circuit.width only sees top-level gates: fix n_qubits whenever nested gates reach further (or at random)
    top = 1 + max([max(g["t"] + (g.get("c") or [])) for g in gates], default=-1)
    n = width_of(case)
    if top < n or draw(st.booleans()):
        case["nq"] = n
    case["init"] = draw(S.statevectors(n)) if draw(st.integers(0, 2)) == 0 else None
    return case


def bounded(case, cap_meas, max_paths):
    c = count_paths(case, cap_meas, max_paths)
    return c is not None


# ------------------------------------------------------------------------------------------- self test

def selftest():
    R.selftest()
    H0 = {"n": "H", "t": [0], "c": None, "p": None}
    # Bell pair, measure qubit 0: two branches of probability 1/2, states |00> and |11>
    case = {"gates": [H0, {"n": "CNOT", "t": [1], "c": [0], "p": None}, _meas(0)], "ctrl": None}
    lv = walk(case, 2)
    assert [l["b"] for l in lv] == ["0", "1"] and all(abs(l["p"] - 0.5) < 1e-14 for l in lv)
    assert abs(lv[0]["psi"][0] - 1) < 1e-14 and abs(lv[1]["psi"][3] - 1) < 1e-14
    assert all(l["nontrivial"] is False for l in lv)
    # X then measure: outcome 0 impossible
    lv = walk({"gates": [{"n": "X", "t": [0], "c": None, "p": None}, _meas(0)]}, 1)
    assert [(l["b"], l["status"]) for l in lv] == [("0", "dead"), ("1", "alive")]
    # RY(t) then measure: p1 = sin^2(t/2); a later H on the measured qubit makes it non-trivial
    t = 0.7
    case = {"gates": [{"n": "RY", "t": [0], "c": None, "p": t}, _meas(0), H0]}
    lv = walk(case, 1)
    assert abs(lv[1]["p"] - np.sin(t / 2) ** 2) < 1e-14 and lv[0]["nontrivial"]
    assert np.allclose(lv[1]["psi"], np.array([1, -1]) / np.sqrt(2))
    d, rest = mixture(lv, 1)
    assert np.allclose(d, dephased_density_diag(case["gates"], 1)) and abs(rest) < 1e-14
    # dictionary control: H, CMEASURE{0:[X],1:[]} -> always |1>, traces differ
    case = {"gates": [H0, {"n": "CMEASURE", "t": [0], "c": None, "p": None, "d": {"0": [{"n": "X", "t": [0], "c": None, "p": None}], "1": []}}]}
    lv = walk(case, 1)
    assert all(abs(abs(l["psi"][1]) - 1) < 1e-14 for l in lv)
    assert trace_str(lv[0]["applied"]) == "H[0] CMEASURE[0](0) X[0]" and trace_str(lv[1]["applied"]) == "H[0] CMEASURE[0](1)"
    # nested: the tail of an inserted list runs BEFORE the next outer gate
    case = {"gates": [H0, {"n": "CMEASURE", "t": [0], "c": None, "p": None,
                           "d": {"0": [{"n": "H", "t": [1], "c": None, "p": None}, _meas(1), {"n": "X", "t": [1], "c": None, "p": None}], "1": []}},
                      _meas(1)], "nq": 2}
    lv = {l["b"]: l for l in walk(case, 2)}
    assert lv["000"]["status"] == "dead" and lv["011"]["status"] == "dead"
    assert abs(lv["001"]["p"] - 0.25) < 1e-14 and abs(lv["010"]["p"] - 0.25) < 1e-14 and abs(lv["10"]["p"] - 0.5) < 1e-14
    assert trace_str(lv["001"]["applied"]) == "H[0] CMEASURE[0](0) H[1] MEASURE[1](0) X[1] MEASURE[1](1)"
    # repeat until success function (the example of the repository's test): p(0 0 1) = 1/8
    ctrl = {"kind": "func_rus", "fail": "0", "retry": [H0], "q": 0, "done": []}
    case = {"gates": [H0, {"n": "CMEASURE", "t": [0], "c": None, "p": None}, {"n": "CNOT", "t": [1], "c": [0], "p": None}], "ctrl": ctrl}
    l = follow(case, 2, None, "001")
    assert l["status"] == "alive" and abs(l["p"] - 0.125) < 1e-14 and abs(l["psi"][3] - 1) < 1e-14
    assert trace_str(l["applied"]) == "H[0] CMEASURE[0](0) H[0] CMEASURE[0](0) H[0] CMEASURE[0](1) CNOT[1]c[0]"
    lv = walk(case, 2, cap_meas=5)
    assert abs(sum(x["p"] for x in lv if x["status"] == "alive") - (1 - 2 ** -5)) < 1e-14
    assert follow(case, 2, None, "00")["status"] == "trunc"
    # class with history
    ctrl = {"kind": "class_hist", "table": {"0": [H0, {"n": "CMEASURE", "t": [0], "c": None, "p": None}], "00": [{"n": "X", "t": [0], "c": None, "p": None}]}}
    case = {"gates": [H0, {"n": "CMEASURE", "t": [0], "c": None, "p": None}], "ctrl": ctrl}
    lv = {l["b"]: l for l in walk(case, 1)}
    assert sorted(lv) == ["00", "01", "1"] and lv["00"]["hist"] == "00" and abs(lv["00"]["psi"][1] - 1) < 1e-14
    assert count_paths(case, 8, 10) == 3 and count_paths(case, 8, 2) is None
