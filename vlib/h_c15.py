"""Helpers for C15 (problem-decomposition identities): independent oracles and plain-data strategies.

Oracles
  * energy(geom, method, basis, charge, spin): HF / CCSD / FCI energy of a *whole* system by calling PySCF directly
    (never through Tangelo's Fragment / ONIOM / DMET machinery).
  * link_expected / check_cap: cap position from the vector formula staying + factor*(leaving - staying); for a
    chemical group, rigid-motion + axis test through Gram matrices and triple products (no scipy Rotation).
  * mi_expected: inclusion-exclusion (Moebius inversion over subsets) written from the definition of the increments.
Strategies generate plain JSON-able data only.
"""
import itertools
import math

import numpy as np
from hypothesis import strategies as st

Z = {"H": 1, "He": 2, "Li": 3, "Be": 4, "B": 5, "C": 6, "N": 7, "O": 8, "F": 9, "Cl": 17}
NORB = {"sto-3g": {1: 1, 2: 5, 3: 9}, "3-21g": {1: 2, 2: 9, 3: 13}, "6-31g": {1: 2, 2: 9, 3: 13}}


def period(sym):
    z = Z[sym]
    return 1 if z <= 2 else (2 if z <= 10 else 3)


def n_orbitals(symbols, basis):
    return sum(NORB[basis][period(s)] for s in symbols)


def n_electrons(symbols, charge=0):
    return sum(Z[s] for s in symbols) - charge


# ------------------------------------------------------------------------------------------------ energies (PySCF)

def pyscf_mf(geom, basis, charge=0, spin=0):
    from pyscf import gto, scf
    m = gto.M(atom=[(a, tuple(float(v) for v in x)) for a, x in geom], basis=basis, charge=charge, spin=spin, verbose=0)
    mf = scf.RHF(m) if spin == 0 else scf.ROHF(m)
    mf.verbose = 0
    mf.kernel()
    if not mf.converged:
        mf = scf.newton(mf)
        mf.verbose = 0
        mf.kernel()
    return mf


class ReferenceUndefined(Exception):
    """The reference calculation itself did not converge: the quantity the identity talks about is not defined."""


def energy(geom, method, basis, charge=0, spin=0):
    """Energy of the whole system with `method` in HF / CCSD / FCI, all electrons correlated."""
    from pyscf import cc, fci
    mf = pyscf_mf(geom, basis, charge, spin)
    if not mf.converged:
        raise ReferenceUndefined("reference-scf-not-converged")
    if method == "HF":
        return float(mf.e_tot)
    if method == "CCSD":
        c = cc.CCSD(mf)
        c.verbose = 0
        c.conv_tol, c.conv_tol_normt = 1e-9, 1e-7      # the thresholds Tangelo's CCSD wrapper documents in its source
        c.kernel()
        if not c.converged:
            raise ReferenceUndefined("reference-ccsd-not-converged")
        return float(c.e_tot)
    if method == "FCI":
        # same solver class as the definition of "FCI energy" used by the package: spin-adapted (direct_spin0) for
        # singlets, Sz-sector solver otherwise
        return float(fci.FCI(mf, singlet=(spin == 0)).kernel()[0])
    raise ValueError(method)


# ------------------------------------------------------------------------------------------------ links

def link_target(geom, staying, leaving, factor):
    s = np.array(geom[staying][1], dtype=float)
    l = np.array(geom[leaving][1], dtype=float)
    return s + factor * (l - s)


def group_atoms(species):
    """species spec (plain data) -> (ghost position or None, [(element, xyz)...]) using Tangelo's built-in table for
    named groups (the table is input data: the property is about placement, not about the NIST geometries)."""
    if isinstance(species, str):
        from tangelo.problem_decomposition.oniom._helpers.capping_groups import chemical_groups
        if species in chemical_groups:
            spec = chemical_groups[species]
        else:
            return None, [(species, np.zeros(3))]
    else:
        spec = species
    ghost = np.array(spec[0][1], dtype=float)
    return ghost, [(a[0], np.array(a[1], dtype=float)) for a in spec[1:]]


def _gram_and_triples(vs):
    V = np.array(vs)
    G = V @ V.T
    T = [float(np.linalg.det(V[list(c)])) for c in itertools.combinations(range(len(vs)), 3)]
    return G, np.array(T)


def check_cap(geom, staying, leaving, factor, species, out, tol=1e-7):
    """Returns None if `out` (list of (element, (x,y,z))) is a correct capping for the link, else a message.
    Correct = elements are the group's non-ghost atoms in order; first atom at staying+factor*(leaving-staying);
    the group is moved rigidly (proper rotation + translation) such that the ghost->first-atom axis is parallel to
    (and oriented as) staying->leaving."""
    ghost, atoms = group_atoms(species)
    if [a for a, _ in out] != [a for a, _ in atoms]:
        return f"elements {[a for a, _ in out]} != {[a for a, _ in atoms]}"
    P = np.array([[float(v) for v in x] for _, x in out])
    if P.shape != (len(atoms), 3) or not np.all(np.isfinite(P)):
        return f"bad coordinates {P.tolist()}"
    tgt = link_target(geom, staying, leaving, factor)
    if np.max(np.abs(P[0] - tgt)) > tol:
        return f"first cap atom at {P[0].tolist()}, formula gives {tgt.tolist()}"
    if len(atoms) == 1:
        return None
    s = np.array(geom[staying][1], dtype=float)
    l = np.array(geom[leaving][1], dtype=float)
    a = atoms[0][1] - ghost
    d = l - s
    V = [a / np.linalg.norm(a)] + [x - atoms[0][1] for _, x in atoms[1:]]
    W = [d / np.linalg.norm(d)] + [P[i] - P[0] for i in range(1, len(atoms))]
    if axis_nearly_antiparallel(geom, staying, leaving, species):
        # numerically degenerate orientation problem (rotation by pi about an axis fixed only by rounding noise): the
        # statement does not promise an orientation there; only rigidity and handedness of the group are examined
        V, W = V[1:], W[1:]
    G1, T1 = _gram_and_triples(V)
    G2, T2 = _gram_and_triples(W)
    if np.max(np.abs(G1 - G2)) > tol:
        return f"group not rigidly moved with its axis along the bond (Gram matrices differ by {np.max(np.abs(G1 - G2)):.3g})"
    if len(T1) and np.max(np.abs(T1 - T2)) > tol:
        return f"group mirrored (triple products differ by {np.max(np.abs(T1 - T2)):.3g})"
    return None


def axis_nearly_antiparallel(geom, staying, leaving, species, eps=1e-6):
    """True when the bond is antiparallel to the group's own ghost->first-atom axis to within eps rad."""
    ghost, atoms = group_atoms(species)
    if ghost is None or len(atoms) < 2:
        return False
    a = atoms[0][1] - ghost
    d = np.array(geom[leaving][1], dtype=float) - np.array(geom[staying][1], dtype=float)
    c = np.cross(a, d)
    sin = np.linalg.norm(c) / (np.linalg.norm(a) * np.linalg.norm(d))
    return bool(a @ d < 0 and sin < eps)


def rodrigues(axis, ang):
    k = np.array(axis, dtype=float)
    k /= np.linalg.norm(k)
    K = np.array([[0, -k[2], k[1]], [k[2], 0, -k[0]], [-k[1], k[0], 0]])
    return np.eye(3) + math.sin(ang) * K + (1 - math.cos(ang)) * K @ K


# ------------------------------------------------------------------------------------------------ method of increments

def mi_expected(e_mf, energies, labels, kmax):
    """Inclusion-exclusion from the definition: eps_S = sum_{T subset S, T nonempty} (-1)^{|S|-|T|} (E(T) - e_mf);
    E_MI(kmax) = e_mf + sum_{|S|<=kmax} eps_S.  `energies` maps tuple(sorted labels) -> E(T)."""
    tot = e_mf
    eps = {}
    for k in range(1, kmax + 1):
        for S in itertools.combinations(labels, k):
            e = 0.0
            for j in range(1, k + 1):
                for T in itertools.combinations(S, j):
                    e += (-1) ** (k - j) * (energies[T] - e_mf)
            eps[S] = e
            tot += e
    return tot, eps


# ------------------------------------------------------------------------------------------------ geometry strategies

def _template_h(n, shape, d):
    if shape == "chain":
        return [(0.0, 0.0, d * i) for i in range(n)]
    if shape == "zigzag":
        return [(0.35 * (i % 2), 0.0, 0.9 * d * i) for i in range(n)]
    if shape == "ring":
        if n == 4:   # rectangle (two H2 units): a square H4 has a degenerate closed-shell mean field
            return [(0.0, 0.0, 0.0), (0.0, 0.0, d), (1.6 * d, 0.0, d), (1.6 * d, 0.0, 0.0)]
        r = d / (2 * math.sin(math.pi / n))
        return [(r * math.cos(2 * math.pi * i / n), r * math.sin(2 * math.pi * i / n), 0.0) for i in range(n)]
    raise ValueError(shape)


HEAVY = {
    "H2O": ([("O", (0., 0., 0.1173)), ("H", (0., 0.7572, -0.4692)), ("H", (0., -0.7572, -0.4692))], 0, 0),
    "NH3": ([("N", (0., 0., 0.1162)), ("H", (0., 0.9397, -0.2711)), ("H", (0.8138, -0.4698, -0.2711)), ("H", (-0.8138, -0.4698, -0.2711))], 0, 0),
    "LiH": ([("Li", (0., 0., 0.)), ("H", (0., 0., 1.595))], 0, 0),
    "HF": ([("F", (0., 0., 0.)), ("H", (0., 0., 0.917))], 0, 0),
    "CH3": ([("C", (0., 0., 0.)), ("H", (1.079, 0., 0.)), ("H", (-0.5395, 0.9344, 0.)), ("H", (-0.5395, -0.9344, 0.))], 0, 1),
    "BeH2": ([("Be", (0., 0., 0.)), ("H", (0., 0., 1.33)), ("H", (0., 0., -1.33))], 0, 0),
}


def _min_dist(geom):
    P = np.array([x for _, x in geom])
    n = len(P)
    return min((float(np.linalg.norm(P[i] - P[j])) for i in range(n) for j in range(i + 1, n)), default=9.0)


@st.composite
def jittered(draw, template, amp_choices=(30, 80, 150)):
    """template: list of (sym, (x,y,z)) -> [[sym,[x,y,z]],...] with per-coordinate jitter of k*0.001 A, |k| <= amp."""
    amp = draw(st.sampled_from(list(amp_choices)))
    geom = []
    for sym, xyz in template:
        geom.append([sym, [round(float(c) + draw(st.integers(-amp, amp)) * 0.001, 4) for c in xyz]])
    return geom


@st.composite
def h_systems(draw, n_choices, shapes=("chain", "zigzag", "ring"), symbols=None):
    n = draw(st.sampled_from(list(n_choices)))
    shape = draw(st.sampled_from([s for s in shapes if not (s == "ring" and n < 4)]))
    d = draw(st.integers(70, 115)) * 0.01
    pts = _template_h(n, shape, d)
    syms = symbols(n) if symbols else ["H"] * n
    geom = draw(jittered(list(zip(syms, pts))))
    return {"name": f"{''.join(sorted(set(syms)))}{n}-{shape}", "geom": geom}


@st.composite
def oniom_systems(draw, tier):
    """A small whole system: geometry, charge, spin (2S), flag heavy."""
    if draw(st.integers(0, 9)) < 6:
        s = draw(h_systems([2, 3, 4, 5] if tier == "quick" else [2, 3, 4, 5, 6]))
        n = len(s["geom"])
        charge = 0
        if n % 2 == 1 and draw(st.booleans()):
            charge = 1
        ne = n - charge
        s.update(charge=charge, spin=ne % 2, heavy=False)
    else:
        name = draw(st.sampled_from(sorted(HEAVY)))
        tmpl, charge, spin = HEAVY[name]
        geom = draw(jittered(tmpl, (20, 50)))
        s = {"name": name, "geom": geom, "charge": charge, "spin": spin, "heavy": True}
    if _min_dist(s["geom"]) < 0.45:
        from hypothesis import assume
        assume(False)
    return s


def basis_choices(symbols, need_fci):
    """Bases affordable for this set of atoms (FCI limited to 10 spatial orbitals, anything to 16)."""
    out = []
    for b in ("sto-3g", "3-21g", "6-31g"):
        no = n_orbitals(symbols, b)
        if no <= (10 if need_fci else 16):
            out.append(b)
    return out or ["sto-3g"]


def solver_ok(solver, symbols, basis, charge, spin):
    """Is the classical solver well defined for this (sub)system? CCSD needs >=1 occupied beta and >=1 virtual alpha
    orbital; FCI limited in size; everything needs >= 1 electron pair or an odd electron."""
    ne = n_electrons(symbols, charge)
    no = n_orbitals(symbols, basis)
    na, nb = (ne + spin) // 2, (ne - spin) // 2
    if ne < 1 or na > no or nb < 0:
        return False
    if solver == "HF":
        return True
    if solver == "CCSD":
        return nb >= 1 and no - na >= 1 and no <= 16
    if solver == "FCI":
        return no <= 10
    if solver == "VQE":
        return list(symbols) == ["H", "H"] and ne == 2 and basis == "sto-3g"
    return False


CAP_ELECTRONS = {"H": 1, "F": 9, "CH3": 9, "NH2": 9}
CAP_ATOMS = {"H": ["H"], "F": ["F"], "CH3": ["C", "H", "H", "H"], "NH2": ["N", "H", "H"]}


SHARE_MODES = ["fresh", "fresh", "low=high", "system=model-low", "all-one"]


def share_ids(mode, n_models):
    """Options-slot ids (equal id + equal content -> the very same dict object is handed to Tangelo).
    Returns (system id, [[low id, high id] per model])."""
    if mode == "all-one":
        return 0, [[0, 0] for _ in range(n_models)]
    if mode == "low=high":
        return 0, [[1 + k, 1 + k] for k in range(n_models)]
    if mode == "system=model-low":
        return 0, [[0, 1 + k] for k in range(n_models)]
    return 0, [[1 + 2 * k, 2 + 2 * k] for k in range(n_models)]


@st.composite
def model_fragments(draw, sysd, allow_links=True, prefer_basis=None):
    """One ONIOM model fragment with identical low and high levels: selection (int or index list in any order),
    optional links, a solver that is well defined on the capped model, one basis used for both levels."""
    from hypothesis import assume
    geom = sysd["geom"]
    n = len(geom)
    k = draw(st.integers(1, n))
    form = draw(st.sampled_from(["list", "list", "int"]))
    if form == "int":
        atoms, sel = list(range(k)), k
    else:
        atoms = list(draw(st.permutations(list(range(n))))[:k])
        sel = list(atoms)
    outside = [a for a in range(n) if a not in atoms]
    links = []
    if allow_links and outside and draw(st.integers(0, 2)) > 0:
        nl = draw(st.integers(1, min(2, len(outside))))
        for lv in list(draw(st.permutations(outside)))[:nl]:
            links.append({"staying": draw(st.sampled_from(atoms)), "leaving": lv,
                          "factor": round(draw(st.floats(0.3, 1.5)), 3),
                          "species": draw(st.sampled_from(["H", "H", "H", "H", "F", "CH3", "NH2"]))})
    symbols = [geom[a][0] for a in atoms] + [s for l in links for s in CAP_ATOMS[l["species"]]]
    assume(len(symbols) >= 2)
    ne = n_electrons(symbols)
    spin = ne % 2
    cands = []
    for solver in ("HF", "CCSD", "FCI", "VQE"):
        for b in ("sto-3g", "3-21g", "6-31g"):
            if solver_ok(solver, symbols, b, 0, spin) and n_orbitals(symbols, b) <= (16 if solver == "HF" else 12):
                cands.append((solver, b))
    assume(cands)
    # spread evenly over the solvers that are possible, then over bases
    solvers = sorted({c[0] for c in cands})
    solver = draw(st.sampled_from(solvers))
    bases = [b for s_, b in cands if s_ == solver]
    if prefer_basis in bases and draw(st.integers(0, 3)) > 0:
        basis = prefer_basis
    else:
        nondefault = [b for b in bases if b != "sto-3g"]
        basis = draw(st.sampled_from(nondefault if (nondefault and draw(st.booleans())) else bases))
    # frozen_orbitals in the options (same for both levels, so it cancels): first MO frozen, closed-shell models only
    frozen = None
    if spin == 0 and solver in ("CCSD", "FCI") and ne >= 4 and draw(st.integers(0, 3)) == 0:
        frozen = 1
    return {"sel": sel, "links": links, "solver": solver, "basis": basis, "charge": 0, "spin": spin, "frozen": frozen}


@st.composite
def oniom_same_cases(draw, tier):
    from hypothesis import assume
    sysd = draw(oniom_systems(tier))
    symbols = [a for a, _ in sysd["geom"]]
    cands = [(s, b) for s in ("HF", "CCSD", "FCI") for b in ("sto-3g", "3-21g", "6-31g")
             if solver_ok(s, symbols, b, sysd["charge"], sysd["spin"]) and n_orbitals(symbols, b) <= 16]
    assume(cands)
    low = draw(st.sampled_from(sorted({c[0] for c in cands})))
    share = draw(st.sampled_from(SHARE_MODES))
    lbs = [b for s, b in cands if s == low]
    nondefault = [b for b in lbs if b != "sto-3g"]
    lb = draw(st.sampled_from(nondefault if (nondefault and share != "fresh" and draw(st.integers(0, 3)) > 0) else lbs))
    models = [draw(model_fragments(sysd, prefer_basis=lb if share != "fresh" else None)) for _ in range(draw(st.sampled_from([1, 1, 2])))]
    return {"sys": sysd, "low": low, "low_basis": lb, "models": models, "share": share, "twice": draw(st.integers(0, 3)) == 0, "resimulate": draw(st.booleans()),
            "order": draw(st.sampled_from(["system-first", "system-last"])),
            "geom_format": draw(st.sampled_from(["list", "list", "string"]))}


@st.composite
def oniom_whole_cases(draw, tier):
    from hypothesis import assume
    sysd = draw(oniom_systems(tier))
    symbols = [a for a, _ in sysd["geom"]]
    n = len(symbols)
    cands = [(s, b) for s in ("HF", "CCSD", "FCI") for b in ("sto-3g", "3-21g", "6-31g")
             if solver_ok(s, symbols, b, sysd["charge"], sysd["spin"]) and n_orbitals(symbols, b) <= 16]
    assume(len(cands) >= 2)
    low = draw(st.sampled_from(sorted({c[0] for c in cands})))
    share = draw(st.sampled_from(SHARE_MODES))
    lbs = [b for s, b in cands if s == low]
    nondefault = [b for b in lbs if b != "sto-3g"]
    lb = draw(st.sampled_from(nondefault if (nondefault and share != "fresh" and draw(st.integers(0, 3)) > 0) else lbs))
    high = draw(st.sampled_from(sorted({c[0] for c in cands})))
    hbs = [b for s, b in cands if s == high]
    hb = lb if (share in ("low=high", "all-one") and lb in hbs and draw(st.booleans())) else draw(st.sampled_from(hbs))
    form = draw(st.sampled_from(["list", "list", "list", "int", "none"]))
    sel = list(draw(st.permutations(list(range(n))))) if form == "list" else (n if form == "int" else None)
    extras = [draw(model_fragments(sysd, allow_links=False, prefer_basis=lb if share != "fresh" else None))] if draw(st.integers(0, 3)) == 0 else []
    return {"sys": sysd, "low": low, "low_basis": lb, "high": high, "high_basis": hb, "sel": sel, "extras": extras,
            "share": share, "twice": draw(st.integers(0, 3)) == 0, "resimulate": draw(st.booleans()),
            "order": draw(st.sampled_from(["system-first", "system-last"])),
            "geom_format": draw(st.sampled_from(["list", "list", "string"]))}


# ---- link placement (no chemistry)

@st.composite
def link_cases(draw):
    from hypothesis import assume
    n = draw(st.integers(2, 6))
    geom = [[draw(st.sampled_from(["C", "H", "N", "O"])), [round(draw(st.floats(-3, 3)), 4) for _ in range(3)]] for _ in range(n)]
    assume(_min_dist(geom) > 0.3)
    staying, leaving = list(draw(st.permutations(list(range(n)))))[:2]
    kind = draw(st.sampled_from(["element", "element", "builtin", "builtin", "custom", "aligned"]))
    factor = draw(st.one_of(st.floats(0.3, 1.5), st.sampled_from([1.0, 0.709, 0.5])))
    if kind == "element":
        species = draw(st.sampled_from(["H", "H", "F", "Cl", "C", "He"]))
    elif kind == "builtin":
        species = draw(st.sampled_from(["CH3", "CF3", "NH2"]))
    elif kind == "custom":
        m = draw(st.integers(1, 4))
        pts = [[round(draw(st.floats(-2, 2)), 4) for _ in range(3)] for _ in range(m + 1)]
        assume(_min_dist([("X", p) for p in pts]) > 0.3)
        species = [[draw(st.sampled_from(["X", "x"])), pts[0]]] + [[draw(st.sampled_from(["C", "H", "F", "I", "Cl", "N"])), p] for p in pts[1:]]
    else:
        # bond exactly parallel / antiparallel to the built-in group's own axis (rotation by 0 or pi)
        species = draw(st.sampled_from(["CH3", "CF3", "NH2"]))
        ghost, atoms = group_atoms(species)
        ax = atoms[0][1] - ghost
        sgn = draw(st.sampled_from([1.0, -1.0]))
        length = draw(st.sampled_from([1.0, 1.54]))
        s = np.array(geom[staying][1])
        geom[leaving][1] = [float(v) for v in (s + sgn * length * ax / np.linalg.norm(ax))]
        assume(_min_dist(geom) > 0.3)
    return {"geom": geom, "staying": staying, "leaving": leaving, "factor": float(factor), "species": species, "kind": kind}


# ---- DMET

@st.composite
def dmet_cases(draw, tier):
    from hypothesis import assume
    n = draw(st.sampled_from([4, 4, 4, 6] if tier == "quick" else [4, 4, 6, 6]))
    basis = draw(st.sampled_from(["sto-3g", "sto-3g", "3-21g"]))
    if basis == "3-21g" and tier == "quick":
        n = 4
    # (helium-containing clusters cannot be used: SecondQuantizedMolecule cannot be built for He on this tree)
    charge = draw(st.sampled_from([0, 0, 0, 0, 0, 2, -2]))
    if charge == -2 and basis != "sto-3g":
        charge = 0
    # open shell: triplet ROHF (2S = 2) keeps an even electron number in every fragment+bath problem, which the
    # open-shell DMET implementation needs (it gives every fragment the spin of the molecule)
    spin = 2 if (charge == 0 and basis == "sto-3g" and draw(st.integers(0, 4)) == 0) else 0
    sysd = draw(h_systems([n]))
    assume(_min_dist(sysd["geom"]) >= 0.5)
    # composition of n into >= 2 parts, the "two halves" class (fragment+bath can span everything) over-weighted
    if draw(st.integers(0, 9)) < 4:
        comp = [n // 2, n // 2]
    else:
        comp, left = [], n
        while left > 0:
            c = draw(st.integers(1, min(left, 3 if basis == "sto-3g" else 2)))
            comp.append(c)
            left -= c
        assume(len(comp) >= 2)
    order = list(range(n)) if draw(st.booleans()) else list(draw(st.permutations(list(range(n)))))
    frags, i = [], 0
    for c in comp:
        frags.append(order[i:i + c])
        i += c
    sk = draw(st.integers(0, 9))
    if sk < 7 or spin:
        solvers = "fci"
    elif sk < 8:
        solvers = "ccsd"
    else:
        solvers = [draw(st.sampled_from(["fci", "ccsd"])) for _ in frags]
    loc = "meta_lowdin"
    if basis != "sto-3g":
        loc = draw(st.sampled_from(["meta_lowdin", "iao", "nao"]))
    elif draw(st.integers(0, 4)) == 0:
        loc = "nao"
    perm = list(draw(st.permutations(list(range(n)))))
    return {"sys": sysd, "charge": charge, "spin": spin, "basis": basis, "frags": frags,
            "count_form": draw(st.integers(0, 3)) > 0, "solvers": solvers, "loc": loc,
            "optimizer": draw(st.sampled_from(["newton-1e-9", "newton-1e-9", "newton-1e-9+probe", "newton-1e-9+probe", "default"])),
            "perm": perm, "frag_order": list(draw(st.permutations(list(range(len(frags)))))),
            "reverse_within": bool(draw(st.booleans())),
            "resimulate": draw(st.integers(0, 2)) == 0, "second_build": draw(st.integers(0, 2)) == 0}


# ---- method of increments

@st.composite
def mi_cases(draw, max_centres, full_order):
    n = draw(st.integers(2, max_centres))
    lk = draw(st.sampled_from(["0..n-1", "0..n-1", "offset", "gaps"]))
    if lk == "0..n-1":
        labels = list(range(n))
    elif lk == "offset":
        o = draw(st.integers(1, 3))
        labels = [o + i for i in range(n)]
    else:
        labels = sorted(draw(st.lists(st.integers(0, 12), min_size=n, max_size=n, unique=True)))
    kmax = n if full_order else draw(st.integers(1, n))
    e_mf = round(draw(st.floats(-200.0, -0.5)), 8)
    with_corr = draw(st.sampled_from(["none", "some", "all"]))
    frags = {}
    for k in range(1, kmax + 1):
        for S in itertools.combinations(labels, k):
            ec = round(draw(st.floats(-0.6, 0.05)), 10)
            if with_corr == "all" or (with_corr == "some" and draw(st.booleans())):
                corr = round(draw(st.floats(-0.02, 0.02)), 10)
            else:
                corr = None
            frags[str(S)] = {"e_corr": ec, "correction": corr}
    user = None
    if draw(st.booleans()):
        ids = sorted(frags)
        chosen = draw(st.lists(st.sampled_from(ids), min_size=1, max_size=min(4, len(ids)), unique=True))
        user = {fid: round(e_mf + draw(st.floats(-0.6, 0.05)), 10) for fid in chosen}
        if kmax == n and draw(st.booleans()):
            user[str(tuple(labels))] = round(e_mf + draw(st.floats(-0.6, 0.05)), 10)
    return {"labels": labels, "kmax": kmax, "e_mf": e_mf, "frags": frags, "user": user,
            "route": draw(st.sampled_from(["dict", "dict", "file"])), "keys": draw(st.sampled_from(["int", "str"])),
            "reverse": bool(draw(st.booleans()))}


def mi_document(case):
    """Build a QEMIST-Cloud style result dictionary (the documented input of MethodOfIncrementsHelper) from the case:
    every fragment of every order <= kmax is present, each with a problem handle, its total energy (which includes its
    correction, as in the shipped MI-FNO logs), correlation energy, correction (key absent for iFCI-like data),
    epsilon, orbital lists."""
    labels, kmax, e_mf = case["labels"], case["kmax"], case["e_mf"]
    stored = {}
    for fid, r in case["frags"].items():
        stored[tuple(eval(fid))] = e_mf + r["e_corr"]
    tot, eps = mi_expected(e_mf, stored, labels, kmax)
    sub = {}
    orders = list(range(1, kmax + 1))
    handle = 1000
    for k in (reversed(orders) if case["reverse"] else orders):
        key = k if case["keys"] == "int" else str(k)
        sub[key] = {}
        combos = list(itertools.combinations(labels, k))
        for S in (reversed(combos) if case["reverse"] else combos):
            r = case["frags"][str(S)]
            handle += 1
            rec = {"energy_total": stored[S], "energy_correlation": stored[S] - e_mf, "epsilon": eps[S],
                   "problem_handle": handle, "complete_orbital_space": list(range(max(labels) + 4)),
                   "frozen_orbitals_truncated": [l for l in range(max(labels) + 1) if l not in S], "sub_problems": []}
            if r["correction"] is not None:
                rec["correction"] = r["correction"]
            sub[key][str(S)] = rec
    doc = {"energy_total": tot, "energy_correlation": tot - e_mf, "subproblem_data": sub}
    return doc, stored
