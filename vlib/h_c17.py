"""C17 helper: the importer fixed-point oracle (shared by the check and by the atheris target) and the atheris target itself.

    python -m vlib.h_c17 <projectq|ionq> <outdir> -runs=N -seed=S      (run by checks/c17.py in the thorough tier)

Oracle: if an importer accepts an input x and returns circuit c1, the matching writer must accept c1 and importing what it
wrote must give back c1 exactly (names up to CNOT==CX, targets, controls, parameters bit-identical, width).
The fuzzer never decides on its own: failing and a sample of accepted inputs are written to <outdir> and re-evaluated by the
check in-process (so that they are recorded, classified and replayable without atheris).
"""
import json
import os
import struct
import sys


class Mismatch(Exception):
    def __init__(self, sig, msg):
        super().__init__(msg)
        self.sig, self.msg = sig, msg


def _bits(x):
    return struct.pack(">d", float(x))


def _same_param(a, b):
    if isinstance(a, str) or isinstance(b, str):
        return isinstance(a, str) and isinstance(b, str) and a == b
    if a is None or b is None:
        return a is None and b is None
    try:
        return _bits(a) == _bits(b)
    except (TypeError, ValueError, OverflowError):
        return a == b


PARAM = {"RX", "RY", "RZ", "PHASE", "XX", "CRX", "CRY", "CRZ", "CPHASE"}


def gates_of(c):
    return [(("CX" if g.name == "CNOT" else g.name), list(g.target), list(g.control) if g.control else None, g.parameter) for g in c._gates]


def fixed_point(fmt, x):
    """Returns ("rejected", reason) or ("ok", n_gates); raises Mismatch on a violation of the fixed-point oracle."""
    from tangelo.linq import translate_circuit
    try:
        c1 = translate_circuit(x, "tangelo", source=fmt)
    except Exception as e:     # arbitrary fuzz input is outside the documented domain: any refusal is counted, not judged
        return "rejected", type(e).__name__
    # a parameterised gate without a numeric angle (e.g. JSON {"gate": "rx"} with no "rotation") is not a valid program of
    # either format: such inputs are outside the round-trip claim
    for g in c1._gates:
        if g.name in PARAM and (isinstance(g.parameter, bool) or not isinstance(g.parameter, (int, float))):
            return "rejected", "ill-formed-parameter"
    try:
        y = translate_circuit(c1, fmt)
    except ValueError as e:
        raise Mismatch(f"fuzz:{fmt}:writer-refuses-imported-circuit", f"{fmt} writer refuses a circuit its own importer produced: {e}")
    try:
        c2 = translate_circuit(y, "tangelo", source=fmt)
    except ValueError as e:
        raise Mismatch(f"fuzz:{fmt}:reader-refuses-writer", f"{fmt} importer refuses the writer's output for an imported circuit: {e}")
    g1, g2 = gates_of(c1), gates_of(c2)
    if c1.width != c2.width:
        raise Mismatch(f"fuzz:{fmt}:width", f"{fmt}: width {c1.width} became {c2.width} on import->export->import")
    if len(g1) != len(g2):
        raise Mismatch(f"fuzz:{fmt}:gate-count", f"{fmt}: {len(g1)} gates became {len(g2)}")
    for i, (a, b) in enumerate(zip(g1, g2)):
        if a[:3] != b[:3]:
            raise Mismatch(f"fuzz:{fmt}:gate", f"{fmt}: gate {i} {a[:3]} became {b[:3]}")
        pa = None if (isinstance(a[3], str) and a[3] == "") else a[3]
        pb = None if (isinstance(b[3], str) and b[3] == "") else b[3]
        if not _same_param(pa, pb):
            raise Mismatch(f"fuzz:{fmt}:parameter", f"{fmt}: gate {i} {a[0]} parameter {pa!r} became {pb!r}")
    return "ok", len(g1)


# ---------------------------------------------------------------------------------------------------- input builders

PQ_NAMES = ["H", "X", "Y", "Z", "S", "T", "Rx", "Ry", "Rz", "R", "PHASE", "CX", "Measure", "Allocate", "Deallocate", "Ph", "Swap", "CZ", "Tdag"]
IONQ_NAMES = ["h", "x", "y", "z", "s", "t", "rx", "ry", "rz", "xx", "swap", "X", "Z", "cnot", "phase", "v", "si", "zz", "RX"]


def build_projectq(fdp):
    lines = []
    for _ in range(fdp.ConsumeIntInRange(0, 7)):
        k = fdp.ConsumeIntInRange(0, 9)
        name = PQ_NAMES[fdp.ConsumeIntInRange(0, len(PQ_NAMES) - 1)]
        q = fdp.ConsumeIntInRange(0, 6)
        if k <= 2:
            lines.append(f"{name} | Qureg[{q}]")
        elif k <= 4:
            par = fdp.ConsumeFloat() if fdp.ConsumeBool() else fdp.ConsumeRegularFloat()
            lines.append(f"{name}({par}) | Qureg[{q}]")
        elif k <= 6:
            lines.append(f"{name} | ( Qureg[{q}], Qureg[{fdp.ConsumeIntInRange(0, 6)}] )")
        elif k == 7:
            lines.append(f"{name}({fdp.ConsumeUnicodeNoSurrogates(8)}) | Qureg[{q}]")
        else:
            lines.append(fdp.ConsumeUnicodeNoSurrogates(16))
    return "\n".join(lines) + ("\n" if fdp.ConsumeBool() else "")


def build_ionq(fdp):
    def qubits():
        k = fdp.ConsumeIntInRange(0, 3)
        if k == 0:
            return fdp.ConsumeIntInRange(0, 6)
        return [fdp.ConsumeIntInRange(0, 6) for _ in range(k)]
    doc = {"circuit": []}
    if fdp.ConsumeIntInRange(0, 9) > 0:
        doc["qubits"] = fdp.ConsumeIntInRange(0, 8)
    for _ in range(fdp.ConsumeIntInRange(0, 6)):
        g = {"gate": IONQ_NAMES[fdp.ConsumeIntInRange(0, len(IONQ_NAMES) - 1)]}
        g["targets" if fdp.ConsumeBool() else "target"] = qubits()
        if fdp.ConsumeBool():
            g["controls" if fdp.ConsumeBool() else "control"] = qubits()
        k = fdp.ConsumeIntInRange(0, 3)
        if k == 1:
            g["rotation"] = fdp.ConsumeRegularFloat()
        elif k == 2:
            g["rotation"] = fdp.ConsumeIntInRange(-4, 4)
        elif k == 3:
            g["rotation"] = fdp.ConsumeFloat()
        doc["circuit"].append(g)
    return doc


def main():
    which, outdir = sys.argv[1], sys.argv[2]
    argv = [sys.argv[0]] + sys.argv[3:]
    import atheris
    with atheris.instrument_imports(include=["tangelo.linq.translator.translate_projectq", "tangelo.linq.translator.translate_json_ionq"]):
        import tangelo.linq.translator.translate_projectq   # noqa
        import tangelo.linq.translator.translate_json_ionq  # noqa
    os.makedirs(outdir, exist_ok=True)
    stats = {"execs": 0, "ok": 0, "rejected": {}, "failures": 0}
    seen_fail, seen_ok = {}, set()
    fail_fh = open(os.path.join(outdir, "failures.jsonl"), "w")
    ok_fh = open(os.path.join(outdir, "accepted.jsonl"), "w")

    def dump_stats():
        with open(os.path.join(outdir, "stats.json"), "w") as fh:
            json.dump(stats, fh)

    def one(data):
        fdp = atheris.FuzzedDataProvider(data)
        x = build_projectq(fdp) if which == "projectq" else build_ionq(fdp)
        stats["execs"] += 1
        try:
            res, info = fixed_point(which, x)
        except Mismatch as m:
            stats["failures"] += 1
            if seen_fail.get(m.sig, 0) < 3:
                seen_fail[m.sig] = seen_fail.get(m.sig, 0) + 1
                fail_fh.write(json.dumps({"fmt": which, "x": x}) + "\n")
                fail_fh.flush()
            res, info = "fail", None
        if res == "ok":
            stats["ok"] += 1
            key = json.dumps(x, sort_keys=True)
            if info >= 2 and len(seen_ok) < 300 and key not in seen_ok:
                seen_ok.add(key)
                ok_fh.write(json.dumps({"fmt": which, "x": x}) + "\n")
                ok_fh.flush()
        elif res == "rejected":
            stats["rejected"][info] = stats["rejected"].get(info, 0) + 1
        if stats["execs"] % 2000 == 0:
            dump_stats()

    import atexit
    atexit.register(dump_stats)
    atheris.Setup(argv, one)
    atheris.Fuzz()


if __name__ == "__main__":
    main()
