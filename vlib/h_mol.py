"""Reusable molecule cases for the chemistry checks (C04, C14; usable by C08, C13, ...).

A *molecule case* is plain JSON-able data:

    {"family": "H4-3d",                      # label only
     "atoms":  [["H", [x, y, z]], ...],       # angstrom
     "q": 0, "spin": 0,                       # total charge, n_alpha - n_beta
     "basis": "sto-3g",
     "uhf": False,                            # False -> RHF (spin 0) / ROHF (spin > 0), True -> UHF
     "frozen": None | int | [i, ...] | [[alpha i...], [beta i...]]}      # per-spin lists only with uhf=True

API
---
molecules(max_qubits=10, max_kept=6, refs=("rhf","rohf","uhf"), families=None, bases=("sto-3g","3-21g","6-31g"),
          invalid=True)
        Hypothesis strategy returning molecule cases whose active space needs <= max_qubits qubits and whose
        frozen-occupied + active orbitals number <= max_kept per spin (cost bound of the CI oracle, 2**(2*max_kept)).
        With invalid=True about one case in ten is allowed to violate Tangelo's documented frozen-orbital contract
        (no active electrons / all active orbitals full / half-filled orbital frozen in ROHF).
build_molecule(case, solver=None) -> tangelo SecondQuantizedMolecule (optional shared IntegralSolver instance); raises vlib.runner.Skip for the documented rejections
                               (the three above and "Hartree-Fock calculation did not converge").
pyscf_mole(case)            -> pyscf.gto.Mole built directly from the case (independent of Tangelo's converter).
mo_pair(sqmol)              -> (mo_alpha, mo_beta) coefficient arrays (same array twice for RHF/ROHF).
occupations(case, sqmol)    -> (occ_alpha, occ_beta): occupied MO index lists per spin, from PySCF's mo_occ.
partition(case, sqmol)      -> dict with the orbital index lists the CI oracle wants, computed from the case's frozen
                               specification and PySCF's occupations only (not from Tangelo's frozen-orbital code):
                               keep_a, keep_b (frozen occupied + active, sorted), focc_a, focc_b, act_a, act_b
                               (active MOs, occupied first then virtual = Tangelo's register order), na, nb (active
                               electrons per spin), n_sos (expected register size 2*max(len(act_a), len(act_b))).
ci_energy(case, sqmol, mo=None, part=None) -> (energy, sector dimension) from vlib.refchem.ci_oracle.
determinant_energy(case, sqmol)            -> mean-field determinant energy from vlib.refchem.determinant_energy.
frozen_for(case, ...)                      -> strategy: another valid frozen spec for the same molecule (freeze_mos histories).
rotations(...) / rotate_active(...)        -> plain-data active-space rotations (Givens sequences) and their application.
qubit-side helpers: qubit_hamiltonian, sector_indices, columns, sector_spectrum, basis_expectation.
"""
import math

import numpy as np
from hypothesis import strategies as st, assume

# number of basis functions per atom
NAO = {"sto-3g": {"H": 1, "He": 1, "Li": 5, "Be": 5, "O": 5},
       "3-21g": {"H": 2, "He": 2, "Li": 9, "Be": 9, "O": 9},
       "6-31g": {"H": 2, "He": 2, "Li": 9, "Be": 9, "O": 9}}
ZNUC = {"H": 1, "He": 2, "Li": 3, "Be": 4, "O": 8}

# family -> (elements, allowed charges, allowed bases)
FAMILIES = {
    "H2":      (["H", "H"], [0], ["sto-3g", "3-21g", "6-31g"]),
    "HeH":     (["He", "H"], [1, 0], ["sto-3g", "3-21g", "6-31g"]),
    "H3":      (["H", "H", "H"], [1, 0, -1], ["sto-3g", "3-21g", "6-31g"]),
    "H4-chain": (["H"] * 4, [0, 1, -1], ["sto-3g"]),
    "H4-ring": (["H"] * 4, [0, 1, -1], ["sto-3g"]),
    "H4-3d":   (["H"] * 4, [0, 1, -1], ["sto-3g"]),
    "He2":     (["He", "He"], [1, 0], ["sto-3g", "6-31g"]),
    "LiH":     (["Li", "H"], [0, 1], ["sto-3g"]),
    "H2O":     (["O", "H", "H"], [0, 1], ["sto-3g"]),
    "BeH2":    (["Be", "H", "H"], [0, 1], ["sto-3g"]),
}
SYMMETRIC_FAMILIES = ("H2", "H4-chain", "LiH", "H2O")

_r3 = lambda x: round(float(x), 3)
_coord = st.floats(-0.25, 0.25, allow_nan=False).map(_r3)


@st.composite
def _geometry(draw, family, exact_symmetry=False):
    """Template geometry scaled by a random factor, plus random displacements (none when exact_symmetry)."""
    s = draw(st.floats(0.75, 1.6, allow_nan=False))
    if family in ("H2", "HeH", "He2", "LiH"):
        d = {"H2": 0.74, "HeH": 0.9, "He2": 1.1, "LiH": 1.6}[family] * s
        pts = [[0, 0, 0], [0, 0, d]]
    elif family == "H3":
        pts = [[0, 0, 0], [0, 0, 0.95 * s], [0.8 * s, 0, 0.45 * s]]
    elif family == "H4-chain":
        pts = [[0, 0, 0.9 * s * i] for i in range(4)]
    elif family == "H4-ring":
        r = 0.85 * s
        pts = [[r * math.cos(a), r * math.sin(a), 0] for a in (0, math.pi / 2, math.pi, 3 * math.pi / 2)]
    elif family == "H4-3d":
        pts = [[0, 0, 0], [0, 0.1, 0.9 * s], [0.8 * s, 0.2, 0.3], [1.5 * s, 1.0 * s, -0.2]]
    elif family == "H2O":
        r, a = 0.96 * s, math.radians(draw(st.floats(90, 125, allow_nan=False)))
        pts = [[0, 0, 0], [r * math.sin(a / 2), 0, r * math.cos(a / 2)], [-r * math.sin(a / 2), 0, r * math.cos(a / 2)]]
    elif family == "BeH2":
        r = 1.33 * s
        pts = [[0, 0, 0], [0, 0, r], [0, 0, -r]]
    else:
        raise KeyError(family)
    if not exact_symmetry:
        pts = [[p[k] + draw(_coord) for k in range(3)] for p in pts]
    pts = [[_r3(x) for x in p] for p in pts]
    # keep nuclei apart (SCF on fused nuclei is meaningless and does not converge)
    for i in range(len(pts)):
        for j in range(i):
            assume(math.dist(pts[i], pts[j]) >= 0.45)
    return pts


def n_mos_of(elements, basis):
    return sum(NAO[basis][e] for e in elements)


def electron_counts(elements, q, spin):
    ne = sum(ZNUC[e] for e in elements) - q
    return ne, (ne + spin) // 2, (ne - spin) // 2


def contract_ok(n_mos, n_alpha, n_beta, uhf, frozen):
    """Tangelo's documented frozen-orbital contract evaluated on aufbau occupations (strategy-side prediction only)."""
    if frozen is None:
        frozen = 0
    if isinstance(frozen, int):
        frozen = list(range(frozen))
        fa = fb = frozen
    elif uhf:
        fa, fb = frozen
    else:
        fa = fb = frozen
    if not uhf and any(n_beta <= i < n_alpha for i in fa):
        return False            # half-filled orbital frozen (RHF/ROHF)
    na = sum(1 for i in range(n_alpha) if i not in fa)
    nb = sum(1 for i in range(n_beta) if i not in fb)
    ma, mb = n_mos - len(set(fa)), n_mos - len(set(fb))
    if na + nb == 0:
        return False
    if uhf:
        # Tangelo compares the per-spin electron count with 2*orbitals (never true for one spin); mirror the
        # restricted meaning here: nothing can move when both spin blocks are completely filled.
        if na == ma and nb == mb:
            return False
    elif na + nb == 2 * ma:
        return False
    return True


@st.composite
def _frozen_spec(draw, n_mos, n_alpha, n_beta, uhf, max_active, max_kept):
    """Frozen orbital specification. Active MOs per spin <= max_active, frozen occupied + active <= max_kept."""
    def one_list(n_occ):
        order = draw(st.permutations(list(range(n_mos))))
        k = draw(st.integers(0, n_mos - 1))
        fz = set(order[:k])
        # repair towards the size bounds: freeze more orbitals (virtual ones first for the kept bound)
        virt = [i for i in order if i >= n_occ]
        for i in virt:
            if n_mos - len([j for j in fz if j >= n_occ]) <= max_kept:
                break
            fz.add(i)
        for i in order:
            if n_mos - len(fz) <= max_active:
                break
            fz.add(i)
        return sorted(fz)

    kind = draw(st.sampled_from(["none", "int", "list", "list", "perspin", "perspin"] if uhf else ["none", "int", "list", "list"]))
    if kind == "none":
        spec = None
    elif kind == "int":
        spec = draw(st.integers(0, max(0, min(n_alpha, n_mos - 1))))
    elif kind == "list":
        spec = one_list(n_alpha)
        if uhf:
            spec = [spec, list(spec)]
    else:
        spec = [one_list(n_alpha), one_list(n_beta)]
    # size bounds for the int / None forms
    fl = list(range(spec)) if isinstance(spec, int) else ([] if spec is None else None)
    if fl is not None:
        n_act = n_mos - len(fl)
        n_kept = n_mos        # no frozen virtuals
        assume(n_act <= max_active and n_kept <= max_kept)
    return spec


@st.composite
def molecules(draw, max_qubits=10, max_kept=6, refs=("rhf", "rohf", "uhf"), families=None,
              bases=("sto-3g", "3-21g", "6-31g"), invalid=True, exact_symmetry=False):
    fam = draw(st.sampled_from(sorted(families or FAMILIES)))
    elements, charges, fam_bases = FAMILIES[fam]
    basis = draw(st.sampled_from([b for b in fam_bases if b in bases] or ["sto-3g"]))
    q = draw(st.sampled_from(charges))
    n_mos = n_mos_of(elements, basis)
    ne = sum(ZNUC[e] for e in elements) - q
    ref = draw(st.sampled_from(sorted(refs)))
    spins = [s for s in range(ne % 2, min(ne, 4) + 1, 2) if (ne + s) // 2 <= n_mos]
    if ref == "rhf":
        spins = [s for s in spins if s == 0]
    elif ref == "rohf":
        spins = [s for s in spins if s > 0]
    assume(spins)
    spin = draw(st.sampled_from(spins))
    uhf = ref == "uhf"
    _, n_alpha, n_beta = electron_counts(elements, q, spin)
    frozen = draw(_frozen_spec(n_mos, n_alpha, n_beta, uhf, max_qubits // 2, max_kept))
    if not contract_ok(n_mos, n_alpha, n_beta, uhf, frozen):
        assume(invalid and draw(st.integers(0, 9)) == 0)
    pts = draw(_geometry(fam, exact_symmetry=exact_symmetry))
    return {"family": fam, "atoms": [[e, p] for e, p in zip(elements, pts)], "q": q, "spin": spin, "basis": basis,
            "uhf": uhf, "frozen": frozen}


@st.composite
def frozen_for(draw, case, max_qubits=10, max_kept=6):
    """Another frozen-orbital specification that Tangelo's contract accepts for the molecule of `case` (same format as
    case["frozen"]; for freeze_mos histories)."""
    elements = [a for a, _ in case["atoms"]]
    n_mos = n_mos_of(elements, case["basis"])
    _, n_alpha, n_beta = electron_counts(elements, case["q"], case["spin"])
    fr = draw(_frozen_spec(n_mos, n_alpha, n_beta, bool(case["uhf"]), max_qubits // 2, max_kept))
    assume(contract_ok(n_mos, n_alpha, n_beta, bool(case["uhf"]), fr))
    return fr


# ------------------------------------------------------------------------------------------------ builders

REJECTIONS = ("There are no active electrons.", "All active orbitals are fully occupied.",
              "Freezing half-filled orbitals is not implemented yet for RHF/ROHF.",
              "Hartree-Fock calculation did not converge")


def build_molecule(case, solver=None):
    """case -> SecondQuantizedMolecule (runs the SCF). Documented rejections become Skip(reason).
    solver: optional IntegralSolver instance handed to the molecule (default: Tangelo creates a fresh one)."""
    from tangelo import SecondQuantizedMolecule
    from vlib.runner import Skip
    xyz = [(e, tuple(float(x) for x in p)) for e, p in case["atoms"]]
    fr = case["frozen"]
    if isinstance(fr, list):
        fr = [list(x) for x in fr] if (fr and isinstance(fr[0], list)) else list(fr)
    try:
        kw = {} if solver is None else {"solver": solver}
        return SecondQuantizedMolecule(xyz, case["q"], case["spin"], basis=case["basis"], frozen_orbitals=fr,
                                       uhf=bool(case["uhf"]), **kw)
    except (ValueError, NotImplementedError) as e:
        if str(e) in REJECTIONS:
            raise Skip(str(e).rstrip(".")) from None
        raise


def pyscf_mole(case):
    from pyscf import gto
    m = gto.Mole()
    m.atom = [(e, tuple(float(x) for x in p)) for e, p in case["atoms"]]
    m.unit = "Angstrom"
    m.basis, m.charge, m.spin, m.verbose = case["basis"], case["q"], case["spin"], 0
    m.build()
    return m


def mo_pair(sqmol):
    mo = sqmol.mo_coeff
    if sqmol.uhf:
        return np.asarray(mo[0]), np.asarray(mo[1])
    return np.asarray(mo), np.asarray(mo)


def occupations(case, sqmol):
    occ = np.asarray(sqmol.mean_field.mo_occ)
    if case["uhf"]:
        return [i for i in range(occ.shape[1]) if occ[0][i] > 0], [i for i in range(occ.shape[1]) if occ[1][i] > 0]
    return [i for i in range(len(occ)) if occ[i] > 0], [i for i in range(len(occ)) if occ[i] > 1.5]


def partition(case, sqmol):
    occ_a, occ_b = occupations(case, sqmol)
    n_mos = np.asarray(sqmol.mean_field.mo_occ).shape[-1]
    fr = case["frozen"]
    if fr is None:
        fr = 0
    if isinstance(fr, int):
        fa = fb = list(range(fr))
    elif case["uhf"]:
        fa, fb = fr
    else:
        fa = fb = fr
    out = {}
    for s, f, occ in (("a", fa, occ_a), ("b", fb, occ_b)):
        if not case["uhf"]:
            occ_any = occ_a     # restricted: an orbital is "occupied" if it holds any electron
        else:
            occ_any = occ
        focc = [i for i in f if i in occ]
        act = [i for i in occ_any if i not in f] + [i for i in range(n_mos) if i not in occ_any and i not in f]
        out["focc_" + s], out["act_" + s] = sorted(focc), act
        out["keep_" + s] = sorted(focc + act)
        out["n" + s] = len([i for i in occ if i not in f])
    out["n_sos"] = 2 * max(len(out["act_a"]), len(out["act_b"]))
    return out


def ci_energy(case, sqmol, mo=None, part=None):
    from vlib import refchem
    part = part or partition(case, sqmol)
    mo_a, mo_b = mo if mo is not None else mo_pair(sqmol)
    return refchem.ci_oracle(pyscf_mole(case), mo_a, mo_b, part["keep_a"], part["keep_b"], part["focc_a"], part["focc_b"],
                             part["na"], part["nb"])


def determinant_energy(case, sqmol):
    from vlib import refchem
    occ_a, occ_b = occupations(case, sqmol)
    mo_a, mo_b = mo_pair(sqmol)
    return refchem.determinant_energy(pyscf_mole(case), mo_a, mo_b, occ_a, occ_b)


# ------------------------------------------------------------------------------------------------ rotations

@st.composite
def rotations(draw, max_givens=6):
    """Plain-data rotation: list of [i, j, theta]; i, j are taken modulo the number of active orbitals when applied."""
    g = st.tuples(st.integers(0, 7), st.integers(0, 7), st.floats(-3.2, 3.2, allow_nan=False).map(lambda x: round(x, 4)))
    return [list(x) for x in draw(st.lists(g, min_size=1, max_size=max_givens))]


def rotation_matrix(givens, n):
    """Orthogonal n x n matrix = product of plane rotations (i mod n, j mod n, theta); i == j entries are skipped."""
    U = np.eye(n)
    if n == 0:          # e.g. a spin with no active orbital left (UHF per-spin frozen lists): nothing to rotate
        return U
    for i, j, th in givens:
        i, j = i % n, j % n
        if i == j:
            continue
        G = np.eye(n)
        G[i, i] = G[j, j] = math.cos(th)
        G[i, j], G[j, i] = -math.sin(th), math.sin(th)
        U = U @ G
    return U


def rotate_active(mo, active, givens):
    """New coefficient matrix whose active columns are the old active columns times an orthogonal matrix."""
    mo = np.array(mo, dtype=float, copy=True)
    U = rotation_matrix(givens, len(active))
    mo[:, active] = mo[:, active] @ U
    return mo


# ------------------------------------------------------------------------------------------------ qubit side

MAPPINGS = ("JW", "BK", "scBK", "JKMN")


def n_qubits_of(mapping, n_sos):
    return n_sos - 2 if mapping.upper() == "SCBK" else n_sos


def qubit_hamiltonian(sqmol, mapping, up_then_down, fermion_op=None):
    from tangelo.toolboxes.qubit_mappings.mapping_transform import fermion_to_qubit_mapping
    fop = sqmol.fermionic_hamiltonian if fermion_op is None else fermion_op
    return fermion_to_qubit_mapping(fop, mapping, sqmol.n_active_sos, sqmol.n_active_electrons, up_then_down, sqmol.active_spin)


def _masks(term, n):
    x = z = 0
    ny = 0
    for q, p in term:
        bit = 1 << (n - 1 - q)
        if p in "XY":
            x |= bit
        if p in "ZY":
            z |= bit
        if p == "Y":
            ny += 1
    return x, z, ny


_POP = None


def _popcount(a):
    a = np.asarray(a, dtype=np.uint64)
    c = np.zeros(a.shape, dtype=np.int64)
    while np.any(a):
        c += (a & np.uint64(1)).astype(np.int64)
        a = a >> np.uint64(1)
    return c


def columns(terms, n, idx):
    """Columns idx of the 2**n x 2**n matrix of a Pauli sum (qubit 0 = most significant bit).  P|j> for a Pauli word
    with X-mask x, Z-mask z and k Y's is  i**k (-1)**popcount(j & z) |j ^ x>  -- written from the definition."""
    idx = np.asarray(idx, dtype=np.int64)
    out = np.zeros((2 ** n, len(idx)), dtype=complex)
    cols = np.arange(len(idx))
    for t, c in terms.items():
        x, z, ny = _masks(t, n)
        sign = 1 - 2 * (_popcount(idx & z) % 2)
        np.add.at(out, (idx ^ x, cols), c * (1j ** ny) * sign)
    return out


def diagonal(terms, n):
    """Diagonal of a Pauli sum made of Z-only words; raises ValueError if a word contains X or Y."""
    d = np.zeros(2 ** n, dtype=complex)
    j = np.arange(2 ** n, dtype=np.int64)
    for t, c in terms.items():
        x, z, _ = _masks(t, n)
        if x:
            raise ValueError("not diagonal")
        d += c * (1 - 2 * (_popcount(j & z) % 2))
    return d


def sector_indices(mapping, n_sos, n_electrons, spin, up_then_down, target_n, target_sz):
    """Computational-basis indices of the (N, Sz) sector under an encoding, from the encoded number and spin-z
    operators (Tangelo's number_operator / spinz_operator through the same mapping; both are Z-only Pauli sums for
    JW, BK, scBK and JKMN)."""
    from tangelo.toolboxes.qubit_mappings.mapping_transform import fermion_to_qubit_mapping
    from tangelo.toolboxes.ansatz_generator.fermionic_operators import number_operator, spinz_operator
    nq = n_qubits_of(mapping, n_sos)
    N = fermion_to_qubit_mapping(number_operator(n_sos // 2), mapping, n_sos, n_electrons, up_then_down, spin)
    Sz = fermion_to_qubit_mapping(spinz_operator(n_sos // 2), mapping, n_sos, n_electrons, up_then_down, spin)
    dn, ds = diagonal(N.terms, nq), diagonal(Sz.terms, nq)
    return [int(i) for i in np.nonzero((np.abs(dn - target_n) < 1e-9) & (np.abs(ds - target_sz) < 1e-9))[0]]


def sector_spectrum(terms, nq, idx):
    """(eigenvalues, eigenvectors, leak) of the Pauli sum restricted to the basis states idx; leak = largest matrix
    element connecting the sector with its complement (0 when the operator conserves the sector)."""
    cols = columns(terms, nq, idx)
    block = cols[idx, :]
    mask = np.ones(2 ** nq, dtype=bool)
    mask[idx] = False
    leak = float(np.max(np.abs(cols[mask, :]))) if mask.any() else 0.0
    herm = float(np.max(np.abs(block - block.conj().T))) if len(idx) else 0.0
    w, v = np.linalg.eigh((block + block.conj().T) / 2)
    return w, v, max(leak, herm)


def basis_expectation(terms, n, index):
    """<index| O |index> for a Pauli sum: only Z-only words contribute."""
    tot = 0j
    for t, c in terms.items():
        x, z, _ = _masks(t, n)
        if not x:
            tot += c * (1 - 2 * (bin(index & z).count("1") % 2))
    return tot


def selftest():
    from vlib import refsim
    rng_terms = {((0, "X"), (2, "Y")): 0.3 - 0.2j, ((1, "Z"),): 1.1, (): -0.4, ((0, "Y"), (1, "Y"), (2, "Z")): 0.7}
    M = refsim.qop_matrix(rng_terms, 3)
    assert np.allclose(columns(rng_terms, 3, list(range(8))), M)
    assert abs(basis_expectation(rng_terms, 3, 5) - M[5, 5]) < 1e-12
    U = rotation_matrix([[0, 1, 0.3], [2, 0, -1.1], [5, 5, 1.0]], 3)
    assert np.allclose(U @ U.T, np.eye(3))
