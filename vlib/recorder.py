"""Evidence recorder: counts cases, labels, distinct non-trivial fingerprints, keeps samples."""
import hashlib, json


def canon(obj):
    return json.dumps(obj, sort_keys=True, separators=(",", ":"), default=_default)


def _default(o):
    import numpy as np
    if isinstance(o, (np.integer,)):
        return int(o)
    if isinstance(o, (np.floating,)):
        return float(o)
    if isinstance(o, complex):
        return {"re": o.real, "im": o.imag}
    if isinstance(o, np.ndarray):
        return o.tolist()
    if isinstance(o, (set, frozenset)):
        return sorted(o)
    if isinstance(o, bytes):
        return o.hex()
    return repr(o)


def fingerprint(obj):
    return hashlib.sha1(canon(obj).encode()).hexdigest()[:14]


class Recorder:
    MAX_SAMPLES = 6

    def __init__(self):
        self.evaluations = 0
        self.nontrivial_fps = set()
        self.labels = {}
        self.samples = []
        self.counters = {}
        self._sample_stride = 1

    def case(self, case, nontrivial, labels=()):
        """Record one executed case. `case` is plain JSON-able data."""
        self.evaluations += 1
        if nontrivial:
            self.nontrivial_fps.add(fingerprint(case))
        for l in labels:
            self.labels[l] = self.labels.get(l, 0) + 1
        # keep the first few non-trivial cases and then sparse later ones
        if nontrivial and (len(self.samples) < 3 or (self.evaluations % self._sample_stride == 0 and len(self.samples) < self.MAX_SAMPLES)):
            self.samples.append(json.loads(canon(case)))
            self._sample_stride = max(self._sample_stride, 2 * self.evaluations)

    def count(self, key, n=1):
        self.counters[key] = self.counters.get(key, 0) + n

    def label(self, key, n=1):
        self.labels[key] = self.labels.get(key, 0) + n

    def dump(self):
        return {"evaluations": self.evaluations, "fps": sorted(self.nontrivial_fps), "labels": self.labels,
                "samples": self.samples, "counters": self.counters}


def merge(frags):
    out = {"evaluations": 0, "fps": set(), "labels": {}, "samples": [], "counters": {}}
    for f in frags:
        out["evaluations"] += f["evaluations"]
        out["fps"].update(f["fps"])
        for k in ("labels", "counters"):
            for a, b in f[k].items():
                out[k][a] = out[k].get(a, 0) + b
        out["samples"].extend(f["samples"])
    return out
