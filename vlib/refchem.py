"""Independent chemistry oracle: determinant-space Hamiltonian built from PySCF AO integrals and MO coefficients.

Trusted: PySCF AO integrals (int1e_kin, int1e_nuc, int2e), energy_nuc, and numpy/scipy. Not used: Tangelo's
integral transformation, frozen-orbital logic, openfermion's MolecularData / transforms.
"""
import numpy as np
import scipy.sparse as sp

from . import refops as O


def spinorb_integrals(pymol, mo_a, mo_b, keep_a, keep_b):
    """One- and two-electron integrals over the kept MOs of each spin (chemist notation (pq|rs))."""
    hcore = pymol.intor("int1e_kin") + pymol.intor("int1e_nuc")
    if getattr(pymol, "_ecp", None):
        hcore = hcore + pymol.intor("ECPscalar")
    eri = pymol.intor("int2e")
    C = {"a": mo_a[:, keep_a], "b": mo_b[:, keep_b]}
    h = {s: C[s].T @ hcore @ C[s] for s in "ab"}
    g = {}
    for s1 in "ab":
        for s2 in "ab":
            g[s1 + s2] = np.einsum("pqrs,pi,qj,rk,sl->ijkl", eri, C[s1], C[s1], C[s2], C[s2], optimize=True)
    return h, g


def build_hamiltonian(pymol, mo_a, mo_b, keep_a, keep_b):
    """Sparse second-quantised Hamiltonian (without nuclear repulsion) on modes [alpha kept..., beta kept...]."""
    h, g = spinorb_integrals(pymol, mo_a, mo_b, keep_a, keep_b)
    orbs = [("a", i) for i in range(len(keep_a))] + [("b", i) for i in range(len(keep_b))]
    m = len(orbs)
    A = [O.ladder(p, 0, m) for p in range(m)]
    E = [[A[P].conj().T @ A[Q] for Q in range(m)] for P in range(m)]
    H = sp.csr_matrix((2 ** m, 2 ** m), dtype=complex)
    for P, (sP, iP) in enumerate(orbs):
        for Q, (sQ, iQ) in enumerate(orbs):
            if sP == sQ and abs(h[sP][iP, iQ]) > 1e-14:
                H = H + h[sP][iP, iQ] * E[P][Q]
    for P, (sP, iP) in enumerate(orbs):
        for Q, (sQ, iQ) in enumerate(orbs):
            if sP != sQ:
                continue
            for Rr, (sR, iR) in enumerate(orbs):
                for Ss, (sS, iS) in enumerate(orbs):
                    if sR != sS:
                        continue
                    v = g[sP + sR][iP, iQ, iR, iS]
                    if abs(v) < 1e-14:
                        continue
                    T = E[P][Q] @ E[Rr][Ss]
                    if Q == Rr:
                        T = T - E[P][Ss]
                    H = H + 0.5 * v * T
    return H, m


def sector(m, n_keep_a, frozen_pos, n_a_total, n_b_total):
    idx = []
    for x in range(2 ** m):
        b = O.bits_of(x, m)
        if all(b[q] for q in frozen_pos) and sum(b[:n_keep_a]) == n_a_total and sum(b[n_keep_a:]) == n_b_total:
            idx.append(x)
    return idx


def ci_oracle(pymol, mo_a, mo_b, keep_a, keep_b, focc_a, focc_b, na_act, nb_act, return_vec=False):
    """Lowest energy (incl. nuclear repulsion) with frozen-occupied MOs always filled, the other kept MOs active,
    na_act / nb_act active electrons.  keep_* = frozen occupied + active MO indices, focc_* subset of keep_*."""
    keep_a, keep_b = list(keep_a), list(keep_b)
    H, m = build_hamiltonian(pymol, mo_a, mo_b, keep_a, keep_b)
    pos_a = {k: i for i, k in enumerate(keep_a)}
    pos_b = {k: len(keep_a) + i for i, k in enumerate(keep_b)}
    fo = [pos_a[k] for k in focc_a] + [pos_b[k] for k in focc_b]
    idx = sector(m, len(keep_a), fo, na_act + len(focc_a), nb_act + len(focc_b))
    Hs = H[idx, :][:, idx].toarray()
    w, v = np.linalg.eigh((Hs + Hs.conj().T) / 2)
    e = float(w[0]) + pymol.energy_nuc()
    return (e, len(idx), (idx, v[:, 0], m)) if return_vec else (e, len(idx))


def sector_spectrum(pymol, mo_a, mo_b, keep_a, keep_b, focc_a, focc_b, na_act, nb_act):
    """All eigenvalues (incl. nuclear repulsion) of the sector that ci_oracle minimises over."""
    keep_a, keep_b = list(keep_a), list(keep_b)
    H, m = build_hamiltonian(pymol, mo_a, mo_b, keep_a, keep_b)
    pos_a = {k: i for i, k in enumerate(keep_a)}
    pos_b = {k: len(keep_a) + i for i, k in enumerate(keep_b)}
    fo = [pos_a[k] for k in focc_a] + [pos_b[k] for k in focc_b]
    idx = sector(m, len(keep_a), fo, na_act + len(focc_a), nb_act + len(focc_b))
    Hs = H[idx, :][:, idx].toarray()
    return np.linalg.eigvalsh((Hs + Hs.conj().T) / 2) + pymol.energy_nuc()


def determinant_energy(pymol, mo_a, mo_b, occ_a, occ_b):
    """Energy of the single determinant with the listed occupied MOs (incl. nuclear repulsion)."""
    keep_a, keep_b = list(occ_a), list(occ_b)
    h, g = spinorb_integrals(pymol, mo_a, mo_b, keep_a, keep_b)
    e = np.trace(h["a"]) + np.trace(h["b"])
    J = 0.0
    for s1 in "ab":
        for s2 in "ab":
            J += 0.5 * np.einsum("iijj->", g[s1 + s2])
        J -= 0.5 * np.einsum("ijji->", g[s1 + s1])
    return float(e + J) + pymol.energy_nuc()


def selftest():
    from pyscf import gto, scf, fci
    mol = gto.M(atom="H 0 0 0; H 0 0 0.74", basis="sto-3g", verbose=0)
    mf = scf.RHF(mol).run()
    e_fci = fci.FCI(mf).kernel()[0]
    e, dim = ci_oracle(mol, mf.mo_coeff, mf.mo_coeff, [0, 1], [0, 1], [], [], 1, 1)
    assert abs(e - e_fci) < 1e-9, (e, e_fci)
    assert abs(determinant_energy(mol, mf.mo_coeff, mf.mo_coeff, [0], [0]) - mf.e_tot) < 1e-9
