"""Reference operator algebra, written from the definitions (no call to any Tangelo/openfermion transform).

Fock space on m spin-orbitals (modes).  Basis index x: mode 0 is the MOST significant bit (bit string lists mode 0
first) -- the same convention as vlib/refsim.py, so the Jordan-Wigner image of mode p lives on qubit p.
    a_p |x> = (-1)^{sum_{q<p} x_q} x_p |x with bit p cleared>
Interleaved spin convention (openfermion / Tangelo default ordering): mode 2i = spatial orbital i alpha, 2i+1 = beta.
"""
import itertools
import numpy as np
import scipy.sparse as sp

from . import refsim as R


def bits_of(x, m):
    return [(x >> (m - 1 - q)) & 1 for q in range(m)]


def index_of(bits):
    x = 0
    for b in bits:
        x = (x << 1) | int(b)
    return x


_lad_cache = {}


def ladder(p, dag, m):
    """Sparse matrix of a_p (dag=0) or a_p^dagger (dag=1) on m modes."""
    key = (p, int(dag), m)
    if key in _lad_cache:
        return _lad_cache[key]
    rows, cols, vals = [], [], []
    for x in range(2 ** m):
        occ = (x >> (m - 1 - p)) & 1
        if occ == (0 if dag else 1):
            sign = (-1) ** bin(x >> (m - p)).count("1")     # number of occupied modes q < p
            rows.append(x ^ (1 << (m - 1 - p)))
            cols.append(x)
            vals.append(sign)
    M = sp.csr_matrix((vals, (rows, cols)), shape=(2 ** m, 2 ** m), dtype=complex)
    _lad_cache[key] = M
    return M


def fermion_matrix(terms, m, dense=True):
    """terms: {((p, dag), ...): coeff} (openfermion FermionOperator.terms layout)."""
    D = 2 ** m
    M = sp.csr_matrix((D, D), dtype=complex)
    for term, c in terms.items():
        T = sp.identity(D, dtype=complex, format="csr")
        for p, d in term:
            T = T @ ladder(p, d, m)
        M = M + c * T
    return M.toarray() if dense else M


def number_op(m):
    return sum(ladder(p, 1, m) @ ladder(p, 0, m) for p in range(m))


def sz_op(m, up_then_down=False):
    tot = sp.csr_matrix((2 ** m, 2 ** m), dtype=complex)
    for p in range(m):
        alpha = (p < m // 2) if up_then_down else (p % 2 == 0)
        tot = tot + (0.5 if alpha else -0.5) * (ladder(p, 1, m) @ ladder(p, 0, m))
    return tot


def spin_ladders(m, up_then_down=False):
    """S_+ = sum_i a^dag_{i alpha} a_{i beta};  S_- = (S_+)^dag."""
    n = m // 2
    sp_ = sp.csr_matrix((2 ** m, 2 ** m), dtype=complex)
    for i in range(n):
        a, b = (i, i + n) if up_then_down else (2 * i, 2 * i + 1)
        sp_ = sp_ + ladder(a, 1, m) @ ladder(b, 0, m)
    return sp_, sp_.conj().T.tocsr()


def s2_op(m, up_then_down=False):
    sz = sz_op(m, up_then_down)
    s_plus, s_minus = spin_ladders(m, up_then_down)
    return s_minus @ s_plus + sz @ sz + sz


def sector_indices(m, n_alpha=None, n_beta=None, up_then_down=False, n_total=None):
    out = []
    for x in range(2 ** m):
        b = bits_of(x, m)
        if up_then_down:
            na, nb = sum(b[: m // 2]), sum(b[m // 2:])
        else:
            na, nb = sum(b[0::2]), sum(b[1::2])
        if n_total is not None and na + nb != n_total:
            continue
        if n_alpha is not None and na != n_alpha:
            continue
        if n_beta is not None and nb != n_beta:
            continue
        out.append(x)
    return out


def up_then_down_perm(m):
    """new index of interleaved mode p when spin-up orbitals come first: even p -> p//2, odd p -> m//2 + p//2."""
    return [p // 2 if p % 2 == 0 else m // 2 + p // 2 for p in range(m)]


def relabel_terms(terms, perm):
    return {tuple((perm[p], d) for p, d in term): c for term, c in terms.items()}


# ------------------------------------------------------------------------------------------------ Pauli algebra

_PM = {("I", "I"): (1, "I"), ("I", "X"): (1, "X"), ("I", "Y"): (1, "Y"), ("I", "Z"): (1, "Z"),
       ("X", "I"): (1, "X"), ("Y", "I"): (1, "Y"), ("Z", "I"): (1, "Z"),
       ("X", "X"): (1, "I"), ("Y", "Y"): (1, "I"), ("Z", "Z"): (1, "I"),
       ("X", "Y"): (1j, "Z"), ("Y", "X"): (-1j, "Z"), ("Y", "Z"): (1j, "X"), ("Z", "Y"): (-1j, "X"),
       ("Z", "X"): (1j, "Y"), ("X", "Z"): (-1j, "Y")}


def pauli_mul(t1, t2):
    """Multiply two Pauli words given as tuples ((q,'X'),...). Returns (phase, word) with word sorted by qubit."""
    d1, d2 = dict(t1), dict(t2)
    ph = 1
    out = []
    for q in sorted(set(d1) | set(d2)):
        f, p = _PM[(d1.get(q, "I"), d2.get(q, "I"))]
        ph *= f
        if p != "I":
            out.append((q, p))
    return ph, tuple(out)


def qop_mul(a, b):
    out = {}
    for t1, c1 in a.items():
        for t2, c2 in b.items():
            ph, w = pauli_mul(t1, t2)
            out[w] = out.get(w, 0) + ph * c1 * c2
    return out


def qop_add(a, b, sb=1):
    out = dict(a)
    for t, c in b.items():
        out[t] = out.get(t, 0) + sb * c
    return out


def words_commute(t1, t2):
    d1, d2 = dict(t1), dict(t2)
    anti = sum(1 for q in d1 if q in d2 and d1[q] != d2[q])
    return anti % 2 == 0


def selftest():
    m = 3
    for p, q in itertools.product(range(m), repeat=2):
        a_p, ad_q = ladder(p, 0, m), ladder(q, 1, m)
        anti = (a_p @ ad_q + ad_q @ a_p).toarray()
        assert np.allclose(anti, np.eye(2 ** m) * (1 if p == q else 0))
        aa = (ladder(p, 0, m) @ ladder(q, 0, m) + ladder(q, 0, m) @ ladder(p, 0, m)).toarray()
        assert np.allclose(aa, 0)
    assert np.allclose(number_op(3).toarray().diagonal().real, [bin(x).count("1") for x in range(8)])
    # S^2 on two electrons in two orbitals: triplet |alpha alpha> has S(S+1)=2
    m = 4
    x = index_of([1, 0, 1, 0])
    v = np.zeros(16); v[x] = 1
    assert abs(v @ s2_op(m).toarray() @ v - 2) < 1e-12
    ph, w = pauli_mul(((0, "X"),), ((0, "Y"),))
    assert ph == 1j and w == ((0, "Z"),)
    assert np.allclose(R.pauli_matrix(((0, "X"),), 1) @ R.pauli_matrix(((0, "Y"),), 1), 1j * R.pauli_matrix(((0, "Z"),), 1))
