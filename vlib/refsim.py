"""Reference gate table and simulators, written from the gate definitions (not from Tangelo code).

Index convention: basis index i of an n-qubit vector has qubit 0 as its MOST significant bit, i.e. the binary
string of i lists qubit 0 first.  This is what Tangelo calls "lsq_first" bitstrings / statevector order.

Gate records ("grec") are plain dicts: {"n": name, "t": [targets], "c": [controls] or None, "p": parameter or None}.
Tangelo Gate objects are accepted too (attributes name/target/control/parameter).
"""
import numpy as np
from math import pi

I2 = np.eye(2, dtype=complex)
X = np.array([[0, 1], [1, 0]], dtype=complex)
Y = np.array([[0, -1j], [1j, 0]], dtype=complex)
Z = np.diag([1.0, -1.0]).astype(complex)
H = (X + Z) / np.sqrt(2)
SWAP = np.array([[1, 0, 0, 0], [0, 0, 1, 0], [0, 1, 0, 0], [0, 0, 0, 1]], dtype=complex)
PAULI = {"I": I2, "X": X, "Y": Y, "Z": Z}


def rot(P, t):
    return np.cos(t / 2) * np.eye(P.shape[0]) - 1j * np.sin(t / 2) * P


def base_matrix(name, par=None):
    if name == "H": return H
    if name == "X": return X
    if name == "Y": return Y
    if name == "Z": return Z
    if name == "S": return np.diag([1, 1j]).astype(complex)
    if name == "T": return np.diag([1, np.exp(1j * pi / 4)]).astype(complex)
    if name == "RX": return rot(X, par)
    if name == "RY": return rot(Y, par)
    if name == "RZ": return rot(Z, par)
    if name == "PHASE": return np.diag([1, np.exp(1j * par)]).astype(complex)
    if name == "XX": return rot(np.kron(X, X), par)
    if name == "SWAP": return SWAP
    raise KeyError(name)


def fields(g):
    if isinstance(g, dict) and "n" in g:      # (Tangelo's Gate subclasses dict but keeps its data in attributes)
        return g["n"], list(g["t"]), (list(g["c"]) if g.get("c") else []), g.get("p")
    ctrl = g.control
    return g.name, list(g.target), (list(ctrl) if ctrl else []), g.parameter


def split_name(name, has_ctrl):
    """Return the base (uncontrolled) gate name. CNOT == CX. A leading C denotes control iff controls are given."""
    if name == "CNOT":
        name = "CX"
    if has_ctrl:
        assert name[0] == "C", name
        return name[1:]
    return name


def apply_matrix(state, m, targets, controls, n):
    """Apply k-qubit matrix m on `targets` (first target = most significant bit of m's index) iff all controls are 1.
    state: array of shape (2**n,) or (2**n, cols)."""
    k = len(targets)
    shp = state.shape
    extra = 1 if state.ndim == 1 else shp[1]
    psi = state.reshape([2] * n + [extra]).copy()
    idx = [slice(None)] * (n + 1)
    for c in controls:
        idx[c] = 1
    sub = psi[tuple(idx)]
    # axes of sub: the non-control qubits in increasing order, then extra
    rem = [q for q in range(n) if q not in controls]
    pos = [rem.index(t) for t in targets]
    mt = m.reshape([2] * (2 * k))
    sub2 = np.tensordot(mt, sub, axes=(list(range(k, 2 * k)), pos))
    # result axes: k output axes first, then the remaining axes of sub in order (without pos)
    rest = [i for i in range(sub.ndim) if i not in pos]
    order = [None] * sub.ndim
    for j, p in enumerate(pos):
        order[p] = j
    for j, r in enumerate(rest):
        order[r] = k + j
    sub2 = np.transpose(sub2, order)
    psi[tuple(idx)] = sub2
    return psi.reshape(shp)


def apply_gate(state, g, n):
    name, tg, ctrl, par = fields(g)
    b = split_name(name, bool(ctrl))
    return apply_matrix(state, base_matrix(b, par), tg, ctrl, n)


def zero_state(n):
    v = np.zeros(2 ** n, dtype=complex)
    v[0] = 1
    return v


def run(gates, n, init=None):
    psi = zero_state(n) if init is None else np.asarray(init, dtype=complex).copy()
    for g in gates:
        psi = apply_gate(psi, g, n)
    return psi


def unitary(gates, n):
    U = np.eye(2 ** n, dtype=complex)
    for g in gates:
        U = apply_gate(U, g, n)
    return U


def gate_unitary(g, n):
    return apply_gate(np.eye(2 ** n, dtype=complex), g, n)


def probs(psi):
    return np.abs(psi) ** 2


def bitstr(i, n):
    return format(i, f"0{n}b") if n > 0 else ""


def reverse_order(vec):
    """Convert a vector between 'qubit 0 most significant' and 'qubit 0 least significant' indexing."""
    n = int(round(np.log2(len(vec))))
    return np.asarray(vec).reshape([2] * n).transpose(list(range(n))[::-1]).reshape(-1)


def pauli_matrix(term, n):
    """term: iterable of (qubit, 'X'|'Y'|'Z')."""
    ops = [I2] * n
    for q, p in term:
        ops[q] = PAULI[p]
    M = np.array([[1.0 + 0j]])
    for o in ops:
        M = np.kron(M, o)
    return M


def qop_matrix(terms, n):
    """terms: dict {term tuple: coeff} (openfermion QubitOperator.terms layout)."""
    M = np.zeros((2 ** n, 2 ** n), dtype=complex)
    for t, c in terms.items():
        M += c * pauli_matrix(t, n)
    return M


def apply_pauli_term(psi, term, n):
    out = psi
    for q, p in term:
        out = apply_matrix(out, PAULI[p], [q], [], n)
    return out


def qop_expectation(terms, psi, n):
    tot = 0j
    for t, c in terms.items():
        tot += c * np.vdot(psi, apply_pauli_term(psi, t, n))
    return tot


def equal_up_to_phase(A, B, tol=1e-8):
    A = np.asarray(A); B = np.asarray(B)
    if A.shape != B.shape:
        return False, np.inf
    k = np.argmax(np.abs(B))
    if abs(B.flat[k]) < 1e-12:
        d = float(np.max(np.abs(A)))
        return d <= tol, d
    if abs(A.flat[k]) < 1e-12:
        return False, float(abs(B.flat[k]))
    ph = (A.flat[k] / B.flat[k])
    ph = ph / abs(ph)
    d = float(np.max(np.abs(A - ph * B)))
    return d <= tol, d


def phase_distance(A, B):
    """min over a global phase ph of the spectral norm ||A - ph*B|| (ph candidates: trace overlap, largest entry)."""
    cands = [1.0 + 0j]
    tr = np.trace(B.conj().T @ A)
    if abs(tr) > 1e-12:
        cands.append(tr / abs(tr))
    k = np.argmax(np.abs(B))
    if abs(A.flat[k]) > 1e-12 and abs(B.flat[k]) > 1e-12:
        ph = A.flat[k] / B.flat[k]
        cands.append(ph / abs(ph))
    return float(min(np.linalg.norm(A - ph * B, 2) for ph in cands))


# ----------------------------------------------------------------------------------------------- density matrices

def apply_gate_density(rho, g, n):
    U = gate_unitary(g, n)
    return U @ rho @ U.conj().T


def pauli_channel(rho, q, px, py, pz, n):
    out = (1 - px - py - pz) * rho
    for p, P in ((px, "X"), (py, "Y"), (pz, "Z")):
        if p:
            M = pauli_matrix([(q, P)], n)
            out = out + p * (M @ rho @ M.conj().T)
    return out


def depolarize_joint(rho, qubits, p, n):
    """rho -> (1-p) rho + p * (I/2^k (x) tr_k rho) on the k listed qubits jointly."""
    k = len(qubits)
    t = rho.reshape([2] * (2 * n))
    # partial trace over qubits, then tensor identity back
    keep = [q for q in range(n) if q not in qubits]
    r = t
    # trace out: use einsum via moving axes
    perm = keep + list(qubits)
    r = np.transpose(t, perm + [n + a for a in perm]).reshape(2 ** len(keep), 2 ** k, 2 ** len(keep), 2 ** k)
    red = np.einsum("aibi->ab", r)
    full = np.einsum("ab,ij->aibj", red, np.eye(2 ** k) / 2 ** k).reshape([2] * (2 * n))
    inv = np.argsort(perm)
    full = np.transpose(full, list(inv) + [n + a for a in inv]).reshape(2 ** n, 2 ** n)
    return (1 - p) * rho + p * full


# ----------------------------------------------------------------------------------------------- self test

def selftest():
    for th in (0.3, -2.1, 7.7):
        from scipy.linalg import expm
        assert np.allclose(base_matrix("RX", th), expm(-1j * th * X / 2))
        assert np.allclose(base_matrix("RY", th), expm(-1j * th * Y / 2))
        assert np.allclose(base_matrix("RZ", th), expm(-1j * th * Z / 2))
        assert np.allclose(base_matrix("XX", th), expm(-1j * th * np.kron(X, X) / 2))
    # CNOT control 0 target 1 on 2 qubits (qubit 0 most significant)
    U = gate_unitary({"n": "CNOT", "t": [1], "c": [0]}, 2)
    assert np.allclose(U, np.array([[1, 0, 0, 0], [0, 1, 0, 0], [0, 0, 0, 1], [0, 0, 1, 0]]))
    U = gate_unitary({"n": "CNOT", "t": [0], "c": [1]}, 2)
    assert np.allclose(U, np.array([[1, 0, 0, 0], [0, 0, 0, 1], [0, 0, 1, 0], [0, 1, 0, 0]]))
    # X on qubit 0 of 2 -> |10> = index 2
    assert abs(run([{"n": "X", "t": [0]}], 2)[2] - 1) < 1e-15
    # unitarity and matrix/kron agreement on a 3-qubit multi-target gate
    g = {"n": "CSWAP", "t": [2, 0], "c": [1]}
    U = gate_unitary(g, 3)
    assert np.allclose(U @ U.conj().T, np.eye(8))
    v = run([{"n": "X", "t": [1]}, {"n": "X", "t": [0]}, g], 3)   # |110> -> swap q2,q0 -> |011> = 3
    assert abs(v[3] - 1) < 1e-15
    # XX acting on (t0,t1) vs kron
    g = {"n": "XX", "t": [0, 1], "p": 0.7}
    assert np.allclose(gate_unitary(g, 2), base_matrix("XX", 0.7))
    # depolarize fully = maximally mixed on that qubit
    rho = np.zeros((4, 4), complex); rho[0, 0] = 1
    r2 = depolarize_joint(rho, [1], 1.0, 2)
    assert np.allclose(np.diag(r2), [0.5, 0.5, 0, 0])
    assert np.allclose(pauli_matrix([(0, "Z")], 2), np.kron(Z, I2))
