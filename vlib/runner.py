"""Runner for the property checks.

    ./check C07 [--tier quick|thorough] [--replay file] [--shards N] [--only part[,part]]

Exit codes: 0 = property held on everything explored (KNOWN-FINDING lines may be printed),
1 = violation (line "VIOLATION property=<id> replay=<path>"), 2 = harness error.

A check module `checks/cNN.py` defines PROPERTY, RULE, ASSUMPTIONS (list), optional selftest(),
and parts declared with the @part decorator.  A part is `fn(ctx)`; it drives generated search via
`ctx.search(name, strategy, body)` (Hypothesis) or `ctx.sweep(name, iterable, body)` (enumeration).
`body(case)` receives plain JSON-able data, builds the Tangelo objects itself, and
  * returns (nontrivial: bool, labels: iterable[str])  -- the runner records the case;
  * raises Fail(msg, sig=..., **details)              -- the property is violated on this case;
  * raises Skip(reason)                               -- input refused by a documented contract.
Any other exception whose innermost frame is inside /repo/tangelo counts as a failure of the
property (the property promises a value for every generated input); anything else is a harness error.
"""
import argparse, hashlib, importlib, json, os, subprocess, sys, time, traceback

from . import recorder as R

ROOT = os.path.dirname(os.path.dirname(os.path.abspath(__file__)))
# VERIF_REPO: private override used only for sensitivity experiments (mutated scratch copies of the repository);
# the registered commands never set it, so they always test /repo's working tree.
REPO = os.path.realpath(os.environ.get("VERIF_REPO") or "/repo")
ALT = bool(os.environ.get("VERIF_REPO")) or bool(os.environ.get("VERIF_DEVRUN"))
LEVEL = "exploration"


class Fail(Exception):
    def __init__(self, msg, sig=None, **details):
        super().__init__(msg)
        self.msg, self.sig, self.details = msg, sig, details


class Skip(Exception):
    pass


class HarnessError(Exception):
    pass


class CaseTimeGuard(BaseException):
    """Raised by the per-case wall-clock guard (BaseException so that no `except Exception` swallows it)."""


class Part:
    def __init__(self, name, fn, quick, thorough, shard=True):
        self.name, self.fn, self.quick, self.thorough, self.shard = name, fn, quick, thorough, shard


def part(name, quick, thorough=None, shard=True):
    """Declare a part. quick/thorough = total example budget of the tier (0 = part not run in that tier)."""
    def deco(fn):
        p = Part(name, fn, quick, thorough if thorough is not None else quick * 20, shard)
        mod = sys.modules[fn.__module__]
        if not hasattr(mod, "PARTS"):
            mod.PARTS = []
        mod.PARTS.append(p)
        return fn
    return deco


def derive_seed(*xs):
    h = hashlib.sha1(":".join(str(x) for x in xs).encode()).digest()
    return int.from_bytes(h[:4], "big")


def load_findings(prop):
    path = os.path.join(ROOT, "known_findings.json")
    if not os.path.exists(path):
        return {}
    data = json.load(open(path))
    return {e["signature"]: e for e in data.get("open", []) if e["property"] == prop}


def _inside_tangelo(exc):
    tb = traceback.extract_tb(exc.__traceback__)
    frames = [f for f in tb]
    # innermost frame that belongs to either tangelo or the harness decides
    for f in reversed(frames):
        if not os.path.isabs(f.filename):      # e.g. Cython frames "numpy/random/mtrand.pyx": not ours, not tangelo's
            continue
        fn = os.path.realpath(f.filename)
        if fn.startswith(REPO + os.sep):
            return True, f"{type(exc).__name__}@{os.path.relpath(fn, REPO)}:{f.name}"
        if fn.startswith(ROOT + os.sep):
            return False, None
    return False, None


class Ctx:
    def __init__(self, prop, part, tier, base_seed, shard, nshards, n_total, findings, replay=None, budget_s=None):
        self.prop, self.part, self.tier = prop, part, tier
        self.base_seed, self.shard, self.nshards = base_seed, shard, nshards
        self.n_total = n_total
        self.findings = findings
        self.rec = R.Recorder()
        self.violations, self.known_hits, self.errors = [], {}, []
        self.replay = replay   # dict(search=..., case=...) in replay mode
        self.t0 = time.time()
        self.budget_s = budget_s
        self.inconclusive = False

    # ------------------------------------------------------------------ helpers
    def share(self, frac=1.0):
        """Number of examples for this shard for a search that takes `frac` of the part's budget."""
        n = int(self.n_total * frac)
        per = -(-n // self.nshards)
        return max(per, 1) if n > 0 else 0

    def seed_for(self, name):
        return derive_seed(self.base_seed, self.prop, self.part, name, self.shard)

    def np_seed(self, case):
        import numpy as np
        s = derive_seed(self.base_seed, R.fingerprint(case)) % (2**32 - 1)
        np.random.seed(s)
        return s

    def out_of_time(self):
        if self.budget_s is not None and time.time() - self.t0 > self.budget_s:
            self.inconclusive = True
            return True
        return False

    # ------------------------------------------------------------------ core evaluation of one case
    def _eval(self, name, body, case):
        """Returns None if passed/skipped, or Fail."""
        import signal
        guard = int(os.environ.get("VERIF_CASE_GUARD_S", "900" if self.tier == "quick" else "2400"))

        def _on_alarm(signum, frame):
            raise CaseTimeGuard()
        prev = signal.signal(signal.SIGALRM, _on_alarm)
        prev_timer = signal.setitimer(signal.ITIMER_REAL, guard)
        try:
            return self._eval_inner(name, body, case)
        except CaseTimeGuard:
            # a single case ran longer than the (very generous) guard: inconclusive, never a violation; checks whose
            # property includes termination (C10) install their own tighter watchdog and raise Fail themselves
            self.rec.count(f"{name}:case_time_guard_hit")
            self.inconclusive = True
            return None
        finally:
            signal.setitimer(signal.ITIMER_REAL, 0)
            signal.signal(signal.SIGALRM, prev)

    def _eval_inner(self, name, body, case):
        try:
            out = body(case)
        except Fail as f:
            return f
        except Skip as s:
            self.rec.count(f"{name}:rejected_by_contract:{s}")
            return None
        except (KeyboardInterrupt, SystemExit, HarnessError, CaseTimeGuard):
            raise
        except Exception as e:  # noqa
            import hypothesis.errors as he
            if isinstance(e, (he.HypothesisException,)) or type(e).__name__ in ("UnsatisfiedAssumption", "StopTest", "Frozen"):
                raise
            inside, where = _inside_tangelo(e)
            if inside:
                return Fail(f"unexpected {type(e).__name__}: {e}", sig=f"exception:{where}",
                            traceback=traceback.format_exc()[-1500:])
            raise HarnessError(f"{self.prop}/{self.part}/{name}: harness exception {type(e).__name__}: {e}\n"
                               + traceback.format_exc()) from e
        if out is None:
            out = (True, ())
        nontrivial, labels = out
        self.rec.case({"search": name, "case": case}, bool(nontrivial), [f"{name}:{l}" for l in labels])
        return None

    def _handle_failure(self, name, case, fail, exclusions):
        """Classify a (shrunk) failure. Returns True if it is a listed known finding (search continues)."""
        sig = fail.sig or "unclassified"
        if sig in self.findings:
            if sig not in self.known_hits:
                self.known_hits[sig] = {"what": self.findings[sig].get("what", ""), "example": case, "message": fail.msg}
            return True
        fp = R.fingerprint({"s": name, "c": case})
        rel = os.path.join(".work/replay-alt" if ALT else "replay", f"{self.prop}-{self.part}-{fp}.json")
        doc = {"property": self.prop, "part": self.part, "search": name, "signature": sig, "message": fail.msg,
               "details": json.loads(R.canon(fail.details)), "seed": self.base_seed, "case": json.loads(R.canon(case))}
        if not self.replay:
            os.makedirs(os.path.dirname(os.path.join(ROOT, rel)), exist_ok=True)
            with open(os.path.join(ROOT, rel), "w") as fh:
                json.dump(doc, fh, indent=1, sort_keys=True)
        self.violations.append({"replay": rel if not self.replay else self.replay.get("path", rel), "signature": sig,
                                "message": fail.msg[:2000], "search": name})
        return False

    # ------------------------------------------------------------------ Hypothesis-driven search
    def search(self, name, strategy, body, frac=1.0, n=None, exclusions=None, shrink_calls=None, stateful=False):
        """Generated search. `exclusions`: {signature: predicate(case)} used once a known finding was re-observed."""
        if self.replay is not None:
            if self.replay["search"] == name:
                f = self._eval(name, body, self.replay["case"])
                if f is not None:
                    self._handle_failure(name, self.replay["case"], f, exclusions)
            return
        import hypothesis
        from hypothesis import given, settings, HealthCheck, Phase, seed as hseed
        n = self.share(frac) if n is None else n
        if n <= 0:
            return
        exclusions = exclusions or {}
        active_excl = []
        shrink_calls = shrink_calls or (400 if self.tier == "quick" else 3000)
        remaining = n
        attempt = 0
        while remaining > 0:
            st = {"failed": False, "calls_after": 0, "cache": {}, "last": None, "runs": 0}

            def wrapped(case):
                if self.out_of_time() and not st["failed"]:
                    self.rec.count(f"{name}:skipped_time_budget")
                    return
                for sig, pred in active_excl:
                    if pred(case):
                        self.rec.count(f"{name}:excluded_known:{sig}")
                        return
                fp = R.fingerprint(case)
                if fp in st["cache"]:
                    st["last"] = (case, st["cache"][fp])
                    raise st["cache"][fp]
                if st["failed"]:
                    st["calls_after"] += 1
                    if st["calls_after"] > shrink_calls:
                        return
                st["runs"] += 1
                f = self._eval(name, body, case)
                if f is not None:
                    st["failed"] = True
                    st["cache"][fp] = f
                    st["last"] = (case, f)
                    raise f

            test = given(strategy)(wrapped)
            test = settings(max_examples=remaining, deadline=None, database=None, derandomize=False,
                            report_multiple_bugs=False, print_blob=False,
                            phases=[Phase.generate, Phase.shrink],
                            suppress_health_check=list(HealthCheck))(test)
            test = hseed(derive_seed(self.seed_for(name), attempt))(test)
            try:
                test()
                break
            except Fail:
                case, f = st["last"]
                if not self._handle_failure(name, case, f, exclusions):
                    break
                sig = f.sig
                if sig not in exclusions:
                    # a listed finding without an exclusion rule: cannot continue the search behind it
                    self.rec.count(f"{name}:search_stopped_behind_known:{sig}")
                    break
                if sig not in [s for s, _ in active_excl]:
                    active_excl.append((sig, exclusions[sig]))
                remaining -= st["runs"]
                attempt += 1
            except HarnessError:
                raise
            except Exception as e:
                import hypothesis.errors as he
                if isinstance(e, he.Unsatisfiable):
                    self.rec.count(f"{name}:unsatisfiable")
                    break
                raise HarnessError(f"{self.prop}/{self.part}/{name}: {type(e).__name__}: {e}\n{traceback.format_exc()}") from e

    # ------------------------------------------------------------------ exhaustive enumeration
    def sweep(self, name, items, body, exclusions=None):
        """Enumerate `items` (list of JSON-able cases); sharded by index. Failures are collected (up to 3 per
        signature), the first unknown one becomes the replay file."""
        if self.replay is not None:
            if self.replay["search"] == name:
                f = self._eval(name, body, self.replay["case"])
                if f is not None:
                    self._handle_failure(name, self.replay["case"], f, exclusions)
            return
        seen = set()
        for i, case in enumerate(items):
            if i % self.nshards != self.shard:
                continue
            if self.out_of_time():
                self.rec.count(f"{name}:skipped_time_budget")
                continue
            f = self._eval(name, body, case)
            if f is not None:
                sig = f.sig or "unclassified"
                if sig in seen:
                    self.rec.count(f"{name}:more_failures:{sig}")
                    continue
                seen.add(sig)
                self._handle_failure(name, case, f, exclusions)
        self.rec.count(f"{name}:swept_complete_shard")

    def dump(self):
        d = self.rec.dump()
        return {"rec": d, "violations": self.violations, "known": self.known_hits, "wall": time.time() - self.t0,
                "inconclusive": self.inconclusive}


# ---------------------------------------------------------------------------------------------------------------

def load_check(prop):
    mod = importlib.import_module(f"checks.{prop.lower()}")
    assert mod.PROPERTY == prop
    return mod


def assert_tree():
    import tangelo
    p = os.path.realpath(tangelo.__file__)
    if not p.startswith(REPO + os.sep):
        raise HarnessError(f"tangelo imported from {p}, expected {REPO}")


def run_worker(prop, tier, seed, shard, nshards, only, replay, budget_s):
    assert_tree()
    mod = load_check(prop)
    if hasattr(mod, "selftest"):
        try:
            mod.selftest()
        except Exception as e:
            raise HarnessError(f"oracle self-test failed: {type(e).__name__}: {e}\n{traceback.format_exc()}")
    findings = load_findings(prop)
    out = {"parts": {}}
    parts = [p for p in mod.PARTS if (not only or p.name in only)]
    for p in parts:
        n_total = p.quick if tier == "quick" else p.thorough
        if replay is not None and replay["part"] != p.name:
            continue
        if n_total <= 0 and replay is None:
            continue
        if not p.shard and shard != 0 and replay is None:
            continue
        ns = nshards if p.shard else 1
        ctx = Ctx(prop, p.name, tier, seed, shard if p.shard else 0, ns, n_total, findings, replay=replay, budget_s=budget_s)
        p.fn(ctx)
        out["parts"][p.name] = ctx.dump()
    return out


def replay_corpus(prop):
    d = os.path.join(ROOT, "replay")
    if not os.path.isdir(d):
        return []
    return sorted(os.path.join(d, f) for f in os.listdir(d) if f.startswith(prop + "-") and f.endswith(".json"))


def main(argv=None):
    ap = argparse.ArgumentParser()
    ap.add_argument("prop")
    ap.add_argument("--tier", default=os.environ.get("VERIF_TIER", "quick"), choices=["quick", "thorough"])
    ap.add_argument("--replay")
    ap.add_argument("--shards", type=int)
    ap.add_argument("--only")
    ap.add_argument("--worker")   # "k/N"
    ap.add_argument("--frag")
    ap.add_argument("--no-corpus", action="store_true")
    a = ap.parse_args(argv)
    prop = a.prop.upper()
    seed = int(os.environ.get("VERIF_SEED", "1") or 1)
    only = set(a.only.split(",")) if a.only else None
    t0 = time.time()

    if a.worker:
        k, n = (int(x) for x in a.worker.split("/"))
        try:
            mod = load_check(prop)
            budget = getattr(mod, "PART_BUDGET_S", {}).get(a.tier, 900 if a.tier == "quick" else 5400)
            rp = None
            if a.replay:
                doc = json.load(open(a.replay))
                rp = {"part": doc["part"], "search": doc["search"], "case": doc["case"], "path": a.replay}
            res = run_worker(prop, a.tier, seed, k, n, only, rp, budget)
            res["status"] = "ok"
        except HarnessError as e:
            res = {"status": "harness_error", "error": str(e)[-4000:], "parts": {}}
        except Exception as e:
            res = {"status": "harness_error", "error": f"{type(e).__name__}: {e}\n{traceback.format_exc()[-4000:]}", "parts": {}}
        with open(a.frag, "w") as fh:
            fh.write(R.canon(res))
        return 0

    # ---------------- controller
    mod_shards = None
    try:
        sys.path.insert(0, ROOT)
        import ast
        src = open(os.path.join(ROOT, "checks", prop.lower() + ".py")).read()
        for node in ast.parse(src).body:
            if isinstance(node, ast.Assign) and getattr(node.targets[0], "id", "") == "SHARDS":
                mod_shards = ast.literal_eval(node.value)
    except FileNotFoundError:
        print(f"no check for {prop}")
        return 2
    nshards = a.shards or (mod_shards or {}).get(a.tier, 4 if a.tier == "quick" else 16)
    work = os.path.join(ROOT, ".work", f"{prop}-{a.tier}-{os.getpid()}")
    os.makedirs(work, exist_ok=True)
    jobs = []   # (label, cmd, frag)
    base = [sys.executable, "-W", "ignore", "-m", "vlib.runner", prop, "--tier", a.tier]
    if a.replay:
        jobs.append(("replay", base + ["--worker", "0/1", "--replay", a.replay, "--frag", os.path.join(work, "replay.json")], os.path.join(work, "replay.json")))
    else:
        if not a.no_corpus:
            for i, f in enumerate(replay_corpus(prop)):
                fr = os.path.join(work, f"corpus{i}.json")
                jobs.append((f"corpus:{os.path.basename(f)}", base + ["--worker", "0/1", "--replay", f, "--frag", fr], fr))
        for k in range(nshards):
            fr = os.path.join(work, f"shard{k}.json")
            cmd = base + ["--worker", f"{k}/{nshards}", "--frag", fr]
            if a.only:
                cmd += ["--only", a.only]
            jobs.append((f"shard{k}", cmd, fr))
    if a.only:
        os.environ["VERIF_DEVRUN"] = "1"     # development run: replays/evidence go to .work/
    maxpar = int(os.environ.get("VERIF_JOBS", "16"))
    running, results, queue = [], {}, list(jobs)
    logs = {}
    while queue or running:
        while queue and len(running) < maxpar:
            label, cmd, fr = queue.pop(0)
            lf = open(fr + ".log", "w")
            running.append((label, subprocess.Popen(cmd, cwd=ROOT, stdout=lf, stderr=subprocess.STDOUT), fr, lf))
        still = []
        for label, p, fr, lf in running:
            if p.poll() is None:
                still.append((label, p, fr, lf))
            else:
                lf.close()
                if os.path.exists(fr):
                    results[label] = json.load(open(fr))
                else:
                    results[label] = {"status": "harness_error", "error": "worker died: " + open(fr + ".log").read()[-3000:], "parts": {}}
        running = still
        if running:
            time.sleep(0.2)

    # ---------------- merge
    harness_errors = [(l, r["error"]) for l, r in results.items() if r["status"] != "ok"]
    per_part, violations, known = {}, [], {}
    corpus_runs = 0
    inconclusive = False
    for label, r in results.items():
        if label.startswith("corpus:") or label == "replay":
            corpus_runs += 1
        for pname, d in r.get("parts", {}).items():
            if not (label.startswith("corpus:")):
                per_part.setdefault(pname, []).append(d["rec"])
            violations.extend(d["violations"])
            for s, k in d["known"].items():
                known.setdefault(s, k)
            inconclusive |= d.get("inconclusive", False)
    merged_parts = {p: R.merge(fr) for p, fr in per_part.items()}
    total = R.merge([{"evaluations": m["evaluations"], "fps": m["fps"], "labels": {f"{p}/{k}": v for k, v in m["labels"].items()},
                      "samples": [], "counters": {f"{p}/{k}": v for k, v in m["counters"].items()}}
                     for p, m in merged_parts.items()]) if merged_parts else R.merge([])
    samples = []
    for p, m in merged_parts.items():
        samples.extend({"part": p, **s} for s in m["samples"][:3])
    wall = time.time() - t0

    mod_meta = {}
    try:
        src_mod = ast.parse(src)
        for node in src_mod.body:
            if isinstance(node, ast.Assign) and getattr(node.targets[0], "id", "") in ("RULE", "ASSUMPTIONS", "EXHAUSTIVE"):
                mod_meta[node.targets[0].id] = ast.literal_eval(node.value)
    except Exception:
        pass

    if not a.replay:
        ev = {
            "property_id": prop, "tier": a.tier, "seed": seed, "level": LEVEL,
            "coverage": {
                "evaluations": total["evaluations"],
                "distinct_nontrivial": len(total["fps"]),
                "rule": mod_meta.get("RULE", ""),
                "samples": samples[:12],
                "labels": total["labels"],
                "counters": total["counters"],
                "per_part": {p: {"evaluations": m["evaluations"], "distinct_nontrivial": len(m["fps"])} for p, m in merged_parts.items()},
                "replay_corpus_cases": corpus_runs,
                "shards": nshards,
                "exhaustive": bool(mod_meta.get("EXHAUSTIVE", False)),
                "inconclusive_time_budget": inconclusive,
                "known_findings_reobserved": sorted(known),
            },
            "assumptions": mod_meta.get("ASSUMPTIONS", []),
            "wall_s": round(wall, 2),
            "violations": len(violations),
        }
        evdir = os.path.join(ROOT, ".work", "evidence-alt") if (ALT or a.only) else os.path.join(ROOT, "evidence")
        os.makedirs(evdir, exist_ok=True)
        if not harness_errors:
            with open(os.path.join(evdir, f"{prop}.json"), "w") as fh:
                json.dump(ev, fh, indent=1, sort_keys=True)

    import shutil
    shutil.rmtree(work, ignore_errors=True)

    for s, k in sorted(known.items()):
        print(f"KNOWN-FINDING: property={prop} {s}: {k['what']}")
    if harness_errors:
        for l, e in harness_errors[:3]:
            print(f"HARNESS-ERROR {prop} [{l}]: {e}", file=sys.stderr)
        return 2
    if violations:
        best = {}
        for v in violations:
            v["replay"] = os.path.relpath(os.path.join(ROOT, v["replay"]), ROOT)    # one spelling per file
            p = os.path.join(ROOT, v["replay"])
            size = os.path.getsize(p) if os.path.exists(p) else 1 << 30
            key = (v.get("search"), v["signature"])
            if key not in best or size < best[key][0]:
                best[key] = (size, v)
        keep = {v["replay"] for _, v in best.values()}
        for v in violations:
            if v["replay"] not in keep and "/replay" in "/" + v["replay"] and not a.replay:
                p = os.path.join(ROOT, v["replay"])
                # only remove files written by this run (never a committed corpus file that failed again)
                if os.path.exists(p) and os.path.getmtime(p) >= t0:
                    os.remove(p)
        violations = [v for _, v in best.values()]
        seen = set()
        for v in violations:
            if v["replay"] in seen:
                continue
            seen.add(v["replay"])
            print(f"VIOLATION property={prop} replay={v['replay']}")
            print(f"  signature={v['signature']} :: {v['message'][:600]}")
        return 1
    print(f"OK property={prop} tier={a.tier} seed={seed} evaluations={total['evaluations']} "
          f"distinct_nontrivial={len(total['fps'])} known={len(known)} wall={wall:.1f}s" + (" (time budget hit: inconclusive for the remainder)" if inconclusive else ""))
    return 0


if __name__ == "__main__":
    from vlib.runner import main as _main   # single module identity for Fail/Skip
    sys.exit(_main())
