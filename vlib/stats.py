"""Exact statistical acceptance test for sampled frequencies.

A Gaussian band (k sigma) is not valid for small N*p: e.g. 2 hits in 7 shots at p = 0.0026 has probability 1.4e-4, far
more than the 1e-10 a 6.5 sigma band suggests, and produced a false alarm in the thorough tier of C01.  The test here is
the exact two-sided binomial tail."""
from scipy.stats import binom

ALPHA = 1e-12      # per comparison; a run makes < 1e7 comparisons, so the false-alarm probability per run is < 1e-5


def binomial_ok(count, n, p, alpha=ALPHA):
    """True unless observing `count` successes in n Bernoulli(p) draws is more extreme than alpha (either tail)."""
    p = min(max(float(p), 0.0), 1.0)
    k = int(round(count))
    lower = binom.cdf(k, n, p)        # P(X <= k)
    upper = binom.sf(k - 1, n, p)     # P(X >= k)
    return min(lower, upper) >= alpha


def selftest():
    assert binomial_ok(2, 7, 0.0026)            # the thorough-tier false alarm of the Gaussian band
    assert not binomial_ok(7, 7, 0.0026)
    assert binomial_ok(5000, 10000, 0.5) and not binomial_ok(5400, 10000, 0.5)
    assert not binomial_ok(0, 10**7, 0.5) and binomial_ok(0, 5, 0.0) and not binomial_ok(1, 5, 0.0)
