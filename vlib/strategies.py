"""Hypothesis strategies producing plain JSON-able data, plus builders that turn the data into Tangelo objects.

Gate record:  {"n": NAME, "t": [targets], "c": [controls] | None, "p": float | None}   (optionally "v": bool)
Circuit case: {"gates": [grec...], "nq": int | None}   (nq = fixed n_qubits passed to Circuit, or None)
Operator:     [[ [[q,"X"],...], re, im ], ...]   list of (term, real, imag)
"""
from math import pi
from hypothesis import strategies as st

ONE_Q = ["H", "X", "Y", "Z", "S", "T"]
ONE_Q_PAR = ["RX", "RY", "RZ", "PHASE"]
CTRL_NOPAR = ["CNOT", "CX", "CY", "CZ", "CH"]
CTRL_PAR = ["CRX", "CRY", "CRZ", "CPHASE"]
TWO_T = ["SWAP"]
TWO_T_PAR = ["XX"]
PARAM = set(ONE_Q_PAR + CTRL_PAR + TWO_T_PAR)
ALL_GATES = ONE_Q + ONE_Q_PAR + CTRL_NOPAR + CTRL_PAR + TWO_T + TWO_T_PAR + ["CSWAP"]
SYMPY_UNSUPPORTED = {"XX", "CSWAP"}


@st.composite
def angles(draw, big=True):
    kind = draw(st.integers(0, 9))
    if kind <= 3:
        return draw(st.floats(-4 * pi, 4 * pi, allow_nan=False))
    if kind <= 5:
        return draw(st.integers(-16, 16)) * pi / 4
    if kind == 6:
        k = draw(st.integers(-3, 3))
        eps = draw(st.sampled_from([0.0, 1e-9, -1e-9, 3e-8, -3e-8, 1e-4, -1e-4]))
        return 2 * pi * k + eps
    if kind == 7:
        return draw(st.floats(-1e-2, 1e-2, allow_nan=False))
    if kind == 8 and big:
        return draw(st.floats(-1e3, 1e3, allow_nan=False))
    return draw(st.floats(-2 * pi, 2 * pi, allow_nan=False))


@st.composite
def gate_recs(draw, width, names=None, max_controls=3, angle=None):
    """One gate on qubits < width (width >= 1). Gates that need more qubits than available are avoided by construction."""
    names = names or ALL_GATES
    ok = []
    for nm in names:
        need = 1
        if nm in CTRL_NOPAR or nm in CTRL_PAR or nm in TWO_T or nm in TWO_T_PAR:
            need = 2
        if nm == "CSWAP":
            need = 3
        if need <= width:
            ok.append(nm)
    nm = draw(st.sampled_from(ok))
    ntg = 2 if nm in ("SWAP", "XX", "CSWAP") else 1
    is_ctrl = nm in CTRL_NOPAR or nm in CTRL_PAR or nm == "CSWAP"
    nctrl = 0
    if is_ctrl:
        nctrl = draw(st.integers(1, max(1, min(max_controls, width - ntg))))
    qs = draw(st.permutations(list(range(width))))[: ntg + nctrl]
    g = {"n": nm, "t": list(qs[:ntg]), "c": list(qs[ntg:]) if nctrl else None, "p": None}
    if nm in PARAM:
        g["p"] = draw(angle if angle is not None else angles())
    return g


@st.composite
def circuits(draw, max_width=5, max_gates=12, names=None, min_gates=0, max_controls=3, allow_fixed=True, angle=None, min_width=1):
    width = draw(st.integers(min_width, max_width))
    gates = draw(st.lists(gate_recs(width, names=names, max_controls=max_controls, angle=angle), min_size=min_gates, max_size=max_gates))
    nq = None
    if allow_fixed and draw(st.integers(0, 3)) == 0:
        used = 1 + max([max(g["t"] + (g["c"] or [])) for g in gates], default=-1)
        nq = draw(st.integers(max(used, 1), max(used, 1) + 2))
    return {"gates": gates, "nq": nq}


def build_gate(g):
    from tangelo.linq import Gate
    kw = {}
    if g.get("c"):
        kw["control"] = list(g["c"])
    if g.get("p") is not None:
        kw["parameter"] = g["p"]
    if g.get("v"):
        kw["is_variational"] = True
    return Gate(g["n"], list(g["t"]) if len(g["t"]) > 1 else g["t"][0], **kw)


def build_circuit(case):
    from tangelo.linq import Circuit
    return Circuit([build_gate(g) for g in case["gates"]], n_qubits=case.get("nq"))


def circuit_width(case):
    used = 1 + max([max(g["t"] + (g["c"] or [])) for g in case["gates"]], default=-1)
    return max(used, case.get("nq") or 0)


def gate_to_rec(g):
    """Tangelo Gate -> record (parameter kept as is)."""
    p = g.parameter
    return {"n": g.name, "t": list(g.target), "c": list(g.control) if g.control else None,
            "p": (None if (isinstance(p, str) and p == "") else p), "v": bool(g.is_variational)}


def circuit_to_recs(c):
    return [gate_to_rec(g) for g in c]


# ------------------------------------------------------------------------------------------------ state vectors

@st.composite
def statevectors(draw, n, allow_none=True):
    """Returns None | {"kind": "basis", "i": k} | {"kind": "vec", "re": [...], "im": [...]} (unnormalised, non-zero)."""
    kind = draw(st.integers(0 if allow_none else 1, 3))
    if kind == 0:
        return None
    if kind == 1:
        return {"kind": "basis", "i": draw(st.integers(0, 2 ** n - 1))}
    comp = st.floats(-1, 1, allow_nan=False, width=32)
    re = draw(st.lists(comp, min_size=2 ** n, max_size=2 ** n))
    im = [0.0] * 2 ** n if kind == 2 else draw(st.lists(comp, min_size=2 ** n, max_size=2 ** n))
    if sum(a * a + b * b for a, b in zip(re, im)) < 1e-3:
        re[draw(st.integers(0, 2 ** n - 1))] = 1.0
    return {"kind": "vec", "re": re, "im": im}


def build_statevector(sv, n):
    import numpy as np
    if sv is None:
        return None
    if sv["kind"] == "basis":
        v = np.zeros(2 ** n, dtype=complex)
        v[sv["i"]] = 1
        return v
    v = np.array(sv["re"], dtype=float) + 1j * np.array(sv["im"], dtype=float)
    return v / np.linalg.norm(v)


# ------------------------------------------------------------------------------------------------ qubit operators

@st.composite
def pauli_terms(draw, n, min_weight=0):
    qs = draw(st.lists(st.integers(0, n - 1), unique=True, min_size=min_weight, max_size=n))
    return [[q, draw(st.sampled_from("XYZ"))] for q in sorted(qs)]


@st.composite
def qubit_ops(draw, n, max_terms=8, complex_coeffs=True, min_terms=1):
    terms = draw(st.lists(pauli_terms(n), min_size=min_terms, max_size=max_terms, unique_by=lambda t: tuple(map(tuple, t))))
    out = []
    cplx = complex_coeffs and draw(st.booleans())
    for t in terms:
        re = draw(st.one_of(st.floats(-3, 3, allow_nan=False), st.sampled_from([0.0, 1.0, -1.0, 0.5])))
        im = draw(st.floats(-3, 3, allow_nan=False)) if cplx else 0.0
        out.append([t, re, im])
    return out


def build_qubit_op(op, cls=None, force_complex=False):
    """terms -> tangelo QubitOperator. Coefficients are python float when imaginary parts are all 0 (unless forced)."""
    from tangelo.toolboxes.operators import QubitOperator
    cls = cls or QubitOperator
    q = cls()
    cplx = force_complex or any(im != 0 for _, _, im in op)
    for t, re, im in op:
        q += cls(tuple((int(a), b) for a, b in t), complex(re, im) if cplx else re)
    return q


def op_terms(op):
    """case operator -> {term tuple: coeff} with duplicates merged (for refsim.qop_matrix)."""
    d = {}
    for t, re, im in op:
        k = tuple((int(a), b) for a, b in t)
        d[k] = d.get(k, 0) + complex(re, im)
    return d
